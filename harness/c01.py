"""
C01 - sliding-kernel regression equals its definition at every pixel.

Real KernelModel.fit() on generated co-gridded blocks (small positive integers so that every kernel sum and product is
exact in float32; independent source / reference masks with holes, borders, isolated pixels; kernels 1..7 with h != w;
three models; find_r2 on/off; in-paint thresholds None/0/0.25/1) against

  leg 2: the Lean model (`fit` op; exact rationals): mask exact, gain bit-identical to float32(model rational) where it
         is a single division of exact sums, other quantities within an error budget;
  leg 3: brute-force definitions evaluated here with Fractions directly over the jointly valid pixels of each
         window (ratio of sums; OLS from means/covariances; 1 - RSS/TSS from the residuals; line through the means),
         independent of the model's sum-expansions.
"""
from fractions import Fraction

import numpy as np

import common

EPS32 = float(np.finfo('float32').eps)
MODELS = ['gain', 'gain-blk-offset', 'gain-offset']


def gen_mask(rng, h, w):
    kind = rng.choice(['full', 'full', 'holes', 'border', 'isolated', 'row', 'sparse'])
    m = np.ones((h, w), dtype=bool)
    if kind == 'holes':
        for _ in range(rng.randint(1, max(1, h * w // 6))):
            m[rng.randrange(h), rng.randrange(w)] = False
    elif kind == 'border':
        t, l = rng.randint(0, 2), rng.randint(0, 2)
        m[:t, :] = False
        m[:, :l] = False
        m[h - rng.randint(0, 2):, :] = False
        m[:, w - rng.randint(0, 2):] = False
    elif kind == 'isolated':
        m[:] = False
        for _ in range(rng.randint(1, 4)):
            m[rng.randrange(h), rng.randrange(w)] = True
    elif kind == 'row':
        m[rng.randrange(h), :] = False
    elif kind == 'sparse':
        for r in range(h):
            for c in range(w):
                m[r, c] = rng.random() < 0.45
    return m


def gen_case(run, i):
    rng = run.rng(i)
    h, w = rng.randint(3, 12), rng.randint(3, 12)
    model = rng.choice(MODELS)
    kh, kw = rng.choice([1, 3, 5, 7]), rng.choice([1, 3, 5, 7])
    if rng.random() < 0.5 and kh == kw:
        kw = rng.choice([k for k in (1, 3, 5, 7) if k != kh])
    if model == 'gain-offset' and kh * kw < 2:
        kw = 3
    style = rng.choice(['random', 'random', 'linear', 'flat-patches'])
    vmax = 15
    if i % 16 == 15:
        # large kernels: windows with more than 255 (and more than 256) jointly valid pixels - counts that do not fit a byte;
        # values up to 7 keep every sum and product of sums exact in float32
        h, w = rng.randint(19, 24), rng.randint(19, 24)
        kh, kw = rng.choice([(17, 17), (13, 21), (19, 15), (17, 19)])
        vmax = 7
    src = [[rng.randint(1, vmax) for _ in range(w)] for _ in range(h)]
    if style == 'linear':
        a, b = rng.choice([1, 2, 3]), rng.choice([0, 1, 2])
        ref = [[min(vmax, a * v // 2 + b + 1) for v in row] for row in src]
    elif style == 'flat-patches':
        src = [[(3 if (r // 3 + c // 3) % 2 else rng.randint(1, vmax)) for c in range(w)] for r in range(h)]
        ref = [[rng.randint(1, vmax) for _ in range(w)] for _ in range(h)]
    else:
        ref = [[rng.randint(1, vmax) for _ in range(w)] for _ in range(h)]
    if i % 16 == 11 and model == 'gain-blk-offset':
        # a reference that is constant over the block (saturated, or a constant fill): the block normalisation gain std(ref)/std(src)
        # is exactly 0, the definition gives gain 0 and the reference value as offset at every jointly valid pixel
        cval = rng.randint(1, vmax)
        ref = [[cval for _ in range(w)] for _ in range(h)]
        style = 'constant-reference'
    if i % 16 == 7 and model != 'gain-blk-offset':
        # a source that is negative throughout (signed data: anomalies, slightly negative reflectance over water): every kernel sum
        # of the source is negative and non-zero; the definitions do not care about signs
        src = [[-v for v in row] for row in src]
        style = 'negative-source'
    sm, rm = gen_mask(rng, h, w), gen_mask(rng, h, w)
    if i % 16 == 15 and i % 32 == 15:
        sm[:], rm[:] = True, True    # every other large-kernel case: fully valid, so that the central windows are complete
    return dict(i=i, h=h, w=w, model=model, kh=kh, kw=kw, find_r2=rng.random() < 0.6,
                thresh=rng.choice([None, 0, 0.25, 0.25, 1]) if model == 'gain-offset' else 0.25,
                src=src, ref=ref, sm=sm.astype(int).tolist(), rm=rm.astype(int).tolist(), style=style)


def impl_fit(case, a=1.0, c=1.0):
    from homonim.kernel_model import KernelModel
    from homonim.raster_array import RasterArray
    from rasterio.transform import Affine
    import rasters
    h, w = case['h'], case['w']
    src = np.array(case['src'], dtype='float32') * np.float32(a)
    ref = np.array(case['ref'], dtype='float32') * np.float32(c)
    src[~np.array(case['sm'], dtype=bool)] = np.nan
    ref[~np.array(case['rm'], dtype=bool)] = np.nan
    tr = Affine(2, 0, 1000, 0, -2, 5000)
    sra = RasterArray(src.copy(), rasters.CRS3857, tr, nodata=float('nan'))
    rra = RasterArray(ref.copy(), rasters.CRS3857, tr, nodata=float('nan'))
    km = KernelModel(case['model'], (case['kh'], case['kw']), find_r2=case['find_r2'],
                     r2_inpaint_thresh=case['thresh'])
    norm = None
    if case['model'] == 'gain-blk-offset':
        norm = KernelModel._fit_block_norm(
            RasterArray(src.copy(), rasters.CRS3857, tr, nodata=float('nan')),
            RasterArray(ref.copy(), rasters.CRS3857, tr, nodata=float('nan')))
    pra = km.fit(sra, rra)
    return pra.array.copy(), norm


def impl_refit(case):
    """the case's fit with a reference block object that already went through another fit (other model and kernel, a fresh copy of
    the same source): comparing models or kernels on one block pair.  `fit` zeroes the not jointly valid pixels of the blocks it
    is given in place and relies on their masks, so the second result must still be the definition's."""
    from homonim.kernel_model import KernelModel
    from homonim.raster_array import RasterArray
    from rasterio.transform import Affine
    import rasters
    src = np.array(case['src'], dtype='float32')
    ref = np.array(case['ref'], dtype='float32')
    src[~np.array(case['sm'], dtype=bool)] = np.nan
    ref[~np.array(case['rm'], dtype=bool)] = np.nan
    tr = Affine(2, 0, 1000, 0, -2, 5000)
    rra = RasterArray(ref.copy(), rasters.CRS3857, tr, nodata=float('nan'))
    other = 'gain' if case['model'] != 'gain' else 'gain-offset'
    KernelModel(other, (3, 3), find_r2=True).fit(RasterArray(src.copy(), rasters.CRS3857, tr, nodata=float('nan')), rra)
    km = KernelModel(case['model'], (case['kh'], case['kw']), find_r2=case['find_r2'], r2_inpaint_thresh=case['thresh'])
    return km.fit(RasterArray(src.copy(), rasters.CRS3857, tr, nodata=float('nan')), rra).array.copy()


def frac(x):
    return Fraction(x).limit_denominator(10**12) if False else Fraction(x)


def tok(x):
    return f'{x.numerator}/{x.denominator}' if x.denominator != 1 else str(x.numerator)


def model_line(case, params, norm):
    h, w = case['h'], case['w']
    sm, rm = np.array(case['sm'], dtype=bool), np.array(case['rm'], dtype=bool)
    st = [str(case['src'][r][c]) if sm[r, c] else '_' for r in range(h) for c in range(w)]
    rt = [str(case['ref'][r][c]) if rm[r, c] else '_' for r in range(h) for c in range(w)]
    th = '_' if case['thresh'] is None or case['model'] != 'gain-offset' else tok(Fraction(case['thresh']))
    n0, n1 = (Fraction(1), Fraction(0)) if norm is None else (Fraction(float(norm[0])), Fraction(float(norm[1])))
    line = f"fit {case['model']} {case['kh']} {case['kw']} {h} {w} {int(case['find_r2'])} {th} {tok(n0)} {tok(n1)} S " \
        + ' '.join(st) + ' R ' + ' '.join(rt)
    if case['model'] == 'gain-offset' and case['thresh'] is not None:
        ft = []
        for r in range(h):
            for c in range(w):
                v = float(params[1, r, c])
                ft.append(tok(Fraction(v)) if np.isfinite(v) else '_')
        line += ' F ' + ' '.join(ft)
    return line


def window_points(case, r, c):
    """jointly valid (src, ref) pairs of the kh x kw window centred on (r, c): height along rows"""
    h, w, kh, kw = case['h'], case['w'], case['kh'], case['kw']
    pts = []
    for i in range(r - kh // 2, r + kh // 2 + 1):
        for j in range(c - kw // 2, c + kw // 2 + 1):
            if 0 <= i < h and 0 <= j < w and case['sm'][i][j] and case['rm'][i][j]:
                pts.append((Fraction(case['src'][i][j]), Fraction(case['ref'][i][j])))
    return pts


def brute(case, pts, norm):
    """the model's *definition* over the window's jointly valid points: (gain, offset, r2) or None"""
    n = len(pts)
    if n == 0:
        return None
    if case['model'] == 'gain-blk-offset':
        n0, n1 = Fraction(float(norm[0])), Fraction(float(norm[1]))
        pts = [(s * n0 + n1, r) for s, r in pts]
    S, R = sum(p[0] for p in pts), sum(p[1] for p in pts)
    if case['model'] in ('gain', 'gain-blk-offset'):
        if S == 0:
            return None
        g, o = R / S, Fraction(0)
    else:
        ms, mr = S / n, R / n
        var = sum((s - ms) ** 2 for s, _ in pts)
        if var == 0:
            return None
        g = sum((s - ms) * (r - mr) for s, r in pts) / var
        o = mr - g * ms
    rss = sum((r - (g * s + o)) ** 2 for s, r in pts)
    mr = R / n
    tss = sum((r - mr) ** 2 for _, r in pts)
    r2 = None if tss == 0 else 1 - rss / tss
    if case['model'] == 'gain-blk-offset':
        return (g * n0, g * n1, r2, (S, R, n))
    return (g, o, r2, (S, R, n))


def f32(q):
    return np.float32(q.numerator) / np.float32(q.denominator) if abs(q.numerator) < 2**24 and q.denominator < 2**24 \
        else np.float32(float(q))


def run(run: common.Run):
    n = 200 if run.quick() else 4000
    run.rule = ('random blocks 3..12 px of integers 1..15 (exact float32 sums), independent source/reference masks (full, '
                'holes, border, isolated, row, sparse), kernels {1,3,5,7}^2 with h != w in half the cases, three models, '
                'find_r2 on/off, in-paint thresholds None/0/0.25/1; non-trivial = non-full joint mask or non-square kernel; '
                'distinct by (shape, kernel, model, masks, thresh)')
    cases, lines, impls = [], [], []
    for i in run.indices(n):
        case = gen_case(run, i)
        try:
            params, norm = impl_fit(case)
        except Exception as ex:
            run.fail(case, f'KernelModel.fit raised {type(ex).__name__}: {ex}', signature=dict(kind='fit-raises'))
            continue
        run.evaluations += 1
        if i % 4 == 1:
            try:
                again = impl_refit(case)
            except Exception as ex:
                run.fail(case, f'KernelModel.fit on a re-used reference block raised {type(ex).__name__}: {ex}', signature=dict(kind='refit-raises'))
                continue
            run.hist['re-used reference block (second fit)'] += 1
            if not np.array_equal(again, params, equal_nan=True):
                nbad = int((~((again == params) | (np.isnan(again) & np.isnan(params)))).any(axis=0).sum())
                run.fail(case, f'a second fit against the same reference block object gives other parameters at {nbad} pixels than the fit '
                         'with fresh blocks (which is compared with the definition)', signature=dict(kind='refit-differs'))
                continue
        if norm is not None:
            # the block normalisation by its definition: std ratio and first-percentile offset over the JOINTLY valid pixels
            jmask = np.array(case['sm'], dtype=bool) & np.array(case['rm'], dtype=bool)
            if jmask.any():
                sj = np.array(case['src'], dtype='float32')[jmask]
                rj = np.array(case['ref'], dtype='float32')[jmask]
                with np.errstate(all='ignore'):
                    d0 = float(np.std(rj) / np.std(sj))
                    d1 = float(np.percentile(rj, 1) - np.percentile(sj, 1) * d0)
                if np.isfinite(d0) and np.isfinite(d1) and np.all(np.isfinite(norm)) and \
                        (abs(norm[0] - d0) > 1e-5 * max(1.0, abs(d0)) or abs(norm[1] - d1) > 1e-4 * max(1.0, abs(d1))):
                    run.fail(case, f'block normalisation (gain, offset) = ({norm[0]:.6g}, {norm[1]:.6g}); std ratio and first-percentile offset over '
                             f'the {int(jmask.sum())} jointly valid pixels are ({d0:.6g}, {d1:.6g})', signature=dict(kind='block-norm'))
        if norm is not None and not np.all(np.isfinite(norm)):
            run.hist['degenerate block normalisation (std = 0 or no valid pixel): skipped'] += 1
            continue
        run.hist[f"model={case['model']}"] += 1
        run.hist['kernel ' + ('square' if case['kh'] == case['kw'] else 'non-square')] += 1
        jm = np.array(case['sm'], dtype=bool) & np.array(case['rm'], dtype=bool)
        if not jm.all() or case['kh'] != case['kw']:
            run.nontrivial.add((case['h'], case['w'], case['kh'], case['kw'], case['model'], jm.tobytes(),
                                str(case['thresh'])))
        leg3(run, case, params, norm, jm)
        cases.append(case)
        lines.append(model_line(case, params, norm))
        impls.append((params, norm))
        if len(run.samples) < 3:
            run.samples.append(dict(case={k: case[k] for k in ('i', 'h', 'w', 'model', 'kh', 'kw', 'thresh', 'find_r2')},
                                    model_request=lines[-1][:200]))
    replies = common.model_batch(lines)
    if replies is None:
        run.model_available = False
    else:
        failed = {f['case']['i'] for f in run.failures}
        for case, line, rep, (params, norm) in zip(cases, lines, replies, impls):
            run.lines_compared += 1
            if case['i'] in failed:
                continue
            bad = compare_model(run, case, rep, params)
            if bad:
                run.disagree(case, line[:300], bad[1], bad[2], what=bad[0])
    kernel_shape_validation(run)


def r2_budget(case, g, o, sums):
    S, R, n = (float(x) for x in sums)
    return 1e-3


def leg3(run, case, params, norm, jm):
    """definition oracle on the code's own numbers"""
    h, w = case['h'], case['w']
    has_r2 = params.shape[0] > 2
    inpaint = case['model'] == 'gain-offset' and case['thresh'] is not None
    for r in range(h):
        for c in range(w):
            g, o = float(params[0, r, c]), float(params[1, r, c])
            r2 = float(params[2, r, c]) if has_r2 else None
            if not jm[r, c]:
                if not (np.isnan(g) and np.isnan(o) and (r2 is None or np.isnan(r2))):
                    run.fail(case, f'pixel ({r},{c}) is not jointly valid but received parameters ({g},{o},{r2})',
                             signature=dict(kind='params-off-mask'))
                    return
                continue
            pts = window_points(case, r, c)
            d = brute(case, pts, norm)
            run.hist['pixels'] += 1
            if d is None:
                run.hist['degenerate window'] += 1
                if np.isfinite(g) and case['model'] != 'gain-offset':
                    run.fail(case, f'degenerate window at ({r},{c}) got gain {g}', signature=dict(kind='degenerate'))
                    return
                continue
            dg, do, dr2, (S, R, nn) = d
            scale = max(1.0, abs(float(dg)))
            ms, mr = float(S) / nn, float(R) / nn
            if case['model'] == 'gain-blk-offset':
                # the line maps the window's mean *source* (un-normalised) to its mean reference
                n0, n1 = float(norm[0]), float(norm[1])
                ms_raw = (ms - n1) / n0 if n0 != 0 else ms
                thru = g * ms_raw + o
            else:
                thru = g * ms + o
            if not np.isfinite(g) or not np.isfinite(o):
                run.fail(case, f'jointly valid pixel ({r},{c}) with a non-degenerate window has gain {g}, offset {o}',
                         signature=dict(kind='no-params-on-mask'))
                return
            if not (abs(thru - mr) <= 2e-4 * max(1.0, abs(mr))):      # (NaN-aware: a NaN offset is a failure too)
                run.fail(case, f'fitted line at ({r},{c}) maps mean source {ms} to {thru}, mean reference is {mr}',
                         signature=dict(kind='line-through-means'))
                return
            kept = True
            if inpaint:
                # in-painted where not (r2 > thresh and gain > 0): only check those we can decide safely
                t = case['thresh']
                if dr2 is None or dg <= 0 or float(dr2) <= t + 1e-3:
                    kept = False
                    if dr2 is not None and dg > 0 and abs(float(dr2) - t) <= 1e-3:
                        run.hist['threshold-borderline (skipped)'] += 1
                        continue
                    run.hist['in-painted pixels'] += 1
            if kept:
                if abs(g - float(dg)) > 2e-5 * scale + (1e-4 if case['model'] != 'gain' else 0):
                    run.fail(case, f'gain at ({r},{c}) is {g}, definition over the {case["kh"]}x{case["kw"]} window gives '
                             f'{float(dg)}', signature=dict(kind='gain-def'))
                    return
                if abs(o - float(do)) > 5e-4 * max(1.0, abs(float(do))):
                    run.fail(case, f'offset at ({r},{c}) is {o}, definition gives {float(do)}',
                             signature=dict(kind='offset-def'))
                    return
            if has_r2 and dr2 is not None and kept:
                # error budget of the float32 expansion
                sums_mag = abs(float(dg)) ** 2 * 225 * nn + 225 * nn
                tss = float(sum((rr - R / nn) ** 2 for _, rr in pts))
                tol = 64 * EPS32 * sums_mag * nn / max(tss * nn, 1e-9) + 1e-4
                if abs(r2 - float(dr2)) > tol:
                    run.fail(case, f'R2 at ({r},{c}) is {r2}, 1 - RSS/TSS of the window is {float(dr2)} (tol {tol:.2e})',
                             signature=dict(kind='r2-def'))
                    return


def compare_model(run, case, rep, params):
    h, w = case['h'], case['w']
    toks = rep.split()
    if len(toks) != h * w:
        return ('reply shape', rep[:100], f'{h}x{w}')
    has_r2 = params.shape[0] > 2
    inpaint = case['model'] == 'gain-offset' and case['thresh'] is not None
    for k, t in enumerate(toks):
        r, c = divmod(k, w)
        g, o = params[0, r, c], params[1, r, c]
        if t == '_':
            if np.isfinite(g):
                return (f'model: no parameters at ({r},{c}); code: gain {g}', t, str(g))
            continue
        mg, mo, mr2 = t.split(',')
        mg, mo = Fraction(mg), Fraction(mo)
        if not np.isfinite(g):
            return (f'model: parameters at ({r},{c}); code: gain {g}', t, str(g))
        exact_gain = case['model'] in ('gain', 'gain-offset')
        kept = True
        if inpaint:
            t_ = Fraction(case['thresh'])
            q = None if mr2 == '_' else Fraction(mr2)
            kept = q is not None and q > t_ and (mg > 0 if True else True)
            # model's own decision (it saw the exact r2); borderline → skip the branch-dependent numbers
            if q is not None and abs(float(q) - float(t_)) <= 1e-3:
                continue
        if exact_gain and kept and not inpaint:
            run.hist['gains compared bit-exactly'] += 1
            if np.float32(g).tobytes() != f32(mg).tobytes():
                return (f'gain at ({r},{c}) is not float32(model rational)', f'{mg} = {float(mg)!r}', repr(float(g)))
        else:
            if abs(float(g) - float(mg)) > 3e-5 * max(1.0, abs(float(mg))) + (1e-4 if not exact_gain else 1e-5):
                return (f'gain at ({r},{c})', f'{float(mg)!r}', repr(float(g)))
        if abs(float(o) - float(mo)) > 5e-4 * max(1.0, abs(float(mo))):
            return (f'offset at ({r},{c})', f'{float(mo)!r}', repr(float(o)))
        if has_r2:
            ir2 = float(params[2, r, c])
            if mr2 == '_':
                if case['find_r2'] or inpaint:
                    if np.isfinite(ir2) and abs(ir2) < 1e6:
                        pass  # TSS = 0 in exact arithmetic: the code's float value is arbitrary (0/0 or x/0)
            else:
                if not np.isfinite(ir2) or abs(ir2 - float(Fraction(mr2))) > 2e-2:
                    return (f'R2 at ({r},{c})', mr2, repr(ir2))
    return None


def kernel_shape_validation(run):
    """malformed stream: validate_kernel_shape accepts iff both odd, >= 1, area >= 2 for gain-offset"""
    from homonim import utils
    lines, impls, cases = [], [], []
    for model in MODELS:
        for kh in range(-3, 8):
            for kw in range(-3, 8):
                try:
                    utils.validate_kernel_shape((kh, kw), model=model)
                    ok = '1'
                except ValueError:
                    ok = '0'
                lines.append(f'kshape {model} {kh} {kw}')
                impls.append(ok)
                cases.append(dict(i=10**6 + len(cases), model=model, kh=kh, kw=kw))
                run.evaluations += 1
                exp = kh % 2 == 1 and kw % 2 == 1 and kh >= 1 and kw >= 1 and (model != 'gain-offset' or kh * kw >= 2)
                if (ok == '1') != exp:
                    run.fail(cases[-1], f'validate_kernel_shape({kh},{kw},{model}) accepted={ok}',
                             signature=dict(kind='kernel-shape-validation'))
    run.compare_lines(cases, lines, impls)
    run.hist['kernel-shape validation rows'] = len(lines)
