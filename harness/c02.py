"""
C02 - end-to-end: an exact linear source-reference relation is recovered in place.

Pairs are constructed with the Lean model's own `average` resampler (exact rationals): on the reference grid
ref := a * avg_down(src) + b, on the source grid (source coarser) src := (avg_down(ref) - b) / a, per band with
band-specific (a, b); reference pixels outside the source footprint carry arbitrary numbers.  The real
RasterFuse.process must then write a*src + b at every valid source pixel (location- and band-exact: the source is
spatially random, so a displaced pixel or swapped band is an error of the order of the data range), for every ratio,
offset, size, nodata pattern, model, kernel, block count and thread count; RasterCompare(corrected, ref) RMSE ~ 0.
Leg 2 also validates the resampling model against GDAL (resamp.check_resampler).
"""
from fractions import Fraction

import numpy as np

import common
import fusion
import rasters
import resamp

MODELS = ['gain', 'gain-blk-offset', 'gain-offset']


def gen_case(run, i):
    rng = run.rng(i)
    family = rng.choice(['dyadic', 'dyadic', 'decimal'])
    # stratified over (model, processing grid, source nodata encoding): every combination within 18 consecutive cases
    model = MODELS[i % 3]
    proc = 'src-coarser' if (i // 3) % 2 == 1 else 'auto'
    src_nodata = ['nan', -9999.0, 'mask'][(i // 6) % 3]
    nb = rng.choice([1, 1, 2, 3])
    ab = []
    for _ in range(nb):
        a = rng.choice([0.5, 0.75, 1.25, 2.0, 0.3, 1.7])
        b = 0.0 if model == 'gain' else rng.choice([5.0, 12.5, 30.0, 2.25])
        ab.append((a, b))
    return dict(i=i, family=family, proc=proc, model=model, nb=nb, ab=ab,
                kernel=rng.choice([(1, 1), (3, 3), (3, 5), (5, 3), (5, 5), (7, 5)]) if model != 'gain-offset'
                else rng.choice([(3, 3), (3, 5), (5, 5), (5, 3)]),
                halvings=rng.choice([0, 0, 1, 2, 3, 4, 6]), threads=rng.choice([1, 1, 2, 4]),
                mask=rng.choice(['full', 'border', 'holes', 'border+holes']) if src_nodata == 'nan' else
                rng.choice(['holes', 'border+holes']),
                src_nodata=src_nodata if rng.random() < 0.8 else 0.0, ref_nodata=rng.choice(['nan', 'nan', -9999.0, 'mask']))


def make_valid(rng, h, w, kind):
    v = np.ones((h, w), bool)
    if 'border' in kind:
        v[:rng.randint(0, 2), :] = False
        v[:, :rng.randint(0, 3)] = False
        v[h - rng.randint(0, 2):, :] = False
        v[:, w - rng.randint(0, 1):] = False
    if 'holes' in kind:
        for _ in range(rng.randint(1, 4)):
            r, c = rng.randrange(h), rng.randrange(w)
            v[r:r + rng.randint(1, 2), c:c + rng.randint(1, 2)] = False
    return v


def run(run: common.Run):
    n = 36 if run.quick() else 600
    run.rule = ('pairs with ref = a*avg(src)+b (reference-grid processing) or src = (avg(ref)-b)/a (source-grid processing) built '
                'with the exact model resampler; ratios 1,3:2,2,5:2,20:9,3,4 with sub-pixel offsets, dyadic+decimal geometry, '
                'random source with nodata border/holes, 1-3 bands with band-specific (a,b), three models, kernels up to 7x5, '
                '1..64 blocks, threads 1/2/4; non-trivial = more than one block or a non-integer ratio/offset or holes; distinct by '
                '(geometry, model, kernel, blocks, mask)')
    tmp = run.tmpdir()
    # phase 1: geometry + data + model resampling requests
    prepared, lines = [], []
    for i in run.indices(n):
        case = gen_case(run, i)
        rng = run.rng(f'{i}-data')
        src_coarser = case['proc'] == 'src-coarser'
        island = case['model'] == 'gain-offset' and case['i'] % 12 == 8 and not src_coarser
        src, ref = rasters.pair_geometry(rng, case['family'], 'auto', max_src=30 if not src_coarser else 16,
                                         margin=(1, 3), avoid_aligned_edges=True)
        for _ in range(60):
            if not island or (src.px < ref.px and src.h >= (max(case['kernel']) + 3) * ref.py // src.py + 14):
                break
            src, ref = rasters.pair_geometry(rng, 'dyadic', 'auto', max_src=72, margin=(1, 3), avoid_aligned_edges=True)
            case['family'] = 'dyadic'
        if src_coarser == (src.px <= ref.px) and src.px != ref.px:
            # swap roles: make the source the coarser grid, placed inside the (finer) reference
            ps, pr = max(src.px, ref.px), min(src.px, ref.px)
            sw, sh = rng.randint(4, 14), rng.randint(4, 14)
            rx0, rytop = src.x0 - (src.x0 % pr), src.ytop - (src.ytop % pr)
            sub = rng.choice([0, pr // 2, 1 if pr > 1 else 0])
            if rasters.noisy_edges(case['family'], ps, pr) and pr > 1:
                sub = rasters.offgrid_offset(rng, case['family'], ps, pr)  # no coinciding pixel edges (see rasters.pair_geometry)
            sx0, sytop = rx0 + 3 * pr + sub, rytop - 2 * pr - sub
            rw = -(-(sx0 + sw * ps - rx0) // pr) + 3
            rh = -(-(rytop - (sytop - sh * ps)) // pr) + 2
            src = rasters.Grid(sx0, sytop, ps, ps, sw, sh, src.unit)
            ref = rasters.Grid(rx0, rytop, pr, pr, rw, rh, src.unit)
        if case['i'] % 12 == 7 and not src_coarser:
            # non-square source pixels: coarser than the reference along x, finer along y, smaller in area - the reference grid
            # is still the processing grid and the source still reaches it by the down-sampling method (`average`)
            pr = rng.choice([8, 16])
            spx, spy = pr * 3 // 2, pr // 4
            rx0, rytop = 8 * 30_000 + 3, 8 * 15_000 + 5
            sw, sh = rng.randint(5, 9), rng.randint(24, 40)
            sx0 = rx0 + 2 * pr + rasters.offgrid_offset(rng, 'dyadic', spx, pr)
            sytop = rytop - 2 * pr - rng.randrange(0, pr)
            src = rasters.Grid(sx0, sytop, spx, spy, sw, sh, rasters.Fraction(1, 8))
            ref = rasters.Grid(rx0, rytop, pr, pr, -(-(sx0 + sw * spx - rx0) // pr) + 2, -(-(rytop - (sytop - sh * spy)) // pr) + 2,
                               rasters.Fraction(1, 8))
            case['halvings'], case['family'] = 0, 'dyadic'
            run.hist['non-square source pixels'] += 1
        if case['model'] == 'gain-blk-offset' and case['i'] % 18 == 1 and not src_coarser:
            # source and reference on the very same pixel grid (two products of one tile grid): nothing needs to be resampled
            ref = rasters.Grid(src.x0 - 3 * src.px, src.ytop + 2 * src.py, src.px, src.py, src.w + 6, src.h + 5, src.unit)
            run.hist['source and reference on the same pixel grid'] += 1
        proc_ref = src.px * src.py <= ref.px * ref.py
        nb = case['nb']
        if proc_ref:
            s = np.array([[[rng.randint(30, 190) for _ in range(src.w)] for _ in range(src.h)] for _ in range(nb)], float)
            sv = make_valid(rng, src.h, src.w, case['mask'])
            if sv.sum() < 12:
                sv[:] = True
            if case['model'] == 'gain-offset' and (case['i'] % 2 == 1 or case['i'] % 12 == 2):
                # a flat (saturated) patch of the source wider than the kernel: the least-squares fit has no solution inside it, the
                # parameters there are in-painted (default threshold) - offset from the neighbours, gain re-estimated from the window
                # means - and the relation must still be recovered in place
                kh, kw = case['kernel']
                ph_ = min(src.h - 2, -(-(kh + 3) * ref.py // src.py))
                pw_ = min(src.w - 2, -(-(kw + 3) * ref.px // src.px))
                if ph_ >= 2 and pw_ >= 2:
                    r0, c0 = rng.randrange(1, src.h - ph_), rng.randrange(1, src.w - pw_)
                    s[:, r0:r0 + ph_, c0:c0 + pw_] = rng.randint(30, 190)
                    sv[r0:r0 + ph_, c0:c0 + pw_] = True
                    case['flat_patch'] = (r0, c0, ph_, pw_)
                    run.hist['gain-offset: source with a flat patch wider than the kernel (in-painted parameters)'] += 1
            if island:
                # an island: one valid source pixel more than a kernel away from every other valid pixel (single block).  Its kernels
                # hold one source value only - no least-squares solution - and are in-painted from the distant well-modelled ones
                # (default threshold); the relation must still be recovered at the island
                kh, kw = case['kernel']
                gap = (max(kh, kw) + 3) * ref.py // src.py + 2
                if src.h - gap - 6 >= 6:
                    sv[src.h - gap - 1:, :] = False
                    sv[src.h - 2, src.w // 2] = True
                    case['halvings'] = 0
                    run.hist['gain-offset: isolated valid pixel beyond the kernel reach (in-painted from afar)'] += 1
            req = [resamp.model_resample_line('average', src, ref, s[b], sv) for b in range(nb)]
            base = dict(src=s, sv=sv)
        else:
            r = np.array([[[rng.randint(30, 190) for _ in range(ref.w)] for _ in range(ref.h)] for _ in range(nb)], float)
            rv = np.ones((ref.h, ref.w), bool)
            req = [resamp.model_resample_line('average', ref, src, r[b], rv) for b in range(nb)]
            base = dict(ref=r, rv=rv)
        case['src'], case['ref'], case['proc_ref'] = src.to_dict(), ref.to_dict(), proc_ref
        prepared.append((case, src, ref, base, len(lines), nb))
        lines.extend(req)
    replies = common.model_batch(lines)
    if replies is None:
        run.model_available = False
        return
    run.lines_compared += 0
    # phase 2: write the pairs, run the real fusion, evaluate the property
    for case, src, ref, base, off, nb in prepared:
        rng = run.rng(f"{case['i']}-fill")
        if case['proc_ref']:
            s, sv = base['src'], base['sv']
            r = np.zeros((nb, ref.h, ref.w))
            for b in range(nb):
                ds = resamp.parse_model_grid(replies[off + b], ref.h, ref.w)
                a, bb = case['ab'][b]
                fill = np.array([[rng.randint(30, 190) for _ in range(ref.w)] for _ in range(ref.h)], float)
                r[b] = np.where(np.isfinite(ds), a * ds + bb, fill)
            rv = np.ones((ref.h, ref.w), bool)
        else:
            r, rv = base['ref'], base['rv']
            s = np.zeros((nb, src.h, src.w))
            for b in range(nb):
                ds = resamp.parse_model_grid(replies[off + b], src.h, src.w)
                a, bb = case['ab'][b]
                s[b] = (ds - bb) / a
            sv = make_valid(rng, src.h, src.w, case['mask'])
            if sv.sum() < 6:
                sv[:] = True
        if case['proc_ref'] and nb in (1, 3) and case['i'] % 6 == 2:
            # 8-bit source whose validity is an alpha band with semi-transparent (1..254) valid pixels (the source values are
            # integers 30..190)
            case['src_nodata'] = 'alpha'
            run.hist['source with a partly semi-transparent alpha band'] += 1
        pair = fusion.write_pair(tmp, 'c02', src, ref, s, r, sv, rv, src_nodata=case['src_nodata'],
                                 ref_nodata=case['ref_nodata'])
        try:
            res, case['halvings'] = fusion.run_fuse_blocks(
                case['halvings'], src, ref, case['proc_ref'], pair.src_path, pair.ref_path, tmp / 'c02_out.tif',
                model=case['model'], kernel_shape=case['kernel'], proc_crs='auto', param=False, threads=case['threads'])
        except Exception as ex:
            from homonim.errors import BlockSizeError
            if isinstance(ex, BlockSizeError):
                run.hist['block-size-error'] += 1
                continue
            run.fail(case, f'fusion raised {type(ex).__name__}: {ex}', signature=dict(kind='raises'))
            continue
        run.evaluations += 1
        run.hist[f"model={case['model']}"] += 1
        run.hist[f"proc={res.proc_crs}"] += 1
        run.hist[f"threads={case['threads']}"] += 1
        run.hist[f"src nodata={case['src_nodata']}"] += 1
        run.hist['blocks=1' if case['halvings'] == 0 else 'blocks>1'] += 1
        if case['halvings'] or ref.px % src.px or case['mask'] != 'full':
            run.nontrivial.add((src.px, ref.px, (src.x0 - ref.x0) % ref.px, case['model'], tuple(case['kernel']),
                                case['halvings'], case['mask']))
        # float32 view of what was stored
        s32 = pair.src.astype('float32').astype('float64')
        worst = 0.0
        for b in range(nb):
            a, bb = case['ab'][b]
            exp = a * s32[b] + bb
            rng_ = float(np.nanmax(exp[sv]) - np.nanmin(exp[sv])) if sv.any() else 1.0
            got = res.corr[b].astype('float64')
            # finding D25: a block that lies wholly inside a flat source patch holds no well-modelled kernel to in-paint from
            def d25(bad):
                fp = case.get('flat_patch')
                if not (fp and case['halvings'] and bad.any()):
                    return {}
                inside = np.zeros(sv.shape, bool)
                inside[fp[0]:fp[0] + fp[2], fp[1]:fp[1] + fp[3]] = True
                return dict(flat_patch=True, multi_block=True) if not (bad & ~inside).any() else {}
            if res.corr_mask is not None and res.profile.get('nodata') is None:
                got = np.where(res.corr_masks[b], got, np.nan)      # (internal-mask outputs: masked pixels hold no value)
            inval = sv & ~np.isfinite(got)
            if inval.any():
                rr, cc = np.argwhere(inval)[0]
                run.fail(case, f'band {b + 1}: valid source pixel ({rr},{cc}) has no corrected value '
                         f'({int(inval.sum())} such pixels)', signature=dict(kind='valid-pixel-lost', **d25(inval)))
                break
            err = np.abs(got - exp)[sv]
            tol = 2e-4 * max(rng_, 1.0) + 2e-4 * np.abs(exp[sv]).max() * (1 if case['model'] == 'gain-offset' else 0.2)
            if err.size and err.max() > tol:
                k = np.argwhere((np.abs(got - exp) > tol) & sv)[0]
                run.fail(case, f'band {b + 1}: corrected({k[0]},{k[1]}) = {got[k[0], k[1]]:.4f} but a*src+b = '
                         f'{exp[k[0], k[1]]:.4f} (a={a}, b={bb}; max err {err.max():.3g}, tol {tol:.3g})',
                         signature=dict(kind='line-not-recovered', **d25((np.abs(got - exp) > tol) & sv)))
                break
            worst = max(worst, float(err.max()) / max(rng_, 1.0) if err.size else 0.0)
        else:
            # RasterCompare(corrected, reference): RMSE ~ 0 (reference-grid processing)
            if case['proc_ref']:
                try:
                    from homonim import RasterCompare
                    import warnings
                    with warnings.catch_warnings():
                        warnings.simplefilter('ignore')
                        with RasterCompare(res.corr_path, pair.ref_path) as cmp:
                            st = cmp.process(threads=1)
                    rm = max(v['rmse'] for k, v in st.items() if k != 'Mean')
                    if rm > 5e-3 * 160:
                        run.fail(case, f'RasterCompare(corrected, reference) RMSE = {rm}', signature=dict(kind='compare-rmse'))
                except Exception as ex:
                    run.fail(case, f'RasterCompare raised {type(ex).__name__}: {ex}', signature=dict(kind='raises'))
        run.sample(dict(case={k: case[k] for k in ('i', 'model', 'kernel', 'halvings', 'threads', 'ab', 'mask', 'proc_ref')},
                        src_px=src.px, ref_px=ref.px, worst_rel_err=worst), 4)
    resamp.check_resampler(run, 45 if run.quick() else 600)
    import fuseimg
    fuseimg.whole_image_leg(run, 8 if run.quick() else 80, blocks=(0,))
