"""
C03 - valid-data mask fidelity: no invented pixels, no lost pixels.

Real fusions over source validity patterns (holes, borders, single pixels, stripes) x geometry (both families, large
coordinates) x models x kernels x both processing grids x block sizes x output nodata in {nan, 0, -9999, null} x
up-sampling in {cubic_spline, nearest, bilinear}:
  (always)            dataset_mask(corrected) is a subset of dataset_mask(source) - arbitrary data, any setting;
  (under hypotheses)  equality, when the reference is valid over the source footprint, data are positive and the
                      resampling kernels non-negative.
Leg 2: the model's validity rules (R1 average: valid iff a valid source pixel overlaps; R2 up-sampling: valid iff the
source pixel containing the centre is valid) against GDAL via resamp.check_resampler, and the model's pixel-level
`corrected_valid` decision against the real masks (`maskfuse` op).
"""
import numpy as np

import common
import fusion
import rasters
import resamp

MODELS = ['gain', 'gain-blk-offset', 'gain-offset']


def pattern(rng, h, w, kind):
    v = np.ones((h, w), bool)
    if kind == 'holes':
        for _ in range(rng.randint(1, 6)):
            r, c = rng.randrange(h), rng.randrange(w)
            v[r:r + rng.randint(1, 3), c:c + rng.randint(1, 3)] = False
    elif kind == 'border':
        v[:rng.randint(0, 3), :] = False
        v[:, :rng.randint(0, 3)] = False
        v[h - rng.randint(0, 3):, :] = False
        v[:, w - rng.randint(0, 3):] = False
    elif kind == 'single':
        for _ in range(rng.randint(1, 5)):
            v[rng.randrange(h), rng.randrange(w)] = False
    elif kind == 'stripes':
        if rng.random() < 0.5:
            v[rng.randrange(h), :] = False
        else:
            v[:, rng.randrange(w)] = False
    elif kind == 'ragged':
        for r in range(h):
            v[r, :rng.randint(0, 2)] = False
            v[r, w - rng.randint(0, 2):] = False
    if v.sum() < 4:
        v[:] = True
    return v


def gen_case(run, i):
    rng = run.rng(i)
    model = MODELS[i % 3]
    want_src_grid = (i // 3) % 3 == 2
    out_nodata = ['nan', 0, -9999, None][(i // 9) % 4]
    hyp = (i % 5) != 4  # 4 of 5 cases satisfy the hypotheses of the converse
    family = rng.choice(['dyadic', 'dyadic', 'decimal'])
    proc = rng.choice(['auto', 'src']) if want_src_grid else rng.choice(['auto', 'auto', 'ref'])
    src, ref = rasters.pair_geometry(rng, family, proc, max_src=30, margin=(1, 3), avoid_aligned_edges=True)
    if proc == 'auto' and want_src_grid != (src.px > ref.px) and src.px != ref.px:
        proc = 'src' if want_src_grid else 'ref'
    tie = i % 4 == 3
    if tie:
        # every fourth case: reference-grid block seams that are exact rounding ties on the source grid, many blocks
        family, proc = 'dyadic', 'auto'
        src, ref = rasters.tie_geometry(rng)
    return dict(i=i, family=family, proc=proc, src=src.to_dict(), ref=ref.to_dict(), model=model, hyp=hyp,
                kernel=rng.choice([(1, 1), (3, 3), (3, 5), (5, 3), (5, 5), (7, 5)]) if model != 'gain-offset'
                else rng.choice([(3, 3), (3, 5), (5, 5), (5, 3)]),
                halvings=rng.choice([0, 1, 2, 3, 4, 5]) if not tie else rng.choice([3, 4, 5]), threads=rng.choice([1, 1, 2]),
                pattern=rng.choice(['holes', 'border', 'single', 'stripes', 'ragged', 'holes']),
                upsampling=rng.choice(['cubic_spline', 'cubic_spline', 'nearest', 'bilinear']) if hyp
                else rng.choice(['cubic_spline', 'cubic', 'lanczos', 'bilinear']),
                out_nodata=out_nodata, out_dtype=rng.choice(['float32', 'float32', 'int16', 'uint16']) if out_nodata != 'nan'
                else 'float32', src_nodata=rng.choice(['nan', -9999.0, 'mask']), nb=rng.choice([1, 1, 2]),
                thresh=rng.choice([0.25, None]))


def run(run: common.Run):
    n = 45 if run.quick() else 900
    run.rule = ('real fusions over validity patterns (holes, border, single pixels, stripes, ragged edges) x dyadic/decimal '
                'geometry x 3 models x kernels x both grids x 1..32 blocks x output nodata nan/0/-9999/null x dtype x up-sampling; '
                '4 of 5 cases satisfy the hypotheses of the converse (reference valid over the footprint, positive data, '
                'non-negative kernels) and must give mask equality, all must give the subset relation; distinct by (geometry, '
                'pattern, model, kernel, grid, blocks, output encoding)')
    tmp = run.tmpdir()
    for i in run.indices(n):
        case = gen_case(run, i)
        rng = run.rng(f'{i}-data')
        src, ref = rasters.Grid.from_dict(case['src']), rasters.Grid.from_dict(case['ref'])
        nb = case['nb']
        sv = pattern(rng, src.h, src.w, case['pattern'])
        if case['hyp']:
            s = np.array([[[rng.randint(20, 200) for _ in range(src.w)] for _ in range(src.h)] for _ in range(nb)], float)
            r = np.array([[[rng.randint(30, 150) for _ in range(ref.w)] for _ in range(ref.h)] for _ in range(nb)], float)
            rv = np.ones((ref.h, ref.w), bool)
        else:
            # arbitrary data (negative, zero) and reference holes: only the subset relation is required
            s = np.array([[[rng.randint(-50, 200) for _ in range(src.w)] for _ in range(src.h)] for _ in range(nb)], float)
            r = np.array([[[rng.randint(-30, 150) for _ in range(ref.w)] for _ in range(ref.h)] for _ in range(nb)], float)
            rv = pattern(rng, ref.h, ref.w, rng.choice(['holes', 'single', 'border']))
        pair = fusion.write_pair(tmp, 'c03', src, ref, s, r, sv, rv, src_nodata=case['src_nodata'])
        proc_ref = (case['proc'] == 'ref') or (case['proc'] == 'auto' and src.px <= ref.px)
        nod = float('nan') if case['out_nodata'] == 'nan' else case['out_nodata']
        prof = dict(dtype=case['out_dtype'], nodata=nod)
        if case['out_dtype'] == 'uint16' and nod == -9999:
            prof['nodata'] = 65535
        try:
            res, case['halvings'] = fusion.run_fuse_blocks(
                case['halvings'], src, ref, proc_ref, pair.src_path, pair.ref_path, tmp / 'c03_out.tif',
                model=case['model'], kernel_shape=case['kernel'], proc_crs=case['proc'], param=False,
                threads=case['threads'], model_config=dict(upsampling=case['upsampling'], r2_inpaint_thresh=case['thresh']),
                out_profile=prof)
        except Exception as ex:
            from homonim.errors import BlockSizeError
            if isinstance(ex, BlockSizeError):
                run.hist['processing window smaller than the kernel overlap (refused by the code): skipped'] += 1
                continue
            run.fail(case, f'fusion raised {type(ex).__name__}: {ex}', signature=dict(kind='raises'))
            continue
        run.evaluations += 1
        run.hist[f"hypotheses={'met' if case['hyp'] else 'not met'}"] += 1
        run.hist[f"proc={res.proc_crs}"] += 1
        run.hist[f"out nodata={case['out_nodata']}/{case['out_dtype']}"] += 1
        run.hist[f"pattern={case['pattern']}"] += 1
        run.nontrivial.add((str(case['src']), case['pattern'], case['model'], tuple(case['kernel']), res.proc_crs,
                            case['halvings'], str(case['out_nodata'])))
        cm = res.corr_mask
        invented = cm & ~sv
        if invented.any():
            rr, cc = np.argwhere(invented)[0]
            run.fail(case, f'corrected pixel ({rr},{cc}) is valid but the source pixel is not ({int(invented.sum())} invented '
                     f'pixels)', signature=dict(kind='invented-pixel'))
            continue
        if case['hyp']:
            lost = sv & ~cm
            # a valid pixel may coincide with the output nodata value after rounding (property C13 allows exactly that)
            if lost.any() and case['out_nodata'] not in ('nan', None):
                with np.errstate(invalid='ignore'):
                    coincide = np.all(res.corr == prof['nodata'], axis=0)
                lost = lost & ~coincide if case['out_dtype'] != 'float32' else lost
            if lost.any():
                rr, cc = np.argwhere(lost)[0]
                run.fail(case, f'valid source pixel ({rr},{cc}) is invalid in the corrected image ({int(lost.sum())} lost '
                         f'pixels; hypotheses of the converse hold)', signature=dict(kind='lost-pixel'))
                continue
        run.sample(dict(case={k: case[k] for k in ('i', 'model', 'kernel', 'halvings', 'pattern', 'upsampling', 'out_nodata',
                                                   'out_dtype', 'hyp', 'proc')}, valid_src=int(sv.sum()),
                        valid_corr=int(cm.sum())), 4)
    resamp.check_resampler(run, 45 if run.quick() else 600)
