"""
C03 - valid-data mask fidelity: no invented pixels, no lost pixels.

Real fusions over source validity patterns (holes, borders, single pixels, stripes) x geometry (both families, large
coordinates) x models x kernels x both processing grids x block sizes x output nodata in {nan, 0, -9999, null} x
up-sampling in {cubic_spline, nearest, bilinear}:
  (always)            dataset_mask(corrected) is a subset of dataset_mask(source) - arbitrary data, any setting;
  (under hypotheses)  equality, when the reference is valid over the source footprint, data are positive and the
                      resampling kernels non-negative.
Leg 2: the model's validity rules (R1 average: valid iff a valid source pixel overlaps; R2 up-sampling: valid iff the
source pixel containing the centre is valid) against GDAL via resamp.check_resampler, and the model's pixel-level
`corrected_valid` decision against the real masks (`maskfuse` op).
"""
import numpy as np

import common
import fusion
import rasters
import resamp

MODELS = ['gain', 'gain-blk-offset', 'gain-offset']


def pattern(rng, h, w, kind):
    v = np.ones((h, w), bool)
    if kind == 'holes':
        for _ in range(rng.randint(1, 6)):
            r, c = rng.randrange(h), rng.randrange(w)
            v[r:r + rng.randint(1, 3), c:c + rng.randint(1, 3)] = False
    elif kind == 'border':
        v[:rng.randint(0, 3), :] = False
        v[:, :rng.randint(0, 3)] = False
        v[h - rng.randint(0, 3):, :] = False
        v[:, w - rng.randint(0, 3):] = False
    elif kind == 'single':
        for _ in range(rng.randint(1, 5)):
            v[rng.randrange(h), rng.randrange(w)] = False
    elif kind == 'stripes':
        if rng.random() < 0.5:
            v[rng.randrange(h), :] = False
        else:
            v[:, rng.randrange(w)] = False
    elif kind == 'ragged':
        for r in range(h):
            v[r, :rng.randint(0, 2)] = False
            v[r, w - rng.randint(0, 2):] = False
    if v.sum() < 4:
        v[:] = True
    return v


def no_good_kernel_in_block(pair, res, case, lost):
    """True iff every block that writes one of the `lost` source pixels has, in its processing input window, no kernel whose R2
    (as recorded in the parameter image of this very run) exceeds the in-painting threshold"""
    import warnings
    from homonim import RasterFuse, utils as hu
    from homonim.enums import ProcCrs
    with warnings.catch_warnings():
        warnings.simplefilter('ignore')
        with RasterFuse(pair.src_path, pair.ref_path, proc_crs=ProcCrs(case['proc'])) as rf:
            proc_ref = rf.proc_crs.name == 'ref'
            ph_, pw_ = (rf.ref_im.shape if proc_ref else rf.src_im.shape)
            import fusion as _f
            import rasters as _r
            src, ref = _r.Grid.from_dict(case['src']), _r.Grid.from_dict(case['ref'])
            pwh = _f.proc_window_shape(src, ref, proc_ref)
            mbm = _f.block_mem_for(case['halvings'], pwh[0], pwh[1], src.px, ref.px, proc_ref) if case['halvings'] else 100
            bps = [bp for bp in rf.block_pairs(overlap=hu.overlap_for_kernel(tuple(case['kernel'])), max_block_mem=mbm) if bp.band_i == 0]
    r2 = res.param[2 * (res.param.shape[0] // 3)].astype('float64')      # R2 of the first band pair
    for bp in bps:
        so = bp.src_out_block
        rows, cols = slice(max(int(so.row_off), 0), int(so.row_off + so.height)), slice(max(int(so.col_off), 0), int(so.col_off + so.width))
        if not lost[rows, cols].any():
            continue
        pin = bp.ref_in_block if proc_ref else bp.src_in_block
        blk = r2[max(int(pin.row_off), 0):int(pin.row_off + pin.height), max(int(pin.col_off), 0):int(pin.col_off + pin.width)]
        with np.errstate(invalid='ignore'):
            if (blk > case['thresh']).any():
                return False
    return True


def degenerate_window(src, ref, svals, sv, proc_ref, kernel, r, c):
    """does the kernel window that decides source pixel (r, c) hold fewer than two distinct source values (no OLS solution)?"""
    kh, kw = kernel
    if not proc_ref:
        win = np.zeros(sv.shape, bool)
        win[max(r - kh // 2, 0):r + kh // 2 + 1, max(c - kw // 2, 0):c + kw // 2 + 1] = True
        return len(np.unique(svals[win & sv])) < 2
    # reference grid: validity of the averaged source (any valid source pixel overlapping), window around the reference pixel
    # that contains the source pixel's centre
    def overlap_valid(i, j):
        y0, y1 = ref.ytop - (i + 1) * ref.py, ref.ytop - i * ref.py
        x0, x1 = ref.x0 + j * ref.px, ref.x0 + (j + 1) * ref.px
        r0, r1 = max((src.ytop - y1) // src.py, 0), min(-((-(src.ytop - y0)) // src.py), src.h)
        c0, c1 = max((x0 - src.x0) // src.px, 0), min(-((-(x1 - src.x0)) // src.px), src.w)
        return r1 > r0 and c1 > c0 and bool(sv[r0:r1, c0:c1].any())
    cy = 2 * src.ytop - (2 * r + 1) * src.py          # twice the centre's y
    cx = 2 * src.x0 + (2 * c + 1) * src.px
    i = (2 * ref.ytop - cy) // (2 * ref.py)
    j = (cx - 2 * ref.x0) // (2 * ref.px)
    n = sum(overlap_valid(a, b) for a in range(i - kh // 2, i + kh // 2 + 1) for b in range(j - kw // 2, j + kw // 2 + 1)
            if 0 <= a < ref.h and 0 <= b < ref.w)
    return n < 2


def gen_case(run, i):
    rng = run.rng(i)
    model = MODELS[i % 3]
    want_src_grid = (i // 3) % 3 == 2
    out_nodata = ['nan', 0, -9999, None][(i // 9) % 4]
    hyp = (i % 5) != 4  # 4 of 5 cases satisfy the hypotheses of the converse
    family = rng.choice(['dyadic', 'dyadic', 'decimal'])
    proc = rng.choice(['auto', 'src']) if want_src_grid else rng.choice(['auto', 'auto', 'ref'])
    src, ref = rasters.pair_geometry(rng, family, proc, max_src=30, margin=(1, 3), avoid_aligned_edges=True)
    if proc == 'auto' and want_src_grid != (src.px > ref.px) and src.px != ref.px:
        proc = 'src' if want_src_grid else 'ref'
    tie = i % 4 == 3
    if tie:
        # every fourth case: reference-grid block seams that are exact rounding ties on the source grid, many blocks
        family, proc = 'dyadic', 'auto'
        src, ref = rasters.tie_geometry(rng)
    return dict(i=i, family=family, proc=proc, src=src.to_dict(), ref=ref.to_dict(), model=model, hyp=hyp,
                kernel=rng.choice([(1, 1), (3, 3), (3, 5), (5, 3), (5, 5), (7, 5)]) if model != 'gain-offset'
                else rng.choice([(3, 3), (3, 5), (5, 5), (5, 3)]),
                halvings=rng.choice([0, 1, 2, 3, 4, 5]) if not tie else rng.choice([3, 4, 5]), threads=rng.choice([1, 1, 2]),
                pattern=rng.choice(['holes', 'border', 'single', 'stripes', 'ragged', 'holes']),
                upsampling=rng.choice(['cubic_spline', 'cubic_spline', 'nearest', 'bilinear']) if hyp
                else rng.choice(['cubic_spline', 'cubic', 'lanczos', 'bilinear']),
                out_nodata=out_nodata, out_dtype=rng.choice(['float32', 'float32', 'int16', 'uint16']) if out_nodata != 'nan'
                else 'float32', src_nodata=rng.choice(['nan', -9999.0, 'mask']), nb=rng.choice([1, 1, 2]),
                thresh=rng.choice([0.25, None]))


def run(run: common.Run):
    n = 45 if run.quick() else 900
    run.rule = ('real fusions over validity patterns (holes, border, single pixels, stripes, ragged edges) x dyadic/decimal '
                'geometry x 3 models x kernels x both grids x 1..32 blocks x output nodata nan/0/-9999/null x dtype x up-sampling; '
                '4 of 5 cases satisfy the hypotheses of the converse (reference valid over the footprint, positive data, '
                'non-negative kernels) and must give mask equality, all must give the subset relation; distinct by (geometry, '
                'pattern, model, kernel, grid, blocks, output encoding)')
    tmp = run.tmpdir()
    for i in run.indices(n):
        case = gen_case(run, i)
        rng = run.rng(f'{i}-data')
        src, ref = rasters.Grid.from_dict(case['src']), rasters.Grid.from_dict(case['ref'])
        nb = case['nb']
        sv = pattern(rng, src.h, src.w, case['pattern'])
        if case['hyp']:
            s = np.array([[[rng.randint(20, 200) for _ in range(src.w)] for _ in range(src.h)] for _ in range(nb)], float)
            r = np.array([[[rng.randint(30, 150) for _ in range(ref.w)] for _ in range(ref.h)] for _ in range(nb)], float)
            rv = np.ones((ref.h, ref.w), bool)
            if case['model'] == 'gain-offset' and case['thresh'] is not None:
                # an exactly constant (saturated / clipped) source patch wider than the kernel: zero variance in float32, the fit is
                # 0/0 there and the parameters are in-painted - the pixels must not be lost
                kh, kw = case['kernel']
                pg = ref if src.px <= ref.px else src
                ph_ = min(src.h - 2, -(-(kh + 3) * pg.py // src.py))
                pw_ = min(src.w - 2, -(-(kw + 3) * pg.px // src.px))
                # (only where the image is several times larger than the patch, so that well-modelled kernels exist around it)
                if ph_ >= 2 and pw_ >= 2 and 3 * ph_ <= src.h and 3 * pw_ <= src.w:
                    r0_, c0_ = rng.randrange(1, src.h - ph_), rng.randrange(1, src.w - pw_)
                    s[:, r0_:r0_ + ph_, c0_:c0_ + pw_] = 100.0
                    case['flat_patch'] = (r0_, c0_, ph_, pw_)
                    run.hist['gain-offset with in-painting: exactly constant source patch'] += 1
        else:
            # arbitrary data (negative, zero) and reference holes: only the subset relation is required
            s = np.array([[[rng.randint(-50, 200) for _ in range(src.w)] for _ in range(src.h)] for _ in range(nb)], float)
            r = np.array([[[rng.randint(-30, 150) for _ in range(ref.w)] for _ in range(ref.h)] for _ in range(nb)], float)
            rv = pattern(rng, ref.h, ref.w, rng.choice(['holes', 'single', 'border']))
        if case['hyp'] and nb == 1 and case['i'] % 4 == 1:
            # 8-bit source whose validity is an alpha band with semi-transparent (1..254) valid pixels
            case['src_nodata'] = 'alpha'
            run.hist['source with a partly semi-transparent alpha band'] += 1
        if case['hyp'] and case['i'] % 4 == 3:
            # validity by the NODATA_VALUES metadata item (mosaics made by gdalwarp / gdal_merge)
            case['src_nodata'] = 'nodata_values'
            run.hist['source with a NODATA_VALUES metadata item'] += 1
        pair = fusion.write_pair(tmp, 'c03', src, ref, s, r, sv, rv, src_nodata=case['src_nodata'])
        proc_ref = (case['proc'] == 'ref') or (case['proc'] == 'auto' and src.px <= ref.px)
        nod = float('nan') if case['out_nodata'] == 'nan' else case['out_nodata']
        prof = dict(dtype=case['out_dtype'], nodata=nod)
        if case['out_dtype'] == 'uint16' and nod == -9999:
            prof['nodata'] = 65535
        try:
            res, case['halvings'] = fusion.run_fuse_blocks(
                case['halvings'], src, ref, proc_ref, pair.src_path, pair.ref_path, tmp / 'c03_out.tif',
                model=case['model'], kernel_shape=case['kernel'], proc_crs=case['proc'], param=False,
                threads=case['threads'], model_config=dict(upsampling=case['upsampling'], r2_inpaint_thresh=case['thresh']),
                out_profile=prof)
        except Exception as ex:
            from homonim.errors import BlockSizeError
            if isinstance(ex, BlockSizeError):
                run.hist['processing window smaller than the kernel overlap (refused by the code): skipped'] += 1
                continue
            run.fail(case, f'fusion raised {type(ex).__name__}: {ex}', signature=dict(kind='raises'))
            continue
        run.evaluations += 1
        run.hist[f"hypotheses={'met' if case['hyp'] else 'not met'}"] += 1
        run.hist[f"proc={res.proc_crs}"] += 1
        run.hist[f"out nodata={case['out_nodata']}/{case['out_dtype']}"] += 1
        run.hist[f"pattern={case['pattern']}"] += 1
        run.nontrivial.add((str(case['src']), case['pattern'], case['model'], tuple(case['kernel']), res.proc_crs,
                            case['halvings'], str(case['out_nodata'])))
        cm = res.corr_mask
        invented = cm & ~sv
        if invented.any():
            rr, cc = np.argwhere(invented)[0]
            run.fail(case, f'corrected pixel ({rr},{cc}) is valid but the source pixel is not ({int(invented.sum())} invented '
                     f'pixels)', signature=dict(kind='invented-pixel'))
            continue
        if case['hyp']:
            lost = sv & ~cm
            # a valid pixel may coincide with the output nodata value after rounding (property C13 allows exactly that)
            if lost.any() and case['out_nodata'] not in ('nan', None):
                with np.errstate(invalid='ignore'):
                    coincide = np.all(res.corr == prof['nodata'], axis=0)
                lost = lost & ~coincide if case['out_dtype'] != 'float32' else lost
            if lost.any():
                rr, cc = np.argwhere(lost)[0]
                sig = dict(kind='lost-pixel')
                if case['model'] == 'gain-offset' and case['thresh'] is None and \
                        all(degenerate_window(src, ref, s[0], sv, proc_ref, case['kernel'], r_, c_) for r_, c_ in np.argwhere(lost)):
                    # finding D17: without in-painting the two-parameter fit has no solution in a window that holds a single
                    # jointly valid pixel (or a constant source), and the pixel is lost
                    sig['degenerate_window'] = True
                fp = case.get('flat_patch')
                if fp and case['thresh'] is not None and case['model'] == 'gain-offset':
                    inside = np.zeros(sv.shape, bool)
                    inside[fp[0]:fp[0] + fp[2], fp[1]:fp[1] + fp[3]] = True
                    if not (lost & ~inside).any() and case['halvings']:
                        # finding D25: in-painting is per block; a block all of whose kernels are degenerate (or poor) has nothing to
                        # in-paint from.  Recognised by experiment: the same fusion as ONE block loses none of these pixels
                        try:
                            one = fusion.run_fuse(pair.src_path, pair.ref_path, tmp / 'c03_one.tif', model=case['model'],
                                                  kernel_shape=case['kernel'], proc_crs=case['proc'], param=False, threads=1, max_block_mem=100,
                                                  model_config=dict(upsampling=case['upsampling'], r2_inpaint_thresh=case['thresh']),
                                                  out_profile=prof)
                            if not (lost & ~one.corr_mask).any():
                                sig.update(flat_patch=True, only_when_blocked=True)
                        except Exception:
                            pass
                run.fail(case, f'valid source pixel ({rr},{cc}) is invalid in the corrected image ({int(lost.sum())} lost '
                         f'pixels; hypotheses of the converse hold)', signature=sig)
                continue
        run.sample(dict(case={k: case[k] for k in ('i', 'model', 'kernel', 'halvings', 'pattern', 'upsampling', 'out_nodata',
                                                   'out_dtype', 'hyp', 'proc')}, valid_src=int(sv.sum()),
                        valid_corr=int(cm.sum())), 4)
    isolated_pixel_leg(run, tmp)
    flat_block_leg(run, tmp)
    if run.only is None:
        extreme_ratio_leg(run, tmp)
    resamp.check_resampler(run, 45 if run.quick() else 600)


def flat_block_leg(run, tmp):
    """
    Finding D25, reproduced on every run: gain-offset with the default in-painting, a 40 x 40 patch of constant source values in a
    64 x 64 source on a 2:1 reference, kernel 3 x 3.  As one block (or four) every valid source pixel is corrected; with sixteen
    blocks the blocks that lie wholly inside the patch have no well-modelled kernel to in-paint from and come out invalid.
    """
    u = 8
    ref = rasters.Grid(u * 5000, u * 9000, 2 * u, 2 * u, 40, 40)
    src = rasters.Grid(ref.x0 + 4 * u, ref.ytop - 4 * u, u, u, 64, 64)
    rng = run.rng('flat-block')
    s = np.array([[[rng.randint(20, 200) for _ in range(src.w)] for _ in range(src.h)]], float)
    s[:, 10:50, 12:52] = 100.0
    r = np.array([[[rng.randint(30, 150) for _ in range(ref.w)] for _ in range(ref.h)]], float)
    pair = fusion.write_pair(tmp, 'c03flat', src, ref, s, r, None, None)
    ph, pw = fusion.proc_window_shape(src, ref, True)
    lost = {}
    # (a threshold of 0 - the bottom of the documented range - still in-paints the kernels that have no solution or a negative R2:
    # as one block no pixel is lost with it either)
    for hv, thr in ((0, 0.25), (4, 0.25), (0, 0.0)):
        case = dict(i=960_000 + hv + (1 if thr == 0 else 0), op='flat source patch larger than a block', model='gain-offset', kernel=(3, 3),
                    thresh=thr, halvings=hv, src=src.to_dict(), ref=ref.to_dict())
        try:
            res = fusion.run_fuse(pair.src_path, pair.ref_path, tmp / 'c03flat_out.tif', model='gain-offset', kernel_shape=(3, 3), param=False,
                                  threads=1, max_block_mem=fusion.block_mem_for(hv, ph, pw, src.px, ref.px, True) if hv else 100,
                                  model_config=dict(upsampling='nearest', r2_inpaint_thresh=thr))
        except Exception as ex:
            run.fail(case, f'fusion raised {type(ex).__name__}: {ex}', signature=dict(kind='raises'))
            return
        run.evaluations += 1
        run.hist['flat-block cases (finding D25)'] += 1
        if thr == 0:
            lost0 = ~res.corr_mask
            if lost0.any():
                rr, cc = np.argwhere(lost0)[0]
                run.fail(case, f'valid source pixel ({rr},{cc}) is invalid in the corrected image with r2_inpaint_thresh=0, one block ({int(lost0.sum())} lost pixels)',
                         signature=dict(kind='lost-pixel', thresh=0))
            continue
        lost[hv] = ~res.corr_mask
        inside = np.zeros((src.h, src.w), bool)
        inside[10:50, 12:52] = True
        if lost[hv].any():
            sig = dict(kind='lost-pixel')
            if hv and not lost[0].any() and not (lost[hv] & ~inside).any():
                sig.update(flat_patch=True, only_when_blocked=True)
            rr, cc = np.argwhere(lost[hv])[0]
            run.fail(case, f'valid source pixel ({rr},{cc}) is invalid in the corrected image ({int(lost[hv].sum())} lost pixels, all inside the '
                     f'constant patch; none is lost when the image is processed as one block)', signature=sig)


def extreme_ratio_leg(run, tmp):
    """
    A 1/64 m source against a 32 m reference (ratio 2048, the order of a drone image against a satellite scene): the source's right
    edge lies one source pixel - 1/2048 of a reference pixel - beyond a reference pixel edge, its bottom edge likewise.  The
    reference pixels holding those slivers belong to the processing window, and the last source column and row are corrected like
    every other valid pixel.
    """
    from fractions import Fraction
    u = Fraction(1, 64)
    R, Q = 2048, 8
    for k in (0, 1):
        # the reference pixels are 2048 source pixels long on one axis and 8 on the other (to keep the images small)
        if k == 0:
            ref = rasters.Grid(64 * 40_000, 64 * 90_000, R, Q, 6, 9, u)
            src = rasters.Grid(ref.x0 + R + 512, ref.ytop - 2 * Q - 3, 1, 1, 4 * R + 1 - R - 512, 4 * Q + 2, u)
        else:
            ref = rasters.Grid(64 * 40_000, 64 * 90_000, Q, R, 9, 6, u)
            src = rasters.Grid(ref.x0 + 2 * Q + 3, ref.ytop - R - 300, 1, 1, 4 * Q + 2, 4 * R + 1 - R - 300, u)
        rng = run.rng(f'extreme{k}')
        s = np.full((1, src.h, src.w), 100.0)
        s[0, ::3, ::5] = 120.0
        r = np.array([[[rng.randint(30, 150) for _ in range(ref.w)] for _ in range(ref.h)]], float)
        case = dict(i=970_000 + k, op='resolution ratio 2048, source edge one source pixel beyond a reference pixel edge', model='gain',
                    kernel=(1, 1), src=src.to_dict(), ref=ref.to_dict())
        try:
            pair = fusion.write_pair(tmp, f'c03x{k}', src, ref, s, r, None, None)
            res = fusion.run_fuse(pair.src_path, pair.ref_path, tmp / f'c03x{k}_out.tif', model='gain', kernel_shape=(1, 1), param=False,
                                  threads=1, max_block_mem=1024, model_config=dict(upsampling='nearest'))
        except Exception as ex:
            run.fail(case, f'fusion raised {type(ex).__name__}: {ex}', signature=dict(kind='raises'))
            continue
        run.evaluations += 1
        run.hist['extreme resolution ratio (2048:1) cases'] += 1
        run.nontrivial.add(('extreme-ratio', k))
        lost = ~res.corr_mask
        if lost.any():
            rr, cc = np.argwhere(lost)[0]
            run.fail(case, f'valid source pixel ({rr},{cc}) is invalid in the corrected image ({int(lost.sum())} lost pixels: rows '
                     f'{int(np.argwhere(lost)[:, 0].min())}-{int(np.argwhere(lost)[:, 0].max())}, columns {int(np.argwhere(lost)[:, 1].min())}-'
                     f'{int(np.argwhere(lost)[:, 1].max())})', signature=dict(kind='lost-pixel', extreme_ratio=True))


def isolated_pixel_leg(run, tmp):
    """finding D17, reproduced on every run: an isolated valid source pixel under the gain-offset model without in-painting"""
    from fractions import Fraction
    for k, proc_src in enumerate((True, False)):
        if proc_src:    # source coarser: processing on the source grid
            src = rasters.Grid(8 * 5000 + 24, 8 * 7000 - 24, 24, 24, 6, 9)
            ref = rasters.Grid(8 * 5000, 8 * 7000, 8, 8, 24, 33)
        else:
            src = rasters.Grid(8 * 5000 + 16, 8 * 7000 - 16, 8, 8, 18, 27)
            ref = rasters.Grid(8 * 5000, 8 * 7000, 24, 24, 8, 11)
        rng = run.rng(f'isolated{k}')
        s = np.array([[[rng.randint(20, 200) for _ in range(src.w)] for _ in range(src.h)]], float)
        r = np.array([[[rng.randint(30, 150) for _ in range(ref.w)] for _ in range(ref.h)]], float)
        sv = np.ones((src.h, src.w), bool)
        # a block of invalid pixels with one valid pixel (group) in its middle, wider than the kernel
        n = 7 if proc_src else 21
        sv[:n, :] = False
        if proc_src:
            sv[3, 3] = True
        else:
            sv[9:12, 9:12] = True   # exactly one reference pixel's worth of source pixels
        pair = fusion.write_pair(tmp, f'c03iso{k}', src, ref, s, r, sv, None)
        case = dict(i=950_000 + k, op='isolated valid pixel', model='gain-offset', kernel=(3, 3), thresh=None, proc='auto',
                    src=src.to_dict(), ref=ref.to_dict())
        try:
            res = fusion.run_fuse(pair.src_path, pair.ref_path, tmp / 'c03iso_out.tif', model='gain-offset', kernel_shape=(3, 3),
                                  param=False, threads=1, model_config=dict(upsampling='nearest', r2_inpaint_thresh=None))
        except Exception as ex:
            run.fail(case, f'fusion raised {type(ex).__name__}: {ex}', signature=dict(kind='raises'))
            continue
        run.evaluations += 1
        run.hist['isolated-pixel cases'] += 1
        lost = sv & ~res.corr_mask
        if (res.corr_mask & ~sv).any():
            run.fail(case, 'a corrected pixel is valid where the source is not', signature=dict(kind='invented-pixel'))
        elif lost.any():
            rr, cc = np.argwhere(lost)[0]
            deg = all(degenerate_window(src, ref, s[0], sv, not proc_src, (3, 3), r_, c_) for r_, c_ in np.argwhere(lost))
            run.fail(case, f'valid source pixel ({rr},{cc}) is invalid in the corrected image ({int(lost.sum())} lost pixels; an isolated '
                     f'valid pixel, gain-offset without in-painting)',
                     signature=dict(kind='lost-pixel', degenerate_window=True) if deg else dict(kind='lost-pixel'))
