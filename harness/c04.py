"""
C04 - results do not depend on thread count or block interleaving.

The real RasterFuse.process is run with its ThreadPoolExecutor, four locks and four datasets replaced from outside by
the controlled versions of harness/sched.py.  For each seeded schedule (random, round-robin, starve-one, most-recent-
first policies; 2-4 workers):
  (i)   the observed trace (thread, take/acq/io/rel/cmp/fin) is replayed through the Lean machine (`sched`): every step
        must be enabled in the model, the run must end final with outcome ok, all locks free and every block written once;
  (ii)  no dataset call is made without its lock (lockset recorded at every call);
  (iii) corrected and parameter images (pixels, masks, descriptions, tags except FUSE_THREADS) are bit-identical to
        the single-threaded uninstrumented run; free-running runs with 1, 2, 4, 16 threads likewise.
RasterCompare and ParamStats are run the same way for lockset violations and thread-count independence (N exact).
"""
import math
import warnings

import numpy as np

import common
import fusion
import rasters
import sched as sc

PC = dict(ioS=1, ioR=4, fit=6, apply=7, ioC=9, ioP=12)


def policies(rng):
    def rr(enabled, trace):
        last = trace[-1][0] if trace else -1
        later = [w for w in enabled if w > last]
        return (later or enabled)[0]

    def starve0(enabled, trace):
        rest = [w for w in enabled if w != 0]
        return rng.choice(rest) if rest else enabled[0]

    def sticky(enabled, trace):
        last = trace[-1][0] if trace else None
        return last if last in enabled and rng.random() < 0.85 else rng.choice(enabled)

    def eager_switch(enabled, trace):
        last = trace[-1][0] if trace else None
        rest = [w for w in enabled if w != last]
        return rng.choice(rest) if rest else enabled[0]
    k_first = rng.randint(1, 10)

    def stall_first(enabled, trace):
        # worker 0 runs its first k steps (takes the first job and gets part-way), then is starved until nobody else can run:
        # the first block completes last, inverting the completion order of the band-major queue
        done0 = sum(1 for w, _ in trace if w == 0)
        if done0 < k_first and 0 in enabled:
            return 0
        rest = [w for w in enabled if w != 0]
        return rng.choice(rest) if rest else enabled[0]
    return [('random', None), ('stall-first', stall_first), ('round-robin', rr), ('starve-0', starve0), ('sticky', sticky),
            ('switch', eager_switch)]


def result_sig(res):
    tags = {k: v for k, v in res.tags.items() if k != 'FUSE_THREADS'}
    ptags = {k: v for k, v in (getattr(res, 'param_tags', {}) or {}).items() if k != 'FUSE_THREADS'}
    return (res.corr, res.corr_masks, getattr(res, 'param', None), getattr(res, 'param_masks', None), tags, ptags,
            res.descriptions, getattr(res, 'param_descriptions', None))


def same(a, b):
    for x, y in zip(a, b):
        if isinstance(x, np.ndarray):
            if not fusion.bytes_equal(x, y):
                return False
        elif x != y:
            return False
    return True


def instrumented_fuse(pair, out, ctrl, threads, kw, mbm, warmup=False):
    """one fusion under the controlled scheduler; returns (FuseResult or exception, njobs, trace).  `warmup`: the same object first
    runs an ordinary single-threaded process() (the locks must survive whatever an earlier call did with them)"""
    from homonim import RasterFuse
    from homonim.enums import Model
    import rasterio as rio
    box = {}
    with warnings.catch_warnings():
        warnings.simplefilter('ignore')
        with RasterFuse(pair.src_path, pair.ref_path) as rf:
            njobs = None
            if warmup:
                rf.process(out.parent / (out.stem + '_warm.tif'), Model(kw['model']), kw['kernel_shape'],
                           param_filename=out.parent / (out.stem + '_warm_PARAM.tif'), build_ovw=False, overwrite=True,
                           model_config=kw.get('model_config'), out_profile=kw.get('out_profile'),
                           block_config=dict(threads=1, max_block_mem=mbm))
            with sc.install(rf, ctrl) as outs:
                def call():
                    rf.process(out, Model(kw['model']), kw['kernel_shape'], param_filename=out.parent / (out.stem + '_PARAM.tif'),
                               build_ovw=False, overwrite=True, model_config=kw.get('model_config'),
                               out_profile=kw.get('out_profile'), block_config=dict(threads=threads, max_block_mem=mbm))
                fin, r = sc.run_with_watchdog(call, timeout=60)
                box['finished'], box['exc'] = fin, (r if isinstance(r, BaseException) else None)
                box['closed'] = [d.closed for d in outs.values() if d is not None]
                box['locks_free'] = not any(l.locked() for l in (rf._src_lock, rf._ref_lock, rf._corr_lock, rf._param_lock) if hasattr(l, 'locked'))
    return box


def read_result(out):
    import rasterio as rio
    res = fusion.FuseResult()
    with rio.Env(GDAL_TIFF_INTERNAL_MASK=True):
        with rio.open(out) as ds:
            res.corr, res.corr_masks = ds.read(), ds.read_masks().astype(bool)
            res.tags, res.descriptions = ds.tags(), ds.descriptions
        with rio.open(out.parent / (out.stem + '_PARAM.tif')) as ds:
            res.param, res.param_masks = ds.read(), ds.read_masks().astype(bool)
            res.param_tags, res.param_descriptions = ds.tags(), ds.descriptions
    return res


def trace_line(ctrl, param, T, njobs, faults=()):
    ev = ' '.join(f'{w}:{lab if lab != "cmp" else "cmp"}' for w, lab in sc.canonical_trace(ctrl.trace))
    fl = ' '.join(f'{j}:{PC[site]}' for j, site in sorted(faults))
    return f'sched {int(param)} {T} {njobs} F {fl} E {ev}'.replace('  ', ' ')


def make_pair(run, tmp, tag, rng, nb=2, band_masks=False, sparse=False):
    lo, hi = (40, 64) if sparse else (12, 28)
    src, ref = rasters.pair_geometry(rng, 'dyadic', 'auto', max_src=hi, margin=(1, 2))
    while src.w < lo or src.h < lo or (sparse and src.px > ref.px):
        src, ref = rasters.pair_geometry(rng, 'dyadic', 'auto', max_src=hi, margin=(1, 2))
    s = np.array([[[rng.randint(20, 200) for _ in range(src.w)] for _ in range(src.h)] for _ in range(nb)], float)
    r = np.array([[[rng.randint(30, 150) for _ in range(ref.w)] for _ in range(ref.h)] for _ in range(nb)], float)
    sv = np.ones((src.h, src.w), bool)
    sv[rng.randrange(src.h), rng.randrange(src.w)] = False
    if band_masks and sparse:
        # partial masking erodes a (kernel + 2) window of processing pixels around every invalid pixel: a few band-specific
        # single invalid pixels, in different quadrants per band, leave most of the image valid and the bands' masks different
        sv[:] = True
        for b in range(nb):
            for q in range(4):
                r0 = (q // 2) * (src.h // 2) + rng.randrange(src.h // 8, src.h // 2 - src.h // 8)
                c0 = (q % 2) * (src.w // 2) + rng.randrange(src.w // 8, src.w // 2 - src.w // 8)
                if (q + b) % 2 == 0:
                    s[b, r0, c0] = -9999.0
        return fusion.write_pair(tmp, tag, src, ref, s, r, sv, None, src_nodata=-9999.0), src, ref
    if band_masks:
        # band-specific nodata regions (numeric nodata): the bands' validity masks differ
        for b in range(nb):
            r0, c0 = rng.randrange(src.h - 4), rng.randrange(src.w - 4)
            s[b, r0:r0 + 4, c0:c0 + 5] = -9999.0
            # plus scattered single pixels, so that the bands' masks differ inside every block window
            for _ in range(max(8, src.h * src.w // 25)):
                s[b, rng.randrange(src.h), rng.randrange(src.w)] = -9999.0
        return fusion.write_pair(tmp, tag, src, ref, s, r, sv, None, src_nodata=-9999.0), src, ref
    return fusion.write_pair(tmp, tag, src, ref, s, r, sv, None), src, ref


def run(run: common.Run):
    from homonim import RasterFuse
    from homonim.errors import BlockSizeError
    nsets = 3 if run.quick() else 30
    nsched = 10 if run.quick() else 60
    run.rule = ('real fusions of 2-band pairs split into 4-16 blocks, executed under the controlled scheduler with 2-4 workers and '
                'random / round-robin / starve-one / sticky / eager-switch policies (seeded); every trace replayed by the Lean machine; '
                'outputs compared bit-for-bit with the single-threaded run; plus free-running 1/2/4/16 threads and compare / stats '
                'thread-count independence; non-trivial = a schedule in which at least two workers interleave; distinct by the '
                'choice sequence')
    tmp = run.tmpdir()
    cases, lines, metas = [], [], []
    for k in run.indices(nsets):
        rng = run.rng(k)
        model = ['gain-blk-offset', 'gain-offset', 'gain'][k % 3]
        kernel = (3, 3)
        # every third set: output with an internal mask (nodata null) and band-specific source masks
        variant = k % 3 == 1
        # every third set: partial masking switched on, with band-specific source masks (shared per-window state between the
        # bands' blocks would show as a dependence on which band's block runs first)
        mp = k % 3 == 2
        mc = dict(mask_partial=True) if mp else None
        pair, src, ref = make_pair(run, tmp, f'c04_{k}', rng, band_masks=variant or mp, sparse=mp)
        oprof = dict(nodata=None) if variant else None
        proc_ref = src.px <= ref.px
        ph, pw = fusion.proc_window_shape(src, ref, proc_ref)
        hv = rng.choice([2, 3])
        mbm = fusion.block_mem_for(hv, ph, pw, src.px, ref.px, proc_ref)
        kw = dict(model=model, kernel_shape=kernel, model_config=mc, out_profile=oprof)
        try:
            base = fusion.run_fuse(pair.src_path, pair.ref_path, tmp / f'c04_{k}_base.tif', model=model, kernel_shape=kernel,
                                   threads=1, max_block_mem=mbm, param=True, out_profile=oprof, model_config=mc)
        except BlockSizeError:
            hv = 1
            mbm = fusion.block_mem_for(hv, ph, pw, src.px, ref.px, proc_ref)
            base = fusion.run_fuse(pair.src_path, pair.ref_path, tmp / f'c04_{k}_base.tif', model=model, kernel_shape=kernel,
                                   threads=1, max_block_mem=mbm, param=True, out_profile=oprof, model_config=mc)
        bsig = result_sig(base)
        with warnings.catch_warnings():
            warnings.simplefilter('ignore')
            with RasterFuse(pair.src_path, pair.ref_path) as rf:
                from homonim import utils
                njobs = len(list(rf.block_pairs(overlap=utils.overlap_for_kernel(kernel), max_block_mem=mbm)))
        # free-running thread counts
        for th in (2, 4, 16):
            res = fusion.run_fuse(pair.src_path, pair.ref_path, tmp / f'c04_{k}_free.tif', model=model, kernel_shape=kernel,
                                  threads=th, max_block_mem=mbm, param=True, out_profile=oprof, model_config=mc)
            run.evaluations += 1
            run.hist['free-running runs'] += 1
            if not same(result_sig(res), bsig):
                run.fail(dict(i=k, threads=th, free_running=True, model=model), f'{th}-thread run differs from the single-threaded '
                         f'result', signature=dict(kind='thread-count-dependent'))
        pols = policies(rng)
        for sidx in range(nsched):
            T = [2, 3, 4][sidx % 3]
            pname, pol = pols[sidx % len(pols)]
            srng = run.rng(f'{k}-sched-{sidx}')
            if pol is not None:
                pols_local = dict(policies(srng))
                pol = pols_local[pname]
            ctrl = sc.Controller(srng, policy=pol)
            out = tmp / f'c04_{k}_s.tif'
            case = dict(i=k * 1000 + sidx, pair=k, schedule=sidx, policy=pname, T=T, model=model, njobs=njobs)
            # every fourth schedule runs on an object that has already done a single-threaded process() call
            box = instrumented_fuse(pair, out, ctrl, T, kw, mbm, warmup=sidx % 4 == 3)
            case['reused_after_single_thread_call'] = sidx % 4 == 3
            run.evaluations += 1
            run.hist[f'policy={pname}'] += 1
            run.hist[f'T={T}'] += 1
            case['choices'] = ''.join(map(str, ctrl.choices))[:400]
            if not box['finished'] or ctrl.deadlock:
                run.fail(case, 'the run did not terminate under this schedule (deadlock / hang)', signature=dict(kind='hang'))
                continue
            if box['exc'] is not None:
                run.fail(case, f'process raised {type(box["exc"]).__name__}: {box["exc"]}', signature=dict(kind='raises'))
                continue
            if ctrl.violations:
                run.fail(case, ctrl.violations[0] + f' ({len(ctrl.violations)} such accesses)', signature=dict(kind='unlocked-access'))
                continue
            res = read_result(out)
            if not same(result_sig(res), bsig):
                which = [n for n, a, b in zip(('corrected pixels', 'corrected masks', 'parameter pixels', 'parameter masks', 'tags',
                                               'parameter tags', 'descriptions', 'parameter descriptions'), result_sig(res), bsig)
                         if not same((a,), (b,))]
                run.fail(case, f'{", ".join(which)} differ from the single-threaded result under schedule policy {pname}, {T} workers',
                         signature=dict(kind='schedule-dependent'))
                continue
            switches = sum(1 for a, b in zip(ctrl.choices, ctrl.choices[1:]) if a != b)
            if switches > 2:
                run.nontrivial.add(case['choices'])
            cases.append(case)
            lines.append(trace_line(ctrl, True, T, njobs))
            metas.append(njobs)
            run.sample(dict(case=case, events=len(ctrl.trace), request=lines[-1][:240]), 3)
    replies = common.model_batch(lines)
    if replies is None:
        run.model_available = False
    else:
        for case, line, rep, njobs in zip(cases, lines, replies, metas):
            run.lines_compared += 1
            ok = rep.startswith('accept outcome=ok locks=free final=1')
            if ok:
                ws = rep.split('writes=')[1].split(' ')[0].split(',')
                expw = sorted([f'{j}.C' for j in range(njobs)] + [f'{j}.P' for j in range(njobs)])
                ok = sorted(ws) == expw
            if not ok:
                case = dict(case, trace_request=line)
                run.disagree(case, line[:400], rep[:200], 'accept outcome=ok locks=free final=1 writes=<every block once>',
                             what='the observed trace is not a run of the model')
        run.extra['traces_validated_against_impl'] = len(lines)
    compare_stats_threads(run, tmp)
    compute_interleaving_leg(run, tmp)
    free_running_stress(run, tmp)


def compare_stats_threads(run, tmp):
    """RasterCompare / ParamStats: lockset violations under the controlled executor and thread-count independence"""
    from homonim import RasterCompare, ParamStats
    import homonim.compare as hc
    import homonim.stats as hs
    rng = run.rng('cmp')
    pair, src, ref = make_pair(run, tmp, 'c04_cmp', rng)
    proc_ref = src.px <= ref.px
    ph, pw = fusion.proc_window_shape(src, ref, proc_ref)
    mbm = fusion.block_mem_for(3, ph, pw, src.px, ref.px, proc_ref)
    with warnings.catch_warnings():
        warnings.simplefilter('ignore')
        outs = {}
        for th in (1, 2, 4):
            with RasterCompare(pair.src_path, pair.ref_path) as cmp:
                outs[th] = cmp.process(threads=th, max_block_mem=mbm)
            run.evaluations += 1
        for th in (2, 4):
            for (k0, v0), (k1, v1) in zip(outs[1].items(), outs[th].items()):
                if v0['n'] != v1['n'] or not (abs(v0['r2'] - v1['r2']) <= 1e-6) or not (abs(v0['rmse'] - v1['rmse']) <= 1e-6 * max(1, v0['rmse'])):
                    run.fail(dict(i=10**6 + th, op='compare', threads=th), f'compare statistics differ between 1 and {th} threads: '
                             f'{v0} vs {v1}', signature=dict(kind='compare-threads'))
        # controlled executor + locksets for compare
        for sidx in range(3 if run.quick() else 15):
            srng = run.rng(f'cmp-sched-{sidx}')
            ctrl = sc.Controller(srng)
            sc.ControlledExecutor.ctrl = ctrl
            saved = hc.concurrent
            hc.concurrent = sc.PkgShim
            try:
                with RasterCompare(pair.src_path, pair.ref_path) as cmp:
                    cmp._src_lock, cmp._ref_lock = sc.RecLock('S', ctrl), sc.RecLock('R', ctrl)
                    rs, rr = cmp._src_im, cmp._ref_im
                    cmp._src_im, cmp._ref_im = sc.Proxy(rs, 'S', ctrl), sc.Proxy(rr, 'R', ctrl)
                    fin, r = sc.run_with_watchdog(lambda: cmp.process(threads=3, max_block_mem=mbm), timeout=60)
                    cmp._src_im, cmp._ref_im = rs, rr
            finally:
                hc.concurrent = saved
                ctrl.stop()
            run.evaluations += 1
            case = dict(i=10**6 + 100 + sidx, op='compare', schedule=sidx)
            if not fin or ctrl.deadlock:
                run.fail(case, 'compare did not terminate under the controlled scheduler', signature=dict(kind='hang'))
            elif isinstance(r, BaseException):
                run.fail(case, f'compare raised {type(r).__name__}: {r}', signature=dict(kind='raises'))
            elif ctrl.violations:
                run.fail(case, 'compare: ' + ctrl.violations[0], signature=dict(kind='unlocked-access'))
            else:
                for (k0, v0), (k1, v1) in zip(outs[1].items(), r.items()):
                    if v0['n'] != v1['n'] or not (abs(v0['rmse'] - v1['rmse']) <= 1e-6 * max(1, v0['rmse'])):
                        run.fail(case, f'compare statistics depend on the schedule: {v0} vs {v1}', signature=dict(kind='compare-schedule'))
            run.hist['compare schedules'] += 1
        # stats: thread counts
        base = fusion.run_fuse(pair.src_path, pair.ref_path, tmp / 'c04_st.tif', model='gain-offset', kernel_shape=(3, 3), threads=1,
                               param=True, out_profile=dict(creation_options=dict(tiled=True, blockxsize=16, blockysize=16)))
        st = {}
        for th in (1, 2, 4):
            with ParamStats(base.param_path) as ps:
                st[th] = ps.stats(threads=th)
            run.evaluations += 1
        for th in (2, 4):
            for a, b in zip(st[1], st[th]):
                for key in a:
                    x, y = a[key], b[key]
                    if isinstance(x, str):
                        continue
                    if not ((math.isnan(x) and math.isnan(y)) or abs(x - y) <= 1e-9 * max(1.0, abs(x))):
                        run.fail(dict(i=10**6 + 200 + th, op='stats', threads=th), f'stats differ between 1 and {th} threads: {a} vs {b}',
                                 signature=dict(kind='stats-threads'))

        # stats on a parameter image that has whole tiles without valid pixels *inside* its valid-data window (a hole in the source
        # larger than a tile): such a tile's minimum / maximum is numpy's masked constant; every thread count and every completion
        # order (the executor is replaced by one that completes the jobs in reverse, and in a shuffled order) gives the extremes of
        # the valid pixels of the file
        import rasters as _r
        import rasterio as _rio
        import homonim.stats as _hs
        g_r = _r.Grid(8 * 6900, 8 * 2900, 16, 16, 48, 48)
        g_s = _r.Grid(8 * 6900, 8 * 2900, 8, 8, 96, 96)
        hrng = run.rng('stats-hole')
        s2 = np.array([[[hrng.randint(20, 200) for _ in range(g_s.w)] for _ in range(g_s.h)]], float)
        r2 = np.array([[[hrng.randint(30, 150) for _ in range(g_r.w)] for _ in range(g_r.h)]], float)
        sv2 = np.ones((g_s.h, g_s.w), bool)
        sv2[26:70, 26:70] = False
        hp = fusion.write_pair(tmp, 'c04hole', g_s, g_r, s2, r2, sv2, None)
        hbase = fusion.run_fuse(hp.src_path, hp.ref_path, tmp / 'c04_hole.tif', model='gain', kernel_shape=(3, 3), threads=1,
                                param=True, out_profile=dict(creation_options=dict(tiled=True, blockxsize=16, blockysize=16)))
        with _rio.open(hbase.param_path) as ds_:
            arr_ = ds_.read(masked=True).astype('float64')
        want_mm = [(float(arr_[b_].min()), float(arr_[b_].max())) for b_ in range(arr_.shape[0])]

        class _Lazy:
            """an executor that runs nothing until its futures are awaited - in the order `as_completed` chooses"""
            jobs = {}

            def __init__(self, *a, **k):
                pass

            def __enter__(self):
                return self

            def __exit__(self, *a):
                return False

            def submit(self, fn, *a, **k):
                f = _hs.futures.Future.__new__(real_future)
                real_future.__init__(f)
                _Lazy.jobs[f] = (fn, a, k)
                return f

        def _as_completed(fs, *a, **k):
            fs = list(fs)
            if order == 'reverse':
                fs.reverse()
            else:
                run.rng('stats-hole-order').shuffle(fs)
            for f in fs:
                fn, fa, fk = _Lazy.jobs.pop(f)
                try:
                    f.set_result(fn(*fa, **fk))
                except BaseException as ex:
                    f.set_exception(ex)
                yield f
        real_mod = _hs.futures
        real_future = real_mod.Future

        class _F:
            Future = real_future
            ThreadPoolExecutor = _Lazy
            as_completed = staticmethod(_as_completed)
        for label in ('threads=1', 'threads=2', 'threads=4', 'reverse', 'shuffled'):
            if label.startswith('threads'):
                with ParamStats(hbase.param_path) as ps:
                    got_st = ps.stats(threads=int(label[-1]))
            else:
                order = label
                _hs.futures = _F
                try:
                    with ParamStats(hbase.param_path) as ps:
                        got_st = ps.stats(threads=2)
                finally:
                    _hs.futures = real_mod
            run.evaluations += 1
            run.hist['stats with empty tiles inside the data window'] += 1
            run.nontrivial.add(('stats-hole', label))
            for b_, (row, (mn, mx)) in enumerate(zip(got_st, want_mm)):
                gmn, gmx = row['min'], row['max']
                ok = isinstance(gmn, (int, float, np.floating)) and isinstance(gmx, (int, float, np.floating)) and \
                    not np.ma.is_masked(gmn) and not np.ma.is_masked(gmx) and float(gmn) == mn and float(gmx) == mx
                if not ok:
                    run.fail(dict(i=10**6 + 500 + b_, op='stats', order=label), f'band {b_ + 1} ({label}): min / max reported {gmn!r} / {gmx!r}, '
                             f'over the valid pixels of the file {mn!r} / {mx!r}', signature=dict(kind='stats-schedule', what='extremes'))
                    break
        # compare on an image of more than a megabyte per band, processing grid forced to the finer image (there the statistics DO
        # depend on the partition - finding D7 - so that a partition that varies with the thread count shows in the result):
        # the partition is a matter of max_block_mem alone, the statistics are the same for 1, 2 and 4 threads
        import rasters
        gs = rasters.Grid(8 * 4000, 8 * 9000, 4, 4, 640, 560)
        gr = rasters.Grid(8 * 4000 - 96, 8 * 9000 + 96, 48, 48, 58, 52)
        brng = run.rng('cmp-big')
        rr = np.array([[[brng.randint(30, 150) for _ in range(gr.w)] for _ in range(gr.h)]], float)
        ss = np.kron(rr[0][2:-2, 2:-2], np.ones((12, 12)))[None, :gs.h, :gs.w] + np.array(
            [[[brng.randint(-9, 9) for _ in range(gs.w)] for _ in range(gs.h)]], float)
        bpair = fusion.write_pair(tmp, 'c04big', gs, gr, ss, rr, None, None)
        big = {}
        for th in (1, 2, 4):
            with RasterCompare(bpair.src_path, bpair.ref_path, proc_crs='src') as cmp:
                big[th] = cmp.process(threads=th, max_block_mem=64)
            run.evaluations += 1
            run.hist['compare on a > 1 MB band, threads 1/2/4'] += 1
        for th in (2, 4):
            for (k0, v0), (k1, v1) in zip(big[1].items(), big[th].items()):
                if v0['n'] != v1['n'] or not (abs(v0['r2'] - v1['r2']) <= 1e-6) or not (abs(v0['rmse'] - v1['rmse']) <= 1e-6 * max(1, v0['rmse'])):
                    run.fail(dict(i=10**6 + 400 + th, op='compare', threads=th, image='640 x 560, proc_crs=src'),
                             f'compare statistics differ between 1 and {th} threads: {v0} vs {v1}', signature=dict(kind='compare-threads', big=True))
        # stats: the open parameter dataset is shared by the workers - every access to it must be mutually exclusive (GDAL dataset
        # handles are not thread safe).  A pass-through proxy counts the threads inside an access (and lingers there for a
        # millisecond, so that an unprotected access by two workers overlaps)
        for th in (2, 4):
            with ParamStats(base.param_path) as ps:
                probe = _ExclusiveProbe(ps._param_im)
                ps._param_im = probe
                try:
                    got = ps.stats(threads=th)
                finally:
                    ps._param_im = probe._ds
            run.evaluations += 1
            run.hist['stats: shared dataset access probes'] += 1
            if probe.max_inside > 1:
                run.fail(dict(i=10**6 + 300 + th, op='stats', threads=th), f'stats(threads={th}): {probe.max_inside} threads were inside '
                         f'{probe.where} of the shared parameter dataset at the same time ({probe.calls} accesses)', signature=dict(kind='unlocked-access', op='stats'))


def compute_interleaving_leg(run, tmp):
    """
    The controlled scheduler switches at lock and dataset operations; the fit and the correction of a block both sit between two
    such operations.  Here two real worker threads are ordered with events so that another block's fit() completes between a
    block's own fit() and apply() - `b.fit, j.fit, b.apply` for pairs of blocks b < j - on images with blocks that hold no valid
    pixel at all, on either processing grid: the one model object is shared by all the blocks, and what it does for one block must
    not depend on which other block it saw last.  Every such run is a real 2-thread schedule; outputs equal the 1-thread run.
    """
    import threading
    from homonim import RasterFuse, utils
    from homonim.kernel_model import RefSpaceModel, SrcSpaceModel
    rng = run.rng('compute-interleaving')
    u = 8
    for gk, proc_ref in enumerate((True, False)):
        if proc_ref:
            ref = rasters.Grid(u * 5000, u * 2000, 4 * u, 4 * u, 22, 22)
            src = rasters.Grid(ref.x0 + 6 * u, ref.ytop - 6 * u, 2 * u, 2 * u, 36, 36)
        else:
            src = rasters.Grid(u * 5000, u * 2000, 4 * u, 4 * u, 18, 18)
            ref = rasters.Grid(src.x0 - 5 * u, src.ytop + 5 * u, 2 * u, 2 * u, 46, 46)
        nb = 2
        s = np.array([[[rng.randint(20, 200) for _ in range(src.w)] for _ in range(src.h)] for _ in range(nb)], float)
        r = np.array([[[rng.randint(30, 150) for _ in range(ref.w)] for _ in range(ref.h)] for _ in range(nb)], float)
        sv = np.zeros((src.h, src.w), bool)
        sv[:src.h * 2 // 5, :src.w * 2 // 5] = True           # valid in the upper left corner only: most blocks are empty
        pair = fusion.write_pair(tmp, f'c04_il{gk}', src, ref, s, r, sv, None)
        ph, pw = fusion.proc_window_shape(src, ref, proc_ref)
        model, kernel = ('gain-offset', 'gain-blk-offset')[gk], (3, 3)
        mbm = fusion.block_mem_for(2, ph, pw, src.px, ref.px, proc_ref)
        kw = dict(model=model, kernel_shape=kernel, max_block_mem=mbm, param=True)
        base = fusion.run_fuse(pair.src_path, pair.ref_path, tmp / f'c04_il{gk}_base.tif', threads=1, **kw)
        bsig = result_sig(base)
        with warnings.catch_warnings():
            warnings.simplefilter('ignore')
            with RasterFuse(pair.src_path, pair.ref_path) as rf:
                bps = list(rf.block_pairs(overlap=utils.overlap_for_kernel(kernel), max_block_mem=mbm))
        n = len(bps)
        combos = [(b, j) for b in range(n) for j in range(b + 1, n)]
        if run.quick():
            combos = [(0, j) for j in range(1, n)] + [(b, n - 1) for b in range(1, n - 1)]
        cls = RefSpaceModel if proc_ref else SrcSpaceModel
        orig_fit, orig_pb = cls.fit, RasterFuse._process_block
        local = threading.local()
        for b, j in combos:
            j_fitted = threading.Event()
            waited = {'timeout': False}

            def pb(self, block_pair, *a, **k):
                local.idx = bps.index(block_pair) if block_pair in bps else None
                return orig_pb(self, block_pair, *a, **k)

            def fit(self, src_ra, ref_ra):
                res = orig_fit(self, src_ra, ref_ra)
                idx = getattr(local, 'idx', None)
                if idx == j:
                    j_fitted.set()
                elif idx == b:
                    if not j_fitted.wait(30):
                        waited['timeout'] = True
                return res
            cls.fit, RasterFuse._process_block = fit, pb
            exc = None
            try:
                res = fusion.run_fuse(pair.src_path, pair.ref_path, tmp / f'c04_il{gk}_run.tif', threads=2, **kw)
            except Exception as ex:
                exc = ex
            finally:
                cls.fit, RasterFuse._process_block = orig_fit, orig_pb
            run.evaluations += 1
            run.hist['compute interleavings (b.fit, j.fit, b.apply)'] += 1
            run.nontrivial.add(('interleave', gk, b, j))
            case = dict(i=3_000_000 + gk * 10_000 + b * 100 + j, op='b.fit, j.fit, b.apply with two workers', grid='ref' if proc_ref else 'src',
                        model=model, blocks=n, b=b, j=j)
            if waited['timeout']:
                run.hist['compute interleavings: order not reached'] += 1
                continue
            if exc is not None:
                run.fail(case, f'process raised {type(exc).__name__}: {exc}', signature=dict(kind='raises', op='interleave'))
                break
            if not same(result_sig(res), bsig):
                which = [nm for nm, x, y in zip(('corrected pixels', 'corrected masks', 'parameter pixels', 'parameter masks'),
                                                result_sig(res), bsig) if not same((x,), (y,))]
                run.fail(case, f'{", ".join(which)} differ from the single-threaded result when block {j} is fitted between the fit and '
                         f'the correction of block {b} ({n} blocks, 2 workers)', signature=dict(kind='schedule-dependent', op='interleave'))
                break


class _ExclusiveProbe:
    """pass-through proxy of a dataset that records how many threads are inside one of its I/O methods at once"""

    def __init__(self, ds):
        import threading
        self.__dict__.update(_ds=ds, _mx=threading.Lock(), inside=0, max_inside=0, calls=0, where='')

    def __getattr__(self, name):
        attr = getattr(self._ds, name)
        if name not in ('read', 'read_masks', 'dataset_mask'):
            return attr

        def wrapped(*a, **k):
            import time
            with self._mx:
                self.__dict__['inside'] += 1
                self.__dict__['calls'] += 1
                if self.inside > self.max_inside:
                    self.__dict__.update(max_inside=self.inside, where=name)
            try:
                time.sleep(0.001)
                return attr(*a, **k)
            finally:
                with self._mx:
                    self.__dict__['inside'] -= 1
        return wrapped


def free_running_stress(run, tmp):
    """
    The controlled scheduler switches threads at lock and dataset operations only; a race inside plain Python code (a shared
    accumulator updated by the workers) needs a switch between two byte-codes.  Here the real executor runs freely with the
    interpreter's switch interval at 1 microsecond, many small blocks and 4 / 8 threads, repeatedly: compare statistics, parameter
    statistics and fused images must equal the single-threaded results every time (N exactly, RMSE to 1e-6 relative, r2 - a difference of
    large float32 sums - to 5e-5 absolute: the order of accumulation is free).  Sound: any difference is a schedule dependence; it is a search, not a proof of absence.
    """
    import sys
    from homonim import RasterCompare, ParamStats
    rng = run.rng('stress')
    u = 8
    ref = rasters.Grid(u * 7000, u * 3000, 4 * u, 4 * u, 40, 40)
    src = rasters.Grid(ref.x0 + 6 * u, ref.ytop - 7 * u, 2 * u, 2 * u, 64, 64)
    nb = 2
    s = np.array([[[rng.randint(20, 200) for _ in range(src.w)] for _ in range(src.h)] for _ in range(nb)], float)
    r = np.array([[[rng.randint(30, 150) for _ in range(ref.w)] for _ in range(ref.h)] for _ in range(nb)], float)
    sv = np.ones((src.h, src.w), bool)
    sv[5:9, 7:30] = False
    pair = fusion.write_pair(tmp, 'c04_stress', src, ref, s, r, sv, None)
    ph, pw = fusion.proc_window_shape(src, ref, True)
    mbm = fusion.block_mem_for(5, ph, pw, src.px, ref.px, True)
    reps = 12 if run.quick() else 120
    old = sys.getswitchinterval()
    warnings.simplefilter('ignore')      # (catch_warnings is not thread-safe: nested contexts in worker-heavy code restore filters at random)
    show, warnings.showwarning = warnings.showwarning, (lambda *a, **k: None)
    with warnings.catch_warnings():
        warnings.simplefilter('ignore')
        with RasterCompare(pair.src_path, pair.ref_path) as cmp:
            base_cmp = cmp.process(threads=1, max_block_mem=mbm)
        base_fuse = fusion.run_fuse(pair.src_path, pair.ref_path, tmp / 'c04_stress_1.tif', model='gain-offset', kernel_shape=(3, 3),
                                    threads=1, param=True, max_block_mem=mbm,
                                    out_profile=dict(creation_options=dict(tiled=True, blockxsize=16, blockysize=16)))
        with ParamStats(base_fuse.param_path) as ps:
            base_st = ps.stats(threads=1)
        base_sig = result_sig(base_fuse)
        close = lambda x, y: (isinstance(x, str) and x == y) or (not isinstance(x, str) and (
            (math.isnan(x) and math.isnan(y)) or abs(x - y) <= 1e-9 * max(1.0, abs(x))))
        try:
            sys.setswitchinterval(1e-6)
            for k in range(reps):
                th = (4, 8)[k % 2]
                case = dict(i=2_000_000 + k, op='free-running stress', threads=th, repetition=k)
                with RasterCompare(pair.src_path, pair.ref_path) as cmp:
                    got = cmp.process(threads=th, max_block_mem=mbm)
                run.evaluations += 1
                run.hist['free-running stress: compare'] += 1
                bad = [(k0, v0, v1) for (k0, v0), (k1, v1) in zip(base_cmp.items(), got.items())
                       if k0 != k1 or v0['n'] != v1['n'] or not (abs(v0['r2'] - v1['r2']) <= 5e-5) or
                       any(not (abs(v0[q] - v1[q]) <= 1e-6 * max(1.0, abs(v0[q]))) for q in ('rmse', 'rrmse'))]
                if bad or len(got) != len(base_cmp):
                    run.fail(case, f'compare statistics with {th} free-running threads differ from the single-threaded run: {bad[:1]}',
                             signature=dict(kind='compare-threads'))
                    break
                if k % 4 == 0:
                    with ParamStats(base_fuse.param_path) as ps:
                        st = ps.stats(threads=th)
                    run.hist['free-running stress: stats'] += 1
                    if any(not close(a[q], b[q]) for a, b in zip(base_st, st) for q in a):
                        run.fail(case, f'parameter statistics with {th} free-running threads differ from the single-threaded run',
                                 signature=dict(kind='stats-threads'))
                        break
                if k % 4 == 2:
                    res = fusion.run_fuse(pair.src_path, pair.ref_path, tmp / 'c04_stress_n.tif', model='gain-offset', kernel_shape=(3, 3),
                                          threads=th, param=True, max_block_mem=mbm,
                                          out_profile=dict(creation_options=dict(tiled=True, blockxsize=16, blockysize=16)))
                    run.hist['free-running stress: fuse'] += 1
                    if not same(result_sig(res), base_sig):
                        run.fail(case, f'fused images with {th} free-running threads differ from the single-threaded run',
                                 signature=dict(kind='fuse-threads'))
                        break
        finally:
            sys.setswitchinterval(old)
            warnings.showwarning = show
    run.nontrivial.add(('stress', reps))


def read_result_any(path):
    """(pixels, per-band masks, tags, descriptions, profile essentials) of any raster"""
    import rasterio as rio
    with rio.Env(GDAL_TIFF_INTERNAL_MASK=True):
        with rio.open(path) as ds:
            prof = (ds.count, ds.dtypes, ds.width, ds.height, tuple(ds.transform)[:6], str(ds.crs), repr(ds.nodata),
                    ds.profile.get('compress'), ds.profile.get('tiled'), ds.profile.get('blockxsize'))
            return (ds.read(), ds.read_masks().astype(bool), ds.tags(), ds.descriptions, prof)
