"""
C05 - blocking is transparent: block overlap gives full kernel coverage at seams.

The same fusion is run as one block and with 1..6 halvings of the processing window (auto grid; gain, and gain-offset
without in-painting):
  * parameter image: identical across partitions (bit-identical where the kernel sums are exact in float32: dyadic
    geometry with integer-valued down-sampled source; 2e-6 relative otherwise);
  * corrected image: identical when the parameters reach the source grid through nearest / bilinear or without
    resampling (source-grid processing);
  * with the default cubic spline: differing source pixels lie within one processing pixel of a block boundary.
Leg 2: utils.overlap_for_kernel against the model's overlapForKernel for all kernel sizes (the premise of theorem
kernel_window_inside_in_block), plus the block windows the code used (from block_pairs) to locate the seams.
"""
import numpy as np

import common
import fusion
import rasters

def gen_case(run, i):
    rng = run.rng(i)
    model = ['gain', 'gain-offset'][i % 2]
    ups = ['nearest', 'bilinear', 'cubic_spline'][(i // 2) % 3]
    want_src_grid = (i // 6) % 3 == 2
    family = rng.choice(['dyadic', 'dyadic', 'decimal'])
    src, ref = rasters.pair_geometry(rng, family, 'auto', max_src=36, margin=(1, 3), avoid_aligned_edges=True)
    if want_src_grid and src.px < ref.px:
        # make the source the coarser image: swap pixel sizes, keep it inside the reference
        ps, pr = ref.px, src.px
        sw, sh = rng.randint(8, 16), rng.randint(8, 16)
        rx0, rytop = ref.x0, ref.ytop
        sx0, sytop = rx0 + 3 * pr + rng.randrange(0, pr), rytop - 2 * pr - rng.randrange(0, pr)
        if rasters.noisy_edges(family, ps, pr) and pr > 1:
            sx0 = rx0 + 3 * pr + rasters.offgrid_offset(rng, family, ps, pr)
            sytop = rytop - 2 * pr - rasters.offgrid_offset(rng, family, ps, pr)
        rw = -(-(sx0 + sw * ps - rx0) // pr) + 3
        rh = -(-(rytop - (sytop - sh * ps)) // pr) + 2
        src = rasters.Grid(sx0, sytop, ps, ps, sw, sh, src.unit)
        ref = rasters.Grid(rx0, rytop, pr, pr, rw, rh, src.unit)
    return dict(i=i, family=family, src=src.to_dict(), ref=ref.to_dict(), model=model, upsampling=ups,
                kernel=[(3, 7), (1, 1), (7, 3), (3, 3), (1, 5), (3, 5), (9, 3), (5, 5), (5, 1), (9, 5), (7, 7), (5, 3)][(i // 2) % 12] if model == 'gain'
                else rng.choice([(3, 3), (3, 5), (5, 5), (5, 3), (9, 5)]),
                halvings=sorted(rng.sample([1, 2, 3, 4, 5, 6], 3)), holes=rng.random() < 0.5,
                threads=rng.choice([1, 2]), nb=rng.choice([1, 1, 2]),
                # how the finer image reaches the processing grid: the default, and two kernels that read a neighbouring pixel
                downsampling=['average', 'bilinear', 'average', 'cubic'][(i // 3) % 4])


def seams(src_path, ref_path, kernel, mbm):
    """block boundaries (source pixel coordinates, fractional) of the partition the code uses"""
    from homonim import RasterFuse, utils
    import warnings
    with warnings.catch_warnings():
        warnings.simplefilter('ignore')
        with RasterFuse(src_path, ref_path) as rf:
            bps = list(rf.block_pairs(overlap=(0, 0), max_block_mem=mbm))  # output windows do not depend on the overlap
            proc_ref = rf.proc_crs.name == 'ref'
            pim, oim = (rf.ref_im, rf.src_im) if proc_ref else (rf.src_im, rf.ref_im)
            rows, cols = set(), set()
            for bp in bps:
                pw = bp.ref_out_block if proc_ref else bp.src_out_block
                rows.update([pw.row_off, pw.row_off + pw.height])
                cols.update([pw.col_off, pw.col_off + pw.width])
            # to source pixel coordinates
            t_p, t_s = pim.transform, rf.src_im.transform
            xs = [(t_p.c + c * t_p.a - t_s.c) / t_s.a for c in cols]
            ys = [(t_p.f + r * t_p.e - t_s.f) / t_s.e for r in rows]
            ratio = abs(t_p.a / t_s.a)
    return sorted(ys), sorted(xs), ratio, len(bps)


def thin_last_block(run, tmp):
    """
    Partitions whose last block is thinner than the kernel: processing windows of 57 and 65 rows cut into eight row blocks
    (7 x 8 + 1, 7 x 9 + 2) with kernels 7, 9 and 15 rows high - the input window of the last block holds fewer rows than
    the kernel.  Parameter image and corrected image (nearest up-sampling) must equal the single-block run bit for bit.
    """
    from homonim.errors import BlockSizeError
    u = 8
    for k, (n, kh, model) in enumerate(((57, 7, 'gain'), (57, 9, 'gain'), (65, 15, 'gain'), (65, 15, 'gain-offset'), (57, 9, 'gain-offset'))):
        ref = rasters.Grid(u * 5000 + 16 * u * k, u * 9000, 2 * u, 2 * u, 10, n + 4)
        src = rasters.Grid(ref.x0 + 4 * u, ref.ytop - 4 * u, u, u, 12, 2 * n)
        rng = run.rng(f'thin{k}')
        s = np.array([[[rng.randint(1, 12) for _ in range(src.w)] for _ in range(src.h)]], float)
        r = np.array([[[rng.randint(1, 12) for _ in range(ref.w)] for _ in range(ref.h)]], float)
        pair = fusion.write_pair(tmp, f'c05thin{k}', src, ref, s, r, None, None)
        kern = (kh, 1) if model == 'gain' else (kh, 3)
        case = dict(i=850_000 + k, op='last block thinner than the kernel', proc_rows=n, kernel=kern, model=model, halvings=3)
        kw = dict(model=model, kernel_shape=kern, proc_crs='auto', param=True, threads=1, model_config=dict(upsampling='nearest', r2_inpaint_thresh=None))
        ph, pw_ = fusion.proc_window_shape(src, ref, True)
        try:
            base = fusion.run_fuse(pair.src_path, pair.ref_path, tmp / 'c05thin_1.tif', max_block_mem=100, **kw)
            res = fusion.run_fuse(pair.src_path, pair.ref_path, tmp / 'c05thin_n.tif',
                                  max_block_mem=fusion.block_mem_for(3, ph, pw_, src.px, ref.px, True), **kw)
        except BlockSizeError:
            run.hist['thin last block: refused (block smaller than the overlap)'] += 1
            continue
        except Exception as ex:
            run.fail(case, f'fusion raised {type(ex).__name__}: {ex}', signature=dict(kind='raises'))
            continue
        run.evaluations += 1
        run.hist['thin last block cases'] += 1
        run.nontrivial.add(('thin', k))
        for nm, a, b in (('parameter image', res.param, base.param), ('corrected image', res.corr, base.corr)):
            if not fusion.bytes_equal(a, b):
                fa = np.isfinite(a) & np.isfinite(b)
                d = np.argwhere((np.isfinite(a) != np.isfinite(b)) | (fa & (a != b)))
                run.fail(case, f'{nm} depends on the block partition (8 row blocks, the last one thinner than the {kh}-row kernel): {len(d)} values '
                         f'differ, e.g. band/row/col {d[0].tolist()}', signature=dict(kind='param-partition' if nm.startswith('param') else 'corr-partition',
                                                                                    downsampling='average', proc='ref'))
                break


def mask_partial_leg(run, tmp):
    """
    `mask_partial=True` with interpolating up-sampling, several blocks: the partial mask is applied to the up-sampled parameters,
    so a block gives the pixels of its output window the values of the single-block run (bilinear: everywhere; cubic spline: the
    mask everywhere).  Aligned integer ratios (2:1, 4:1): no source pixel centre lies on a reference pixel edge (the ties of finding
    D8 cannot occur), positive data under the gain model (no degenerate window, finding D16).
    """
    from homonim.errors import BlockSizeError
    u = 8
    for k, (ratio, ups, kern) in enumerate(((2, 'bilinear', (3, 3)), (4, 'bilinear', (3, 5)), (2, 'cubic_spline', (5, 3)), (2, 'bilinear', (1, 1)))):
        ref = rasters.Grid(u * 5000 + 64 * u * k, u * 9000, ratio * u, ratio * u, 30, 26)
        src = rasters.Grid(ref.x0 + 2 * ratio * u, ref.ytop - 3 * ratio * u, u, u, 24 * ratio, 19 * ratio)
        rng = run.rng(f'maskpartial{k}')
        s = np.array([[[rng.randint(1, 12) for _ in range(src.w)] for _ in range(src.h)]], float)
        r = np.array([[[rng.randint(1, 12) for _ in range(ref.w)] for _ in range(ref.h)]], float)
        sv = np.ones((src.h, src.w), bool)
        for _ in range(4):
            sv[rng.randrange(src.h), rng.randrange(src.w)] = False
        pair = fusion.write_pair(tmp, f'c05mp{k}', src, ref, s, r, sv, None)
        kw = dict(model='gain', kernel_shape=kern, proc_crs='auto', param=True, threads=1,
                  model_config=dict(upsampling=ups, r2_inpaint_thresh=None, mask_partial=True))
        ph, pw_ = fusion.proc_window_shape(src, ref, True)
        try:
            base = fusion.run_fuse(pair.src_path, pair.ref_path, tmp / 'c05mp_1.tif', max_block_mem=100, **kw)
        except Exception as ex:
            run.fail(dict(i=860_000 + 10 * k), f'fusion raised {type(ex).__name__}: {ex}', signature=dict(kind='raises'))
            continue
        for hv in (1, 2, 3):
            case = dict(i=860_000 + 10 * k + hv, op='mask_partial with interpolating up-sampling', ratio=ratio, upsampling=ups, kernel=kern, halvings=hv)
            try:
                res = fusion.run_fuse(pair.src_path, pair.ref_path, tmp / 'c05mp_n.tif',
                                      max_block_mem=fusion.block_mem_for(hv, ph, pw_, src.px, ref.px, True), **kw)
            except BlockSizeError:
                continue
            except Exception as ex:
                run.fail(case, f'fusion raised {type(ex).__name__}: {ex}', signature=dict(kind='raises'))
                continue
            run.evaluations += 1
            run.hist['mask_partial + interpolating up-sampling cases'] += 1
            run.nontrivial.add(('mask-partial', k, hv))
            if not np.array_equal(res.corr_mask, base.corr_mask) or not np.array_equal(res.param_masks, base.param_masks):
                run.fail(case, f'validity under mask_partial depends on the block partition ({2 ** hv} blocks)',
                         signature=dict(kind='corr-mask', mask_partial=True, downsampling='average', proc='ref'))
                continue
            if not fusion.bytes_equal(res.param[:2], base.param[:2]):
                run.fail(case, f'parameter image under mask_partial depends on the block partition ({2 ** hv} blocks)',
                         signature=dict(kind='param-partition', mask_partial=True, downsampling='average', proc='ref'))
                continue
            if ups == 'bilinear':
                fin = np.isfinite(res.corr) & np.isfinite(base.corr)
                d = np.argwhere(fin & (res.corr != base.corr))
                if len(d):
                    run.fail(case, f'corrected image under mask_partial depends on the block partition ({2 ** hv} blocks, bilinear up-sampling): '
                             f'{len(d)} pixels differ, e.g. band/row/col {d[0].tolist()}: {float(res.corr[tuple(d[0])])} vs {float(base.corr[tuple(d[0])])}',
                             signature=dict(kind='corr-partition', mask_partial=True, downsampling='average', proc='ref'))


def run(run: common.Run):
    from homonim.errors import BlockSizeError
    n = 24 if run.quick() else 400
    run.rule = ('pairs of real fusions: 1 block vs 1..6 halvings; auto grid; gain / gain-offset without in-painting; kernels up to '
                '9x5; up-sampling nearest/bilinear/cubic_spline; dyadic+decimal geometry, holes, 1-2 bands, 1-2 threads; '
                'non-trivial = the partition has more than one block; distinct by (geometry, model, kernel, partition, up-sampling)')
    tmp = run.tmpdir()
    for i in run.indices(n):
        case = gen_case(run, i)
        rng = run.rng(f'{i}-data')
        src, ref = rasters.Grid.from_dict(case['src']), rasters.Grid.from_dict(case['ref'])
        nb = case['nb']
        s = np.array([[[rng.randint(1, 12) for _ in range(src.w)] for _ in range(src.h)] for _ in range(nb)], float)
        r = np.array([[[rng.randint(1, 12) for _ in range(ref.w)] for _ in range(ref.h)] for _ in range(nb)], float)
        sv = np.ones((src.h, src.w), bool)
        if case['holes']:
            for _ in range(rng.randint(1, 5)):
                sv[rng.randrange(src.h), rng.randrange(src.w)] = False
        pair = fusion.write_pair(tmp, 'c05', src, ref, s, r, sv, None)
        proc_ref = src.px <= ref.px
        mc = dict(upsampling=case['upsampling'], r2_inpaint_thresh=None, downsampling=case['downsampling'])
        run.hist[f"downsampling={case['downsampling']}"] += 1
        kw = dict(model=case['model'], kernel_shape=case['kernel'], proc_crs='auto', param=True, threads=case['threads'],
                  model_config=mc)
        try:
            base = fusion.run_fuse(pair.src_path, pair.ref_path, tmp / 'c05_base.tif', max_block_mem=100, **kw)
        except BlockSizeError:
            run.hist['processing window smaller than the overlap: skipped'] += 1
            continue
        except Exception as ex:
            run.fail(case, f'fusion raised {type(ex).__name__}: {ex}', signature=dict(kind='raises'))
            continue
        ph, pw_ = fusion.proc_window_shape(src, ref, proc_ref)
        exact = case['family'] == 'dyadic' and (ref.px % src.px == 0 or src.px % ref.px == 0) and \
            (max(ref.px, src.px) // min(ref.px, src.px)) in (1, 2, 4)
        for hv in case['halvings']:
            mbm = fusion.block_mem_for(hv, ph, pw_, src.px, ref.px, proc_ref)
            sub = dict(case, halvings=hv)
            try:
                res = fusion.run_fuse(pair.src_path, pair.ref_path, tmp / 'c05_blk.tif', max_block_mem=mbm, **kw)
            except BlockSizeError:
                run.hist['block smaller than the overlap: skipped'] += 1
                continue
            except Exception as ex:
                run.fail(sub, f'fusion raised {type(ex).__name__}: {ex}', signature=dict(kind='raises'))
                continue
            run.evaluations += 1
            ys, xs, ratio, nblk = seams(pair.src_path, pair.ref_path, case['kernel'], mbm)
            run.hist[f"model={case['model']}"] += 1
            run.hist[f"upsampling={case['upsampling']}"] += 1
            run.hist[f'proc={res.proc_crs}'] += 1
            run.hist['blocks>1' if nblk > nb else 'blocks=1'] += 1
            if nblk > nb:
                run.nontrivial.add((str(case['src']), case['model'], tuple(case['kernel']), hv, case['upsampling']))
            # (a) parameter image
            pm_eq = np.array_equal(res.param_masks, base.param_masks)
            if not pm_eq:
                run.fail(sub, 'parameter image validity depends on the block partition', signature=dict(kind='param-mask', downsampling=case['downsampling'], proc=res.proc_crs))
                continue
            if exact:
                run.hist['parameter images compared bit-exactly'] += 1
                okp = fusion.bytes_equal(res.param[:2 * nb], base.param[:2 * nb])
            else:
                a, b = res.param[:2 * nb], base.param[:2 * nb]
                fin = np.isfinite(a) & np.isfinite(b)
                okp = np.array_equal(np.isfinite(a), np.isfinite(b)) and \
                    (not fin.any() or np.max(np.abs(a[fin] - b[fin]) / np.maximum(np.abs(b[fin]), 1e-3)) < 5e-5)
            if not okp:
                d = np.nanmax(np.abs(res.param[:2 * nb] - base.param[:2 * nb]))
                k = np.unravel_index(np.nanargmax(np.abs(res.param[:2 * nb] - base.param[:2 * nb])), base.param[:2 * nb].shape)
                run.fail(sub, f'parameter image depends on the block partition ({nblk} blocks): max abs diff {d} at band/row/col {k}',
                         signature=dict(kind='param-partition', downsampling=case['downsampling'], proc=res.proc_crs))
                continue
            # (a') the R² band is part of the parameter image: same validity, same numbers (float32 expansion of 1 - RSS/TSS in
            # the kernel sums: compared relative to max(1, |R²|); one-pixel kernels have zero variance, their R² is noise)
            if res.param.shape[0] >= 3 * nb and tuple(case['kernel']) != (1, 1):
                a, b = res.param[2 * nb:3 * nb].astype('float64'), base.param[2 * nb:3 * nb].astype('float64')
                fa, fb = np.isfinite(a), np.isfinite(b)
                both = fa & fb
                rel = np.zeros(a.shape)
                rel[both] = np.abs(a[both] - b[both]) / np.maximum(1.0, np.abs(b[both]))
                run.hist['R2 band compared between partitions'] += 1
                if not np.array_equal(np.isnan(a), np.isnan(b)) or rel.max() > (1e-6 if exact else 2e-3):
                    k = np.unravel_index(np.argmax(np.where(both, rel, np.inf * (fa != fb))), a.shape) if (fa != fb).any() else \
                        np.unravel_index(np.argmax(rel), a.shape)
                    run.fail(sub, f'R2 band of the parameter image depends on the block partition ({nblk} blocks): {float(a[k])!r} vs '
                             f'{float(b[k])!r} at band/row/col {tuple(int(x) for x in k)}', signature=dict(kind='param-partition', band='r2', downsampling=case['downsampling'], proc=res.proc_crs))
                    continue
            # (b) / (c) corrected image
            if not np.array_equal(res.corr_mask, base.corr_mask):
                run.fail(sub, 'corrected image validity depends on the block partition', signature=dict(kind='corr-mask', downsampling=case['downsampling'], proc=res.proc_crs))
                continue
            diff = np.zeros(base.corr_mask.shape, bool)
            for b_ in range(nb):
                a, b = res.corr[b_], base.corr[b_]
                fin = np.isfinite(a) & np.isfinite(b)
                tol = 0 if exact else 5e-5 * np.maximum(np.abs(b), 1e-3)
                diff |= fin & (np.abs(a - b) > tol)
            if res.proc_crs == 'src' or case['upsampling'] in ('nearest', 'bilinear'):
                if diff.any():
                    rr, cc = np.argwhere(diff)[0]
                    run.fail(sub, f'corrected image depends on the block partition ({nblk} blocks, up-sampling '
                             f'{case["upsampling"]}, proc {res.proc_crs}): {int(diff.sum())} pixels differ, e.g. ({rr},{cc})',
                             signature=dict(kind='corr-partition', downsampling=case['downsampling'], proc=res.proc_crs))
                    continue
            else:
                # differences confined to source pixels within one processing pixel of a seam
                far = []
                for rr, cc in np.argwhere(diff):
                    dy = min(abs(rr + 0.5 - y) for y in ys)
                    dx = min(abs(cc + 0.5 - x) for x in xs)
                    if min(dy, dx) > ratio + 0.5 + 1e-6:
                        far.append((int(rr), int(cc), dy / ratio, dx / ratio))
                run.hist['cubic_spline: pixels differing near seams'] += int(diff.sum())
                if far:
                    run.fail(sub, f'corrected pixels differing between partitions lie further than one processing pixel from '
                             f'any block boundary: {far[:3]} ({len(far)} pixels)', signature=dict(kind='corr-far-from-seam', downsampling=case['downsampling'], proc=res.proc_crs))
                    continue
        run.sample(dict(case={k: case[k] for k in ('i', 'model', 'kernel', 'halvings', 'upsampling', 'family')},
                        proc=base.proc_crs, exact=exact), 4)
    # leg 2: the premise of the locality theorem - overlap_for_kernel = ceil(k/2) - on the real code
    from homonim import utils
    lines, impls, cases = [], [], []
    for kh in range(1, 32, 2):
        for kw_ in (1, 3, 5, 9, 15, 31):
            ov = utils.overlap_for_kernel((kh, kw_))
            lines.append(f'overlap {kh} {kw_}')
            impls.append(f'{int(ov[0])} {int(ov[1])}')
            cases.append(dict(i=10**6 + len(cases), kernel=(kh, kw_)))
            run.evaluations += 1
            if int(ov[0]) < kh // 2 + 1 or int(ov[1]) < kw_ // 2 + 1:
                run.fail(cases[-1], f'overlap_for_kernel({kh},{kw_}) = {ov} is smaller than the kernel radius + 1',
                         signature=dict(kind='overlap-too-small'))
    run.compare_lines(cases, lines, impls)
    thin_last_block(run, tmp)
    if run.only is None:
        mask_partial_leg(run, tmp)
    # whole-image exact model against multi-block runs: the partitioned run must equal the single-function model
    import fuseimg
    fuseimg.whole_image_leg(run, 6 if run.quick() else 60, blocks=(2, 3), base=800_000)
