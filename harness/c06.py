"""
C06 - output blocks tile the source exactly; paired windows cover the same ground.

Leg 2: real RasterPairReader.block_pairs() vs the Lean model (`pair` op): exact on dyadic grids with power-of-two pixel sizes,
       tie-tolerant where the pixel arithmetic is inexact (decimal family, other dyadic pixel sizes).
Leg 3: on the code's own windows: cover count of every source pixel (= 1), in-window = out-window grown by the
       overlap clipped to the processing window, ground containment of paired windows - in exact integer units.
"""
from fractions import Fraction

import numpy as np

import common
import rasters


def win4(w):
    return (int(w.col_off), int(w.row_off), int(w.width), int(w.height))


def impl_pair(run, src, ref, proc, overlap, nblk_exp, nb=1):
    """open the real reader on files with these grids and list its block pairs"""
    from homonim.raster_pair import RasterPairReader
    from homonim.enums import ProcCrs
    tmp = run.tmpdir()
    sp, rp = tmp / 'c06_src.tif', tmp / 'c06_ref.tif'
    rasters.write_tif(sp, src, count=nb)
    rasters.write_tif(rp, ref, count=nb)
    reader = RasterPairReader(sp, rp, proc_crs=ProcCrs(proc))
    with reader:
        proc_ref = reader.proc_crs == ProcCrs.ref
        pw = reader._ref_win if proc_ref else reader._src_win
        # choose max_block_mem so that the window is halved nblk_exp times
        src_area, ref_area = src.px * src.py, ref.px * ref.py
        if proc_ref:
            mem_scale = src_area / ref_area if ref_area > src_area else 1.
        else:
            mem_scale = 1. if ref_area > src_area else ref_area / src_area
        mbm = (pw.height * pw.width * 4 / 2 ** nblk_exp) * 1.0001 / 2 ** 20 / mem_scale if nblk_exp else np.inf
        shape = reader._auto_block_shape(mbm)
        bps = list(reader.block_pairs(overlap=overlap, max_block_mem=mbm))
        # _auto_block_shape against the model (`autoshape`): the budget in bytes is re-derived with the code's own float steps
        from fractions import Fraction
        from homonim import errors as herr
        auto = []
        rng = run.rng(f'auto-{src.to_dict()}-{nblk_exp}')
        sa, ra = np.prod(np.abs(reader._src_im.res)), np.prod(np.abs(reader._ref_im.res))
        if proc_ref:
            ms = sa / ra if ra > sa else 1.
        else:
            ms = 1. if ra > sa else ra / sa
        full = pw.height * pw.width * 4 / 2 ** 20 / ms
        for m_k in (mbm, full, full / 2, full * rng.choice([0.3, 0.26, 0.12, 0.051, 0.9]), full / 2 ** rng.randint(2, 12),
                    4.0 / 2 ** 20 / ms, 3.9 / 2 ** 20 / ms, rng.choice([1e-5, 1e-4, 1e-3])):
            if not np.isfinite(m_k) or m_k <= 0:
                continue
            budget = Fraction(float(m_k * ms)) * 2 ** 20   # `max_block_mem * mem_scale`, then `*= 2 ** 20` (exact: a power of two)
            try:
                sh = reader._auto_block_shape(float(m_k))
                got = '%d %d' % (int(sh[0]), int(sh[1]))
            except herr.BlockSizeError:
                got = 'err'
            auto.append((int(pw.height), int(pw.width), budget, got))
        out = dict(
            proc_ref=proc_ref, refwin=win4(reader._ref_win), srcwin=win4(reader._src_win),
            shape=(int(shape[0]), int(shape[1])), mbm=mbm, auto=auto,
            blocks=[(bp.band_i, win4(bp.src_in_block), win4(bp.ref_in_block), win4(bp.src_out_block),
                     win4(bp.ref_out_block), int(bool(bp.outer))) for bp in bps]
        )
    return out


def model_line(src, ref, proc_ref, nb, shape, overlap):
    a = (*src.row_axis, *ref.row_axis, *src.col_axis, *ref.col_axis)
    return 'pair ' + ' '.join(str(int(x)) for x in (*a, int(proc_ref), nb, shape[0], shape[1], overlap[0], overlap[1]))


def impl_line(o):
    s = 'refwin %d %d %d %d srcwin %d %d %d %d n %d' % (*o['refwin'], *o['srcwin'], len(o['blocks']))
    for b in o['blocks']:
        s += ' | %d %s %s %s %s %d' % (b[0], *(' '.join(map(str, w)) for w in b[1:5]), b[5])
    return s


def check_predicates(run, case, src, ref, o, overlap, nb):
    """the property's own predicates on the code's windows (exact integer arithmetic)"""
    proc_ref = o['proc_ref']
    P, O = (ref, src) if proc_ref else (src, ref)
    pw = o['refwin'] if proc_ref else o['srcwin']
    cover = np.zeros((nb, src.h, src.w), dtype=int)
    bad = []
    for band, sin, rin, sout, rout, outer in o['blocks']:
        c0, r0, w, h = sout
        rs, re_, cs, ce = max(r0, 0), min(r0 + h, src.h), max(c0, 0), min(c0 + w, src.w)
        if re_ > rs and ce > cs:
            cover[band, rs:re_, cs:ce] += 1
        pin, pout = (rin, rout) if proc_ref else (sin, sout)
        oin = sin if proc_ref else rin
        # in = out grown by overlap, clipped to the processing window
        exp_in = (
            max(pout[0] - overlap[1], pw[0]), max(pout[1] - overlap[0], pw[1]),
        )
        exp_br = (min(pout[0] + pout[2] + overlap[1], pw[0] + pw[2]), min(pout[1] + pout[3] + overlap[0], pw[1] + pw[3]))
        if (pin[0], pin[1]) != exp_in or (pin[0] + pin[2], pin[1] + pin[3]) != exp_br:
            bad.append(('in-window is not out-window grown by overlap', band, pin, pout))
        # same ground: other in-window (whole pixels) contains the processing in-window's ground extent
        # columns
        g_lo, g_hi = P.x0 + pin[0] * P.px, P.x0 + (pin[0] + pin[2]) * P.px
        o_lo, o_hi = O.x0 + oin[0] * O.px, O.x0 + (oin[0] + oin[2]) * O.px
        # rows (downwards from ytop)
        gt, gb = P.ytop - pin[1] * P.py, P.ytop - (pin[1] + pin[3]) * P.py
        ot, ob = O.ytop - oin[1] * O.py, O.ytop - (oin[1] + oin[3]) * O.py
        if not (o_lo <= g_lo and g_hi <= o_hi and ot >= gt and gb >= ob):
            bad.append(('paired in-windows do not cover the same ground', band, pin, oin))
        # same ground, output windows: each edge of the other image's output window is the processing output window's edge rounded to
        # the other grid - within half a pixel of it on the ground (both axes, whatever the pixel shape)
        oout = sout if proc_ref else rout
        q_lo, q_hi = P.x0 + pout[0] * P.px, P.x0 + (pout[0] + pout[2]) * P.px
        w_lo, w_hi = O.x0 + oout[0] * O.px, O.x0 + (oout[0] + oout[2]) * O.px
        qt, qb = P.ytop - pout[1] * P.py, P.ytop - (pout[1] + pout[3]) * P.py
        wt, wb = O.ytop - oout[1] * O.py, O.ytop - (oout[1] + oout[3]) * O.py
        if 2 * abs(w_lo - q_lo) > O.px or 2 * abs(w_hi - q_hi) > O.px or 2 * abs(wt - qt) > O.py or 2 * abs(wb - qb) > O.py:
            bad.append(('paired out-windows do not cover the same ground (more than half a pixel apart)', band, pout, oout))
    ngap, ndbl = int((cover == 0).sum()), int((cover > 1).sum())
    if ngap or ndbl:
        rows = sorted(set(np.where(cover != 1)[1].tolist()))[:6]
        cols = sorted(set(np.where(cover != 1)[2].tolist()))[:6]
        bad.append((f'source pixels not covered exactly once: {ngap} in no output window, {ndbl} in more than one',
                    rows, cols))
    for b in bad:
        run.fail(case, b[0], signature=dict(kind=b[0].split(':')[0]), detail=b[1:])
    return not bad


def gen_case(run, i):
    rng = run.rng(i)
    family = 'dyadic' if rng.random() < 0.6 else 'decimal'
    proc = rng.choice(['auto', 'auto', 'auto', 'ref', 'src'])
    src, ref = rasters.pair_geometry(rng, family, proc)
    if i % 10 == 7:
        # slivers: the same kind of geometry on a unit 1024 times finer, the source moved by 1-3 of those units: its edges lie
        # between 1/20000 and 1/700 of a pixel beside pixel edges of the reference - a window edge that is *almost* on the grid
        # must still be expanded to whole pixels (nothing may be "snapped" away)
        family = 'dyadic'
        src, ref = rasters.pair_geometry(rng, family, proc, margin=(1, 3))
        k, dx, dy = 1024, rng.choice([1, 2, 3]), rng.choice([1, 2, 3])
        src = rasters.Grid(src.x0 * k + dx, src.ytop * k - dy, src.px * k, src.py * k, src.w, src.h, src.unit / k)
        ref = rasters.Grid(ref.x0 * k, ref.ytop * k, ref.px * k, ref.py * k, ref.w, ref.h, ref.unit / k)
    if i % 10 == 3:
        # non-square pixels (a geographic grid with different spacing in longitude and latitude; a 2:1 line scanner): rows twice as
        # tall as the columns are wide in the source, or in the reference
        if rng.random() < 0.5:
            src = rasters.Grid(src.x0, src.ytop, src.px, src.py * 2, src.w, max(1, src.h // 2), src.unit)
        else:
            ref = rasters.Grid(ref.x0, ref.ytop, ref.px, ref.py * 2, ref.w, ref.h // 2 + 1, ref.unit)
    overlap = rng.choice([(0, 0), (0, 0), (1, 1), (2, 1), (3, 3), (1, 4), (5, 4)])
    nblk_exp = rng.choice([0, 1, 2, 3, 4, 5, 6])
    if overlap[0] > 2 or overlap[1] > 2:
        nblk_exp = min(nblk_exp, 3)
    nb = rng.choice([1, 1, 2, 3])
    return dict(i=i, family=family, proc=proc, src=src.to_dict(), ref=ref.to_dict(), overlap=overlap,
                nblk_exp=nblk_exp, nb=nb)


def run(run: common.Run):
    from homonim import errors
    n = 250 if run.quick() else 4000
    run.rule = ('random source-in-reference geometries (dyadic 1/8 m and decimal 0.05 m families, ratios 1..4 incl. '
                '5:2, 20:9, 7:3, sub-pixel offsets incl. exact halves, large map coordinates), proc grid '
                'auto/ref/src, overlaps (0,0)..(5,4), 1..64 blocks, 1-3 bands; non-trivial = more than one block '
                'and a non-integer resolution ratio or non-zero sub-pixel offset; distinct by (ratio, offsets mod '
                'pixel, proc, overlap, block shape)')
    cases, lines, impls = [], [], []
    auto_lines, auto_impls, auto_cases = [], [], []
    corpus = common.load_corpus('C06')
    for i in [c['i'] for c in corpus if run.only is None or c['i'] in run.only] + run.indices(n):
        case = gen_case(run, i) if i >= 0 else dict(next(c for c in corpus if c['i'] == i))
        src, ref = rasters.Grid.from_dict(case['src']), rasters.Grid.from_dict(case['ref'])
        try:
            o = impl_pair(run, src, ref, case['proc'], tuple(case['overlap']), case['nblk_exp'], case['nb'])
        except errors.BlockSizeError:
            run.hist['block-size-error'] += 1
            continue
        run.evaluations += 1
        run.hist[f"family={case['family']}"] += 1
        run.hist['non-square pixels'] += int(src.px != src.py or ref.px != ref.py)
        run.hist['sliver offsets (source edges within 1/700 pixel of reference pixel edges)'] += int(case['i'] % 10 == 7 and case['i'] >= 0)
        run.hist[f"proc_ref={o['proc_ref']}"] += 1
        nblk = len(o['blocks']) // case['nb']
        run.hist['blocks=1' if nblk == 1 else 'blocks=2-8' if nblk <= 8 else 'blocks>8'] += 1
        P, O = (ref, src) if o['proc_ref'] else (src, ref)
        subx = (O.x0 - P.x0) % P.px
        suby = (P.ytop - O.ytop) % P.py
        half = (2 * subx == P.px) or (2 * suby == P.py) or (P.px % (2 * O.px) == O.px)
        run.hist[f'half-pixel-boundaries={half}'] += 1
        if nblk > 1 and (subx or suby or P.px % O.px):
            run.nontrivial.add((P.px, O.px, subx, suby, o['proc_ref'], tuple(case['overlap']), o['shape']))
        check_predicates(run, case, src, ref, o, tuple(case['overlap']), case['nb'])
        cases.append(case)
        case['_proc_ref'] = o['proc_ref']
        line = model_line(src, ref, o['proc_ref'], case['nb'], o['shape'], tuple(case['overlap']))
        if noisy(case):
            # the model is given the code's own processing window (compared tie-tolerantly against its definition)
            pw = o['refwin'] if o['proc_ref'] else o['srcwin']
            line += ' %d %d %d %d' % (pw[1], pw[1] + pw[3], pw[0], pw[0] + pw[2])
        lines.append(line)
        impls.append(impl_line(o))
        for (H, W, budget, got) in o['auto']:
            auto_lines.append(f'autoshape {H} {W} {budget.numerator}/{budget.denominator}')
            auto_impls.append(got)
            auto_cases.append(dict(i=case['i'], op='auto-block-shape', window=(H, W), budget_bytes=float(budget)))
            run.hist['auto-block-shape: ' + ('error' if got == 'err' else 'one block' if got == f'{H} {W}' else 'halved')] += 1
        run.sample(dict(case=case, model_request=lines[-1], impl_reply=impls[-1][:300]), 3)
    cross_crs(run)
    rotated(run)
    run.compare_lines(auto_cases, auto_lines, auto_impls)
    failed = {f['case']['i'] for f in run.failures}
    replies = common.model_batch(lines)
    if replies is None:
        run.model_available = False
        return
    for case, line, m, im in zip(cases, lines, replies, impls):
        run.lines_compared += 1
        if case['i'] in failed:
            continue  # already reported as a failing input of the property itself
        if m == im:
            continue
        if noisy(case) and tie_tolerant_equal(case, m, im):
            run.hist['inexact pixel arithmetic: accepted at an exact rounding tie'] += 1
            continue
        run.disagree(case, line, m, im)


def noisy(case):
    """pixel <-> map arithmetic is inexact: decimal family, or dyadic with a pixel size that is no power of two (the
    code multiplies by the inverse geotransform, and e.g. 1/20 is not a binary fraction)"""
    return rasters.noisy_edges(case['family'], case['src']['px'], case['ref']['px'])


def parse_reply(s):
    head, *blocks = s.split(' | ')
    h = head.split()
    out = dict(refwin=tuple(map(int, h[1:5])), srcwin=tuple(map(int, h[6:10])), n=int(h[11]), blocks=[])
    for b in blocks:
        t = list(map(int, b.split()))
        out['blocks'].append((t[0], tuple(t[1:5]), tuple(t[5:9]), tuple(t[9:13]), tuple(t[13:17]), t[17]))
    return out


def tie_tolerant_equal(case, m, im):
    """
    Decimal geometry: float noise decides floor/ceil/round where the exact position is an integer / a half-integer.
    The model was given the code's own processing window; what remains is compared per number, and a difference of
    one pixel is accepted only at such an exact tie (computed here in integer arithmetic).
    """
    src, ref = rasters.Grid.from_dict(case['src']), rasters.Grid.from_dict(case['ref'])
    M, I = parse_reply(m), parse_reply(im)
    if M['n'] != I['n'] or len(M['blocks']) != len(I['blocks']):
        return False
    proc_ref = case['_proc_ref']
    P, O = (ref, src) if proc_ref else (src, ref)

    def num(axis_p, axis_o, x):
        (po, pp, _), (oo, op, _) = axis_p, axis_o
        return po + x * pp - oo, op

    def ok_floor(mv, iv, axis_p, axis_o, x, up):
        if mv == iv:
            return True
        a, d = num(axis_p, axis_o, x)
        return a % d == 0 and iv == mv + (1 if up else -1)

    def ok_round(mv, iv, axis_p, axis_o, x):
        if mv == iv:
            return True
        a, d = num(axis_p, axis_o, x)
        return (2 * a) % (2 * d) == d and iv in (a // d, a // d + 1)

    # reference window: tie-tolerant against its definition
    for (mw, iw, ap, ao, lo, hi) in (
        ((M['refwin'][0], M['refwin'][0] + M['refwin'][2]), (I['refwin'][0], I['refwin'][0] + I['refwin'][2]),
         src.col_axis, ref.col_axis, 0, src.w),
        ((M['refwin'][1], M['refwin'][1] + M['refwin'][3]), (I['refwin'][1], I['refwin'][1] + I['refwin'][3]),
         src.row_axis, ref.row_axis, 0, src.h),
    ):
        if not (ok_floor(mw[0], iw[0], ap, ao, lo, False) and ok_floor(mw[1], iw[1], ap, ao, hi, True)):
            return False
    # source window: expanded from the code's own reference window
    irw = I['refwin']
    q = common.model_batch([
        'expandto %d %d %d %d %d %d %d %d' % (*ref.col_axis, *src.col_axis, irw[0], irw[0] + irw[2]),
        'expandto %d %d %d %d %d %d %d %d' % (*ref.row_axis, *src.row_axis, irw[1], irw[1] + irw[3]),
    ])
    (mcl, mch), (mrl, mrh) = (tuple(map(int, x.split())) for x in q)
    isw = I['srcwin']
    if not (ok_floor(mcl, isw[0], ref.col_axis, src.col_axis, irw[0], False) and
            ok_floor(mch, isw[0] + isw[2], ref.col_axis, src.col_axis, irw[0] + irw[2], True) and
            ok_floor(mrl, isw[1], ref.row_axis, src.row_axis, irw[1], False) and
            ok_floor(mrh, isw[1] + isw[3], ref.row_axis, src.row_axis, irw[1] + irw[3], True)):
        return False
    for mb, ib in zip(M['blocks'], I['blocks']):
        if mb[0] != ib[0] or mb[5] != ib[5]:
            return False
        m_pin, i_pin = (mb[2], ib[2]) if proc_ref else (mb[1], ib[1])
        m_pout, i_pout = (mb[4], ib[4]) if proc_ref else (mb[3], ib[3])
        m_oin, i_oin = (mb[1], ib[1]) if proc_ref else (mb[2], ib[2])
        m_oout, i_oout = (mb[3], ib[3]) if proc_ref else (mb[4], ib[4])
        if m_pin != i_pin or m_pout != i_pout:
            return False
        for (axis_p, axis_o, k) in ((P.col_axis, O.col_axis, 0), (P.row_axis, O.row_axis, 1)):
            plo, phi = i_pin[k], i_pin[k] + i_pin[k + 2]
            if not (ok_floor(m_oin[k], i_oin[k], axis_p, axis_o, plo, False) and
                    ok_floor(m_oin[k] + m_oin[k + 2], i_oin[k] + i_oin[k + 2], axis_p, axis_o, phi, True)):
                return False
            plo, phi = i_pout[k], i_pout[k] + i_pout[k + 2]
            if not (ok_round(m_oout[k], i_oout[k], axis_p, axis_o, plo) and
                    ok_round(m_oout[k] + m_oout[k + 2], i_oout[k] + i_oout[k + 2], axis_p, axis_o, phi)):
                return False
    return True


def cross_crs(run):
    """
    Source and reference in different coordinate systems (neighbouring UTM zones), either resolution order, every
    processing-grid choice: not modelled (the re-projected grids are GDAL's), but the property's own predicate is evaluated
    on the code's windows - every pixel of the source image *as processed* (reader.src_im, possibly a WarpedVRT) must lie
    in exactly one output window, and input windows must contain output windows.
    """
    import warnings
    import numpy as np
    import rasterio as rio
    from rasterio.crs import CRS
    from rasterio.transform import Affine
    from rasterio.warp import transform_bounds
    from homonim.raster_pair import RasterPairReader
    from homonim.enums import ProcCrs
    from homonim import errors
    tmp = run.tmpdir()
    c34, c35 = CRS.from_epsg(32734), CRS.from_epsg(32735)
    k = 0
    for (sres, rres) in ((10.0, 4.0), (4.0, 10.0), (5.0, 5.0)):
        for proc in ('auto', 'src', 'ref'):
            for nblk in (0, 3):
                k += 1
                rng = run.rng(f'crs{k}')
                sw, sh = rng.randint(30, 60), rng.randint(30, 60)
                # source in UTM 34S close to the zone boundary (x ~ 760 km), reference in UTM 35S covering it with a margin
                sx0, sy0 = 760_000.0 + rng.randint(0, 500), 6_200_000.0 + rng.randint(0, 500)
                st = Affine(sres, 0, sx0, 0, -sres, sy0)
                sb = (sx0, sy0 - sh * sres, sx0 + sw * sres, sy0)
                l, b, r_, t = transform_bounds(c34, c35, *sb, densify_pts=21)
                m = 12 * max(sres, rres)
                rx0, ry0 = np.floor((l - m) / rres) * rres, np.ceil((t + m) / rres) * rres
                rw, rh = int(np.ceil((r_ + m - rx0) / rres)), int(np.ceil((ry0 - (b - m)) / rres))
                rt = Affine(rres, 0, rx0, 0, -rres, ry0)
                sp, rp = tmp / 'c06x_s.tif', tmp / 'c06x_r.tif'
                for p_, tr, w_, h_, crs in ((sp, st, sw, sh, c34), (rp, rt, rw, rh, c35)):
                    with rio.open(p_, 'w', driver='GTiff', width=w_, height=h_, count=2, dtype='float32', crs=crs, transform=tr,
                                  nodata=float('nan')) as ds:
                        ds.write(np.ones((2, h_, w_), dtype='float32'))
                case = dict(i=900_000 + k, op='cross-crs', src_res=sres, ref_res=rres, proc=proc, halvings=nblk, src_shape=(sh, sw))
                try:
                    with warnings.catch_warnings():
                        warnings.simplefilter('ignore')
                        rd = RasterPairReader(sp, rp, proc_crs=ProcCrs(proc))
                        with rd:
                            proc_ref = rd.proc_crs == ProcCrs.ref
                            pw = rd._ref_win if proc_ref else rd._src_win
                            mbm = (pw.height * pw.width * 4 / 2 ** nblk) * 1.0001 / 2 ** 20 if nblk else np.inf
                            bps = list(rd.block_pairs(overlap=(2, 3), max_block_mem=mbm))
                            shp = rd.src_im.shape
                except errors.BlockSizeError:
                    continue
                except Exception as ex:
                    run.fail(case, f'reader raised {type(ex).__name__}: {ex}', signature=dict(kind='raises'))
                    continue
                run.evaluations += 1
                run.hist['cross-CRS pairs'] += 1
                run.nontrivial.add(('crs', sres, rres, proc, nblk))
                cover = np.zeros((2, *shp), dtype=int)
                bad = None
                for bp in bps:
                    w = bp.src_out_block
                    r0, r1 = max(int(w.row_off), 0), min(int(w.row_off + w.height), shp[0])
                    c0, c1 = max(int(w.col_off), 0), min(int(w.col_off + w.width), shp[1])
                    if r1 > r0 and c1 > c0:
                        cover[bp.band_i, r0:r1, c0:c1] += 1
                    for inb, outb in ((bp.src_in_block, bp.src_out_block), (bp.ref_in_block, bp.ref_out_block)):
                        io, oo = inb, outb
                        if proc_ref == (inb is bp.ref_in_block):   # processing-grid windows are exact integers
                            if not (io.col_off <= oo.col_off and io.row_off <= oo.row_off and
                                    io.col_off + io.width >= oo.col_off + oo.width and io.row_off + io.height >= oo.row_off + oo.height):
                                bad = f'input window {io} does not contain output window {oo}'
                ngap, ndbl = int((cover == 0).sum()), int((cover > 1).sum())
                if ngap or ndbl:
                    bad = (f'cross-CRS pair (source {sres} m UTM34S, reference {rres} m UTM35S, proc {proc}): {ngap} pixels of the '
                           f'processed source {shp} in no output window, {ndbl} in more than one')
                if bad:
                    run.fail(case, bad, signature=dict(kind='cross-crs-cover'))


def rotated(run):
    """
    Rotated source images (neither north-up nor south-up; homonim reads them through a north-up WarpedVRT), in a projected CRS
    with metre pixels and in a geographic CRS with pixels of 1e-6 .. 2e-5 degrees (where the rotation terms of the transform are
    tiny numbers): the source output windows tile the processed source exactly and paired windows cover the same ground.
    """
    import math
    import warnings
    import numpy as np
    import rasterio as rio
    from rasterio.crs import CRS
    from rasterio.transform import Affine
    from homonim.raster_pair import RasterPairReader
    from homonim.enums import ProcCrs
    from homonim import errors
    tmp = run.tmpdir()
    k = 0
    for crs, px, x0, y0 in ((CRS.from_epsg(4326), 1e-6, 24.0, -33.0), (CRS.from_epsg(4326), 2e-5, 24.0, -33.0),
                            (CRS.from_epsg(32735), 1.0, 500_000.0, 6_200_000.0)):
        for ang in (20.0, -35.0):
            for proc, nblk in (('auto', 3), ('ref', 0), ('src', 2)):
                k += 1
                sw, sh = 48, 60
                st = Affine.translation(x0, y0) * Affine.rotation(ang) * Affine.scale(px, -px)
                xs, ys = zip(*[st * c for c in ((0, 0), (sw, 0), (0, sh), (sw, sh))])
                rres = 2.5 * px
                rx0, ry0 = min(xs) - 6 * rres, max(ys) + 6 * rres
                rw, rh = int(math.ceil((max(xs) - rx0) / rres)) + 6, int(math.ceil((ry0 - min(ys)) / rres)) + 6
                rt = Affine(rres, 0, rx0, 0, -rres, ry0)
                sp, rp = tmp / 'c06r_s.tif', tmp / 'c06r_r.tif'
                for p_, tr, w_, h_ in ((sp, st, sw, sh), (rp, rt, rw, rh)):
                    with rio.open(p_, 'w', driver='GTiff', width=w_, height=h_, count=1, dtype='float32', crs=crs, transform=tr,
                                  nodata=float('nan')) as ds:
                        ds.write(np.ones((1, h_, w_), dtype='float32'))
                case = dict(i=950_000 + k, op='rotated source', crs=crs.to_string(), pixel=px, angle=ang, proc=proc, halvings=nblk)
                try:
                    with warnings.catch_warnings():
                        warnings.simplefilter('ignore')
                        rd = RasterPairReader(sp, rp, proc_crs=ProcCrs(proc))
                        with rd:
                            proc_ref = rd.proc_crs == ProcCrs.ref
                            pw = rd._ref_win if proc_ref else rd._src_win
                            mbm = (pw.height * pw.width * 4 / 2 ** nblk) * 1.0001 / 2 ** 20 if nblk else np.inf
                            bps = list(rd.block_pairs(overlap=(1, 1), max_block_mem=mbm))
                            shp, t_s, t_r = rd.src_im.shape, rd.src_im.transform, rd.ref_im.transform
                except errors.BlockSizeError:
                    continue
                except Exception as ex:
                    run.fail(case, f'reader raised {type(ex).__name__}: {ex}', signature=dict(kind='raises'))
                    continue
                run.evaluations += 1
                run.hist['rotated sources'] += 1
                run.nontrivial.add(('rot', k))
                cover = np.zeros(shp, dtype=int)
                far = None
                for bp in bps:
                    w = bp.src_out_block
                    r0, r1 = max(int(w.row_off), 0), min(int(w.row_off + w.height), shp[0])
                    c0, c1 = max(int(w.col_off), 0), min(int(w.col_off + w.width), shp[1])
                    if r1 > r0 and c1 > c0:
                        cover[r0:r1, c0:c1] += 1
                    # same ground: the corners of the paired output windows are within one pixel of the coarser grid of each other
                    so, ro = bp.src_out_block, bp.ref_out_block
                    tol = max(abs(t_s.a), abs(t_r.a)) * 1.01 + abs(t_s.b) * shp[0]
                    for (cs, rs), (cr, rr) in (((so.col_off, so.row_off), (ro.col_off, ro.row_off)),
                                               ((so.col_off + so.width, so.row_off + so.height), (ro.col_off + ro.width, ro.row_off + ro.height))):
                        gs, gr = t_s * (cs, rs), t_r * (cr, rr)
                        if max(abs(gs[0] - gr[0]), abs(gs[1] - gr[1])) > tol:
                            far = (gs, gr)
                ngap, ndbl = int((cover == 0).sum()), int((cover > 1).sum())
                if ngap or ndbl or far or t_s.b != 0 or t_s.d != 0:
                    run.fail(case, f'rotated source ({crs.to_string()}, {px} units/pixel, {ang} deg, proc {proc}): {ngap} pixels of the '
                             f'processed source {shp} in no output window, {ndbl} in more than one'
                             + (f'; paired output windows {far[0]} vs {far[1]} are more than a pixel apart on the ground' if far else '')
                             + ('' if t_s.b == 0 and t_s.d == 0 else '; the processed source is not north-up'),
                             signature=dict(kind='rotated-cover'))
