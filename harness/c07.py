"""
C07 - radiometric scale laws: source gain irrelevant, reference scale carries through.

Triples of real fusions (base, source x a, reference x c).  With a, c powers of two every float operation of the
pipeline commutes exactly with the scaling, so corrected pixels, parameter bands, masks and R2 must be *bit-identical*
after the exact rescale (corr(a src) == corr(src); corr(c ref) == c corr(src); gain -> gain c / a; offset -> c offset;
R2, masks unchanged).  A second stream uses factors such as 0.37 and 113 under a relative tolerance (models without a
threshold decision).  Leg 2: the per-block law is also checked against the Lean model: `fit` on scaled inputs must be
the scaled `fit`, via the model's own `scalefit` op.
"""
from fractions import Fraction

import numpy as np

import common
import fusion
import rasters

MODELS = ['gain', 'gain-blk-offset', 'gain-offset']


def gen_case(run, i):
    rng = run.rng(i)
    family = rng.choice(['dyadic', 'dyadic', 'decimal'])
    # stratified over (model, processing grid, source nodata encoding): every combination within 24 consecutive cases
    model = MODELS[i % 3]
    want_src_grid = (i // 3) % 2 == 1
    # (-9999.9: a float64 file whose nodata value is no float32 number - the blocks are read as float32)
    src_nodata = ['nan', -9999.0, 'mask', -9999.9][(i // 6) % 4]
    proc = rng.choice(['auto', 'src']) if want_src_grid else rng.choice(['auto', 'auto', 'ref'])
    src, ref = rasters.pair_geometry(rng, family, proc, max_src=28, margin=(1, 3))
    if proc == 'auto' and want_src_grid != (src.px > ref.px) and src.px != ref.px:
        proc = 'src' if want_src_grid else 'ref'
    pow2 = rng.random() < 0.75
    if pow2:
        a, c = 2.0 ** rng.randint(-3, 4), 2.0 ** rng.randint(-3, 4)
        if i % 6 == 5:
            # extreme (still exact) factors: data in units a million times smaller / larger
            a, c = 2.0 ** rng.choice([-20, -18, 18, 20]), 2.0 ** rng.choice([-20, 17, 20])
        thresh = rng.choice([None, 0.25, 0.25, 0.6]) if model == 'gain-offset' else 0.25
    else:
        a, c = rng.choice([0.37, 113.0, 3.0, 0.01]), rng.choice([0.37, 113.0, 7.0, 0.05])
        thresh = None
    return dict(i=i, family=family, proc=proc, src=src.to_dict(), ref=ref.to_dict(), model=model,
                kernel=rng.choice([(1, 1), (3, 3), (3, 5), (5, 3), (5, 5), (7, 3)]) if model != 'gain-offset'
                else rng.choice([(3, 3), (3, 5), (5, 5), (5, 7)]),
                halvings=rng.choice([0, 0, 2, 3, 4]), a=a, c=c, pow2=pow2, thresh=thresh, nb=rng.choice([1, 1, 2]),
                holes=(src_nodata != 'nan') or rng.random() < 0.5, threads=rng.choice([1, 2]),
                src_nodata=src_nodata,
                ref_nodata=rng.choice(['nan', 'nan', -9999.0]))


def make_data(case, rng):
    src, ref = rasters.Grid.from_dict(case['src']), rasters.Grid.from_dict(case['ref'])
    nb = case['nb']
    s = np.array([[[rng.randint(20, 200) for _ in range(src.w)] for _ in range(src.h)] for _ in range(nb)], float)
    r = np.array([[[rng.randint(30, 150) + 0.25 * rng.randint(0, 3) for _ in range(ref.w)] for _ in range(ref.h)]
                  for _ in range(nb)], float)
    sv = np.ones((src.h, src.w), bool)
    rv = np.ones((ref.h, ref.w), bool)
    if case['holes']:
        for _ in range(rng.randint(1, 5)):
            sv[rng.randrange(src.h), rng.randrange(src.w)] = False
        if rng.random() < 0.5:
            rv[rng.randrange(ref.h), rng.randrange(ref.w)] = False
        sv[0, :] = rng.random() < 0.5
    # near-collisions with a numeric nodata value: a valid pixel whose *scaled* value lies within a few 1e-6 (relative) of the
    # nodata value without being equal to it must stay a valid pixel (power-of-two factors keep the scaling exact)
    if case['pow2'] and case['src_nodata'] == -9999.0 and case['a'] != 1:
        rr, cc = [(r_, c_) for r_ in range(src.h) for c_ in range(src.w) if sv[r_, c_]][src.w + 1 if sv.sum() > src.w + 1 else 0]
        s[:, rr, cc] = -9999.05 / case['a']
    if case['pow2'] and case['ref_nodata'] == -9999.0 and case['c'] != 1:
        rr, cc = [(r_, c_) for r_ in range(ref.h) for c_ in range(ref.w) if rv[r_, c_]][ref.w + 1]
        r[:, rr, cc] = -9999.05 / case['c']
    return src, ref, s, r, sv, rv


def run(run: common.Run):
    n = 36 if run.quick() else 540
    run.rule = ('triples of real fusions (base, source x a, reference x c) on random images with holes; a, c = 2^-3..2^4 '
                '(bit-identity required) or 0.37/113/... (relative tolerance 2e-4, no threshold decisions); three models, '
                'in-paint thresholds None/0.25/0.6, 1..16 blocks, both processing grids, 1-2 bands, 1-2 threads; non-trivial = '
                'a != 1 or c != 1; distinct by (geometry, model, kernel, a, c, blocks)')
    tmp = run.tmpdir()
    for i in run.indices(n):
        case = gen_case(run, i)
        rng = run.rng(f'{i}-data')
        src, ref, s, r, sv, rv = make_data(case, rng)
        a, c = case['a'], case['c']
        proc_ref_guess = (case['proc'] == 'ref') or (case['proc'] == 'auto' and src.px <= ref.px)
        mc = dict(r2_inpaint_thresh=case['thresh'])
        outs = {}
        try:
            for tag, (fs, fr) in dict(base=(1.0, 1.0), srcx=(a, 1.0), refx=(1.0, c)).items():
                # every fourth case stores the rescaled copies as float64 while the originals are float32 (what numpy makes of
                # `uint8 * 0.5`): the law is about the values, not about the data type of the file they are stored in
                wide = case['src_nodata'] == -9999.9 or (i % 4 == 2 and tag != 'base')
                pair = fusion.write_pair(tmp, f'c07_{tag}', src, ref, s * fs, r * fr, sv, rv,
                                         src_nodata=case['src_nodata'], ref_nodata=case['ref_nodata'],
                                         dtype='float64' if wide else 'float32')
                outs[tag], case['halvings'] = fusion.run_fuse_blocks(
                    case['halvings'], src, ref, proc_ref_guess, pair.src_path, pair.ref_path, tmp / f'c07_{tag}_out.tif',
                    model=case['model'], kernel_shape=case['kernel'], proc_crs=case['proc'], param=True,
                    threads=case['threads'], model_config=mc)
        except Exception as ex:
            from homonim.errors import BlockSizeError
            if isinstance(ex, BlockSizeError):
                run.hist['block-size-error'] += 1
                continue
            run.fail(case, f'fusion raised {type(ex).__name__}: {ex}', signature=dict(kind='raises'))
            continue
        run.evaluations += 1
        run.hist[f"model={case['model']}"] += 1
        run.hist[f"source nodata={case['src_nodata']}"] += 1
        run.hist['power-of-two factors' if case['pow2'] else 'general factors'] += 1
        run.hist[f"proc={outs['base'].proc_crs}"] += 1
        run.hist['blocks>1' if case['halvings'] else 'blocks=1'] += 1
        run.hist['rescaled copies stored as float64, originals as float32'] += int(i % 4 == 2 and case['src_nodata'] != -9999.9)
        if a != 1 or c != 1:
            run.nontrivial.add((str(case['src']), case['model'], tuple(case['kernel']), a, c, case['halvings']))
        b, sx, rx = outs['base'], outs['srcx'], outs['refx']
        nbp = b.param.shape[0] // 3

        def expect(res, ga, oc, cc):
            """expected (corr, param) of a scaled run from the base run"""
            corr = (b.corr * np.float32(cc)).astype('float32')
            par = b.param.copy()
            par[:nbp] *= np.float32(ga)
            par[nbp:2 * nbp] *= np.float32(oc)
            return corr, par

        for tag, res, (ga, oc, cc) in (('source x a', sx, (1 / a, 1.0, 1.0)), ('reference x c', rx, (c, c, c))):
            ecorr, epar = expect(res, ga, oc, cc)
            # (the R2 of a one-pixel kernel is 1 - x/0: nan or +-inf by float noise, neither a value nor a validity to compare)
            pm = slice(None) if case['kernel'][0] * case['kernel'][1] > 1 else slice(0, 2 * nbp)
            if not np.array_equal(res.corr_mask, b.corr_mask) or not np.array_equal(res.param_masks[pm], b.param_masks[pm]):
                run.fail(case, f'{tag}: validity masks changed', signature=dict(kind='mask-changed'))
                continue
            if case['pow2']:
                okc = fusion.bytes_equal(res.corr, ecorr)
                okp = fusion.bytes_equal(res.param, epar)
                if not okc or not okp:
                    d = np.nanmax(np.abs(res.corr - ecorr)) if not okc else 0
                    run.fail(case, f'{tag} (factor {a if tag[0] == "s" else c}): ' +
                             ('corrected image' if not okc else 'parameter image') +
                             f' is not bit-identical after the exact rescale (max abs diff {d})',
                             signature=dict(kind='scale-law-exact', which=tag))
            else:
                m = b.corr_mask
                # relative to the value, but not below 1 % of the image's typical magnitude: a corrected value near zero is the
                # float32 difference of gain * source and an offset a thousand times larger, its error is theirs
                floor = max(1e-6, 1e-2 * float(np.nanmedian(np.abs(ecorr[:, m])))) if m.any() else 1e-6
                rel = np.nanmax(np.abs(res.corr[:, m] - ecorr[:, m]) / np.maximum(np.abs(ecorr[:, m]), floor)) if m.any() else 0
                r2b, r2r = b.param[2 * nbp:], res.param[2 * nbp:]
                # R2 is a float32 cancellation-prone expansion (and can be -500 for a poor gain-only fit): loose for general
                # factors, relative to max(1, |R2|)
                dr2 = np.nanmax(np.abs(r2b - r2r) / np.maximum(1.0, np.abs(r2b))) if np.isfinite(r2b).any() else 0
                if case['kernel'][0] * case['kernel'][1] == 1:
                    dr2 = 0  # a one-pixel kernel has zero reference variance: R2 = 1 - x/0 is float noise, not a result
                # gain-offset solves a 2x2 system by float32 differences of sums, gain-blk-offset normalises with a float32 std and
                # percentile: their budget for factors that are no powers of two is that of C01's second-order quantities (1e-3)
                budget = 2e-4 if case['model'] == 'gain' else 1e-3
                if rel > budget and dr2 <= 5e-2 and m.any():
                    # A factor that is no power of two re-rounds every pixel of the scaled image in its last bit.  Where the fit is
                    # ill-conditioned (a corner window of a few pixels, a nearly flat window) that alone moves the result by more
                    # than the budget.  Measure it: the base fusion again with the last bit of the scaled image's pixels disturbed
                    # at random, twice; a pixel fails only if it is off by more than the budget plus twenty times what that
                    # disturbance does to it.
                    noise = np.zeros(b.corr.shape, 'float64')
                    stable = np.ones(b.corr.shape[1:], bool)
                    for rep in range(2):
                        prng = np.random.default_rng([run.seed, i, rep])
                        ds_ = 1 + prng.choice([-1.0, 1.0], size=s.shape) * 2.0 ** -23
                        dr_ = 1 + prng.choice([-1.0, 1.0], size=r.shape) * 2.0 ** -23
                        ps_, pr_ = (s * ds_, r) if tag[0] == 's' else (s, r * dr_)
                        ppair = fusion.write_pair(tmp, 'c07_noise', src, ref, ps_, pr_, sv, rv, src_nodata=case['src_nodata'],
                                                  ref_nodata=case['ref_nodata'], dtype='float64' if case['src_nodata'] == -9999.9 else 'float32')
                        pres, _ = fusion.run_fuse_blocks(case['halvings'], src, ref, proc_ref_guess, ppair.src_path, ppair.ref_path,
                                                         tmp / 'c07_noise_out.tif', model=case['model'], kernel_shape=case['kernel'],
                                                         proc_crs=case['proc'], param=True, threads=case['threads'], model_config=mc)
                        stable &= pres.corr_mask == b.corr_mask
                        noise = np.maximum(noise, np.nan_to_num(np.abs(pres.corr.astype('float64') - b.corr), nan=0.0, posinf=0.0))
                    dev = np.abs(res.corr.astype('float64') - ecorr)
                    allow = budget * np.maximum(np.abs(ecorr), floor) + 20 * noise * abs(cc)
                    over = (dev > allow) & m[None] & stable[None]
                    run.hist['scale law: pixels over budget explained by last-bit noise of the input'] += int(((dev > budget * np.maximum(np.abs(ecorr), floor)) & m[None]).sum() - over.sum())
                    if not over.any():
                        rel = 0
                    else:
                        rel = float(np.nanmax(np.where(over, dev / np.maximum(np.abs(ecorr), floor), 0)))
                if rel > budget or dr2 > 5e-2:
                    run.fail(case, f'{tag}: corrected differs by rel {rel:.2e}, R2 by {dr2:.2e} from the scale law',
                             signature=dict(kind='scale-law-tol', which=tag))
        run.sample(dict(case={k: case[k] for k in ('i', 'model', 'kernel', 'a', 'c', 'halvings', 'proc', 'thresh')},
                        corr_shape=list(b.corr.shape), bit_identical=case['pow2']), 4)
    model_scale_lines(run)


def model_scale_lines(run):
    """
    leg 2: the real KernelModel.fit on power-of-two scaled blocks against the Lean model's fit of the *unscaled* block
    rescaled by the law (theorems fit*_scale): gains bit-identical to float32(model gain * c / a) where the gain is one
    division of exact sums, masks exact, other numbers within the C01 budgets.
    """
    import c01
    lines, cases, impls = [], [], []
    for i in range(60 if run.quick() else 600):
        case = c01.gen_case(run, 10_000 + i)
        rng = run.rng(f'scale{i}')
        a, c = 2.0 ** rng.randint(-3, 4), 2.0 ** rng.randint(-3, 4)
        case['i'] = 20_000 + i
        case['a'], case['c'] = a, c
        try:
            params, norm = c01.impl_fit(case, a, c)
            params0, norm0 = c01.impl_fit(case)
        except Exception as ex:
            run.fail(case, f'fit raised {type(ex).__name__}: {ex}', signature=dict(kind='fit-raises'))
            continue
        if norm0 is not None and not (np.all(np.isfinite(norm0)) and norm0[0] != 0):
            continue
        run.evaluations += 1
        # un-scale the code's result by the law (exact for powers of two), then compare with the model of the base block
        un = params.copy()
        un[0] *= np.float32(a / c)
        un[1] *= np.float32(1 / c)
        if not (fusion.bytes_equal(un[:2], params0[:2]) and
                (params.shape[0] < 3 or fusion.bytes_equal(params[2], params0[2]))):
            run.fail(case, f'KernelModel.fit: fit({a} src, {c} ref) is not the rescaled fit(src, ref) bit for bit',
                     signature=dict(kind='fit-scale-law'))
            continue
        lines.append(c01.model_line(case, params0, norm0))
        cases.append(case)
        impls.append(un)
    replies = common.model_batch(lines)
    if replies is None:
        run.model_available = False
        return
    for case, line, rep, un in zip(cases, lines, replies, impls):
        run.lines_compared += 1
        bad = c01.compare_model(run, case, rep, un)
        if bad:
            run.disagree(case, line[:200], bad[1], bad[2], what='scaled fit, un-scaled by the law, vs model: ' + bad[0])
    run.hist['scaled block fits compared with the model'] = len(lines)
