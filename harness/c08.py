"""
C08 - invalid pixels never influence any result, however the mask is encoded.

One logical image (values + validity) is written in several encodings with several hidden values under the invalid
pixels, independently for source and reference:
  float32 : NaN nodata | numeric nodata (-9999 / 3e38) | internal mask with hidden {0, 3.4e38, -1e30, NaN, random}
  uint8/16: nodata 0 | internal mask with hidden {0, 255, random} | alpha band (1 or 3 data bands) with hidden values
Real fusion (3 models, 1..many blocks, both grids), its parameter image, and RasterCompare statistics must be
bit-identical across all encodings / hidden values of the same logical pair.
Leg 2: the read decision logic (`readpx` op of the model: is_masked / nodata selection / NaN equality) against
RasterArray.from_rio_dataset on the same files.
"""
import numpy as np
import rasterio as rio

import common
import fusion
import rasters

MODELS = ['gain', 'gain-blk-offset', 'gain-offset']
OUTS = [None, dict(dtype='uint16', nodata=65535), None, dict(dtype='int16', nodata=-32768), dict(dtype='float32', nodata=-9999.0),
        dict(dtype='uint8', nodata=0)]


def encodings(dtype):
    if dtype == 'float32':
        return [('nan', None), (-9999.0, None), ('mask', 0.0), ('mask', 3.4e38), ('mask', -1e30), ('mask', float('nan')),
                ('mask', 'random'), (3.0e38, None), ('masktag', 'random'), ('masktag', -9999.0), ('sidecar', 'random'), ('sidecar', 3.4e38), ('ndvalues', None),
                # float64 files whose nodata value is no float32 number (incl. the float64 minimum, a common default)
                ('f64:0.1', None), ('f64:-1e30', None), ('f64:-1.7976931348623157e308', None)]
    return [(0, None), ('mask', 0), ('mask', 255), ('mask', 'random'), ('alpha', 0), ('alpha', 255), ('alpha', 'random'),
            ('masktag', 255), ('masktag', 'random'), ('alphapart', 0), ('alphapart', 'random'), ('sidecar', 255), ('sidecar', 'random'), ('ndvalues', None)]


def write_encoded(path, grid, arr, valid, dtype, enc, hidden, rng, south_up=False):
    a = arr.astype('float64').copy()
    nb = a.shape[0]
    if hidden == 'random':
        hv = np.array([[rng.randint(1, 250) for _ in range(grid.w)] for _ in range(grid.h)], float)
    elif hidden is None:
        hv = None
    else:
        hv = np.full((grid.h, grid.w), hidden, float)
    if isinstance(enc, str) and enc.startswith('f64:'):
        nd = float(enc[4:])
        a[:, ~valid] = nd
        rasters.write_tif(path, grid, a, dtype='float64', nodata=nd, south_up=south_up)
    elif enc == 'nan':
        a[:, ~valid] = np.nan
        rasters.write_tif(path, grid, a, dtype=dtype, nodata=float('nan'), south_up=south_up)
    elif enc == 'mask':
        for b in range(nb):
            a[b][~valid] = hv[~valid]
        rasters.write_tif(path, grid, a, dtype=dtype, nodata=None, mask=valid, south_up=south_up)
    elif enc == 'masktag':
        # an internal mask band *and* a nodata tag: the mask band decides, the tag value is just a number
        for b in range(nb):
            a[b][~valid] = hv[~valid]
        rasters.write_tif(path, grid, a, dtype=dtype, nodata=-9999.0 if dtype == 'float32' else 255, mask=valid, south_up=south_up)
    elif enc == 'ndvalues':
        # the dataset metadata item NODATA_VALUES: a pixel is invalid where every band holds its value
        a[:, ~valid] = 0.0
        rasters.write_tif(path, grid, a, dtype=dtype, nodata=None, tags=dict(NODATA_VALUES=' '.join(['0'] * nb)), south_up=south_up)
    elif enc == 'sidecar':
        # the mask as a side-car file <name>.tif.msk
        for b in range(nb):
            a[b][~valid] = hv[~valid]
        rasters.write_tif(path, grid, a, dtype=dtype, nodata=None, mask=valid, south_up=south_up, internal_mask=False)
    elif enc == 'alphapart':
        # semi-transparent valid pixels: any non-zero alpha is a valid pixel
        for b in range(nb):
            a[b][~valid] = hv[~valid]
        pat = np.array([255, 128, 1, 254, 200, 255, 17])
        av = np.where(valid, pat[(np.add.outer(np.arange(grid.h), 3 * np.arange(grid.w))) % len(pat)], 0)
        rasters.write_tif(path, grid, a, dtype=dtype, nodata=None, alpha=av, south_up=south_up)
    elif enc == 'alpha':
        for b in range(nb):
            a[b][~valid] = hv[~valid]
        rasters.write_tif(path, grid, a, dtype=dtype, nodata=None, alpha=valid, south_up=south_up)
    else:
        a[:, ~valid] = enc
        rasters.write_tif(path, grid, a, dtype=dtype, nodata=enc, south_up=south_up)


def gen_case(run, i):
    rng = run.rng(i)
    model = MODELS[i % 3]
    want_src_grid = (i // 3) % 2 == 1
    dtype = ['float32', 'float32', 'uint8'][(i // 6) % 3]
    family = rng.choice(['dyadic', 'dyadic', 'decimal'])
    proc = rng.choice(['auto', 'src']) if want_src_grid else rng.choice(['auto', 'auto', 'ref'])
    src, ref = rasters.pair_geometry(rng, family, proc, max_src=26, margin=(1, 3))
    if proc == 'auto' and want_src_grid != (src.px > ref.px) and src.px != ref.px:
        proc = 'src' if want_src_grid else 'ref'
    nb = rng.choice([1, 3]) if dtype != 'float32' else rng.choice([1, 2])
    return dict(i=i, family=family, proc=proc, src=src.to_dict(), ref=ref.to_dict(), model=model, dtype=dtype, nb=nb,
                kernel=rng.choice([(1, 1), (3, 3), (3, 5), (5, 5)]) if model != 'gain-offset' else rng.choice([(3, 3), (5, 3), (5, 5)]),
                halvings=rng.choice([0, 2, 3, 4]), threads=rng.choice([1, 2]), thresh=rng.choice([0.25, None]),
                # output encoding: default float32/NaN, integer types with a non-zero nodata value, float with numeric nodata
                out=OUTS[(i // 2 + i // 6) % len(OUTS)])


def holes(rng, h, w):
    v = np.ones((h, w), bool)
    for _ in range(rng.randint(2, 6)):
        r, c = rng.randrange(h), rng.randrange(w)
        v[r:r + rng.randint(1, 3), c:c + rng.randint(1, 3)] = False
    v[:, :rng.randint(0, 2)] = False
    if v.sum() < 6:
        v[:] = True
        v[0, 0] = False
    return v


def run(run: common.Run):
    from homonim import RasterCompare
    from homonim.errors import BlockSizeError
    import warnings
    n = 18 if run.quick() else 300
    run.rule = ('logical source/reference pairs with holes, each written in 3-4 encodings x hidden values (float32: NaN / numeric '
                'nodata / internal mask with hidden 0, 3.4e38, -1e30, NaN, random; uint8: nodata 0 / internal mask / alpha band with '
                'hidden 0, 255, random); stratified over model x processing grid x dtype; outputs of fuse (corrected + parameter '
                'image) and compare must be bit-identical to the first encoding; non-trivial = encoding or hidden value differs from '
                'the base; distinct by (pair, source encoding, reference encoding)')
    tmp = run.tmpdir()
    for i in run.indices(n):
        case = gen_case(run, i)
        rng = run.rng(f'{i}-data')
        src, ref = rasters.Grid.from_dict(case['src']), rasters.Grid.from_dict(case['ref'])
        nb, dtype = case['nb'], case['dtype']
        s = np.array([[[rng.randint(20, 200) for _ in range(src.w)] for _ in range(src.h)] for _ in range(nb)], float)
        r = np.array([[[rng.randint(30, 150) for _ in range(ref.w)] for _ in range(ref.h)] for _ in range(nb)], float)
        sv, rv = holes(rng, src.h, src.w), holes(rng, ref.h, ref.w)
        if i % 4 == 1 and src.h >= 12:
            # a large invalid area (the empty part of a mosaic tile): with small blocks some blocks' read windows lie wholly in it
            sv[: (2 * src.h) // 3, :] = False
            case['halvings'] = max(case['halvings'], 3)
            run.hist['source with an invalid area larger than a block'] += 1
        if dtype == 'float32':
            # a valid pixel within 5e-6 (relative) of the numeric nodata value -9999 of some encodings, but not equal to it, is a
            # valid pixel in every encoding
            for arr, v in ((s, sv), (r, rv)):
                rr, cc = np.argwhere(v)[len(np.argwhere(v)) // 2]
                arr[:, rr, cc] = -9999.05
        encs = encodings(dtype)
        if dtype != 'float32' and nb not in (1, 3):
            encs = [e for e in encs if e[0] not in ('alpha', 'alphapart')]
        # always: the base encoding and the second one (numeric nodata for float32, internal mask for uint8); the others sampled
        picks = encs[:2] + rng.sample(encs[2:], 3 if run.quick() else min(5, len(encs) - 2))
        proc_ref = (case['proc'] == 'ref') or (case['proc'] == 'auto' and src.px <= ref.px)
        base = None
        for k, (enc_s, hid_s) in enumerate(picks):
            enc_r, hid_r = picks[(k * 2) % len(picks)] if k else picks[0]
            sp, rp = tmp / f'c08_s{k}.tif', tmp / f'c08_r{k}.tif'
            write_encoded(sp, src, s, sv, dtype, enc_s, hid_s, rng)
            write_encoded(rp, ref, r, rv, dtype, enc_r, hid_r, rng)
            sub = dict(case, src_encoding=(enc_s, hid_s), ref_encoding=(enc_r, hid_r))
            try:
                res, hv = fusion.run_fuse_blocks(
                    case['halvings'], src, ref, proc_ref, sp, rp, tmp / f'c08_o{k}.tif', model=case['model'],
                    kernel_shape=case['kernel'], proc_crs=case['proc'], param=True, threads=case['threads'],
                    model_config=dict(r2_inpaint_thresh=case['thresh']), out_profile=case['out'])
                with warnings.catch_warnings():
                    warnings.simplefilter('ignore')
                    with RasterCompare(sp, rp, proc_crs=case['proc']) as cmp:
                        stats = cmp.process(threads=1, max_block_mem=100)
            except BlockSizeError:
                run.hist['processing window smaller than the overlap: skipped'] += 1
                break
            except Exception as ex:
                run.fail(sub, f'raised {type(ex).__name__}: {ex}', signature=dict(kind='raises'))
                break
            run.evaluations += 1
            run.hist[f'src encoding={enc_s}'] += 1
            run.hist[f"output={'default' if not case['out'] else case['out']['dtype'] + '/' + str(case['out']['nodata'])}"] += 1
            run.hist[f"model={case['model']} proc={res.proc_crs}"] += 1
            cur = (res.corr, res.corr_mask, res.param, res.param_masks,
                   {k_: (v['n'], np.float64(v['r2']).tobytes(), np.float64(v['rmse']).tobytes()) for k_, v in stats.items()})
            if base is None:
                base = cur
                run.sample(dict(case={k_: case[k_] for k_ in ('i', 'model', 'kernel', 'dtype', 'nb', 'halvings', 'proc')},
                                encodings=[str(p) for p in picks]), 3)
                continue
            run.nontrivial.add((case['i'], str(enc_s), str(hid_s), str(enc_r), str(hid_r)))
            names = ('corrected pixels', 'corrected mask', 'parameter image', 'parameter masks')
            bad = [nm for nm, a, b in zip(names, cur[:4], base[:4]) if not fusion.bytes_equal(a, b)]
            if cur[4] != base[4]:
                bad.append('comparison statistics')
            if bad:
                run.fail(sub, f'{", ".join(bad)} differ from the base encoding {picks[0]} although the logical images are the '
                         f'same (source encoded {enc_s} hidden {hid_s}; reference {enc_r} hidden {hid_r})',
                         signature=dict(kind='encoding-dependence', what=bad[0]))
    rewrite_leg(run, tmp)
    orientation_leg(run, tmp)
    partial_mask_leg(run, tmp)
    read_logic(run, tmp)


def partial_mask_leg(run, tmp):
    """
    Partial masking on a much coarser reference (one reference pixel covers 40 x 40 source pixels), isolated invalid source
    pixels: the same logical source encoded with NaN nodata, a numeric nodata value, an internal mask and a side-car mask gives
    identical corrected images - in particular no encoding lets the number stored under an invalid pixel through.
    """
    u = 8
    ref = rasters.Grid(u * 4000, u * 9000, 40 * u, 40 * u, 9, 9)
    src = rasters.Grid(ref.x0 + 40 * u, ref.ytop - 40 * u, u, u, 240, 240)
    rng = run.rng('partial-mask-enc')
    s = np.array([[[rng.randint(20, 200) for _ in range(src.w)] for _ in range(src.h)]], float)
    r = np.array([[[rng.randint(30, 150) for _ in range(ref.w)] for _ in range(ref.h)]], float)
    sv = np.ones((src.h, src.w), bool)
    for (rr, cc) in ((123, 107), (61, 190), (170, 55)):
        sv[rr, cc] = False
    rv = np.ones((ref.h, ref.w), bool)
    base = None
    for k, (enc, hid) in enumerate((('nan', None), (-9999.0, None), ('mask', 3.4e38), ('sidecar', 'random'), ('masktag', -9999.0))):
        sp, rp = tmp / 'c08_pm_s.tif', tmp / 'c08_pm_r.tif'
        write_encoded(sp, src, s, sv, 'float32', enc, hid, rng)
        write_encoded(rp, ref, r, rv, 'float32', 'nan', None, rng)
        case = dict(i=890_000 + k, op='partial masking, coarse reference', src_encoding=[str(enc), str(hid)], ratio=40)
        try:
            res = fusion.run_fuse(sp, rp, tmp / 'c08_pm_o.tif', model='gain', kernel_shape=(1, 1), param=False, threads=1,
                                  model_config=dict(mask_partial=True))
        except Exception as ex:
            run.fail(case, f'raised {type(ex).__name__}: {ex}', signature=dict(kind='raises'))
            continue
        run.evaluations += 1
        run.hist['partial masking on a 40:1 reference, by encoding'] += 1
        cur = (res.corr, res.corr_mask)
        if base is None:
            base = cur
            continue
        run.nontrivial.add(('pm-enc', k))
        if not all(fusion.bytes_equal(a, b) for a, b in zip(cur, base)):
            d = np.argwhere(~((cur[0][0] == base[0][0]) | (np.isnan(cur[0][0]) & np.isnan(base[0][0]))))
            run.fail(case, f'corrected image with the source encoded as {enc} differs from the NaN-nodata encoding at {len(d)} pixels, e.g. '
                     f'{d[0].tolist() if len(d) else "mask only"}: {float(cur[0][0][tuple(d[0])]) if len(d) else ""} vs '
                     f'{float(base[0][0][tuple(d[0])]) if len(d) else ""}', signature=dict(kind='encoding-dependence', what='partial mask'))


def orientation_leg(run, tmp):
    """
    Mask encodings x storage orientation: the same logical pair with the source, or the reference, stored south-up (homonim
    then reads it through a north-up WarpedVRT) in every encoding; results must equal those of the north-up NaN-nodata pair
    bit for bit (dyadic grids with power-of-two pixel sizes: the flipped transform is exact).
    """
    import warnings
    from homonim import RasterCompare
    from homonim.errors import BlockSizeError
    pow2 = lambda n: n > 0 and n & (n - 1) == 0
    n = 3 if run.quick() else 24
    for k in range(n):
        rng = run.rng(f'orient{k}')
        for _ in range(200):
            src, ref = rasters.pair_geometry(rng, 'dyadic', 'auto', max_src=22, margin=(1, 3))
            if pow2(src.px) and pow2(ref.px) and min(src.w, src.h) * src.px >= 6 * max(src.px, ref.px):
                break
        else:
            continue
        dtype = ['float32', 'uint8'][k % 2]
        nb = 1 if dtype == 'float32' else rng.choice([1, 3])
        model = MODELS[k % 3]
        s = np.array([[[rng.randint(20, 200) for _ in range(src.w)] for _ in range(src.h)] for _ in range(nb)], float)
        r = np.array([[[rng.randint(30, 150) for _ in range(ref.w)] for _ in range(ref.h)] for _ in range(nb)], float)
        sv, rv = holes(rng, src.h, src.w), holes(rng, ref.h, ref.w)
        encs = [('nan', None), (-9999.0, None), ('mask', 0.0), ('mask', 'random')] if dtype == 'float32' else \
            [(0, None), ('mask', 255), ('mask', 'random'), ('alpha', 0), ('alpha', 'random')]
        base = None
        variants = [(encs[0], False, encs[0], False)] + [(e, True, encs[0], False) for e in encs] + [(encs[0], False, e, True) for e in encs]
        for (enc_s, su_s, enc_r, su_r) in variants:
            case = dict(i=880_000 + k, op='orientation x encoding', model=model, dtype=dtype, nb=nb, src=src.to_dict(), ref=ref.to_dict(),
                        src_encoding=[str(x) for x in enc_s], src_south_up=su_s, ref_encoding=[str(x) for x in enc_r], ref_south_up=su_r)
            sp, rp = tmp / 'c08_os.tif', tmp / 'c08_or.tif'
            write_encoded(sp, src, s, sv, dtype, enc_s[0], enc_s[1], rng, south_up=su_s)
            write_encoded(rp, ref, r, rv, dtype, enc_r[0], enc_r[1], rng, south_up=su_r)
            try:
                res = fusion.run_fuse(sp, rp, tmp / 'c08_oo.tif', model=model, kernel_shape=(3, 3), param=True, threads=1)
                with warnings.catch_warnings():
                    warnings.simplefilter('ignore')
                    with RasterCompare(sp, rp) as cmp:
                        stats = cmp.process(threads=1, max_block_mem=100)
            except BlockSizeError:
                run.hist['processing window smaller than the overlap: skipped'] += 1
                break
            except Exception as ex:
                run.fail(case, f'raised {type(ex).__name__}: {ex}', signature=dict(kind='raises'))
                continue
            run.evaluations += 1
            run.hist[f"orientation leg: {'source' if su_s else 'reference' if su_r else 'neither'} south-up, encoding={(enc_s if su_s else enc_r)[0]}"] += 1
            cur = (res.corr, res.corr_mask, res.param, res.param_masks,
                   {k_: (v['n'], np.float64(v['r2']).tobytes(), np.float64(v['rmse']).tobytes()) for k_, v in stats.items()})
            if base is None:
                base = cur
                continue
            run.nontrivial.add(('orient', k, str(enc_s), su_s, str(enc_r), su_r))
            names = ('corrected pixels', 'corrected mask', 'parameter image', 'parameter masks')
            bad = [nm for nm, a, b in zip(names, cur[:4], base[:4]) if not fusion.bytes_equal(a, b)]
            if cur[4] != base[4]:
                bad.append('comparison statistics')
            if bad:
                enc = (enc_s if su_s else enc_r)[0]
                run.fail(case, f'{", ".join(bad)} differ from the north-up {encs[0][0]}-nodata pair although the logical images are the same '
                         f'({"source" if su_s else "reference"} stored south-up, validity encoded as {enc})',
                         signature=dict(kind='encoding-dependence-warped', encoding='internal-mask' if enc == 'mask' else str(enc)))


def rewrite_leg(run, tmp):
    """
    The same logical pair written to the SAME paths first with a nodata value, then with an internal mask / alpha band over
    arbitrary hidden values (and back), processed in one process each time: the results must not remember what the path held
    before (nothing about a file's encoding may be cached across opens).
    """
    for k, dtype in enumerate(['float32', 'uint8']):
        rng = run.rng(f'rewrite{k}')
        src, ref = rasters.pair_geometry(rng, 'dyadic', 'auto', max_src=22, margin=(1, 2))
        while min(src.w, src.h) * src.px < 6 * max(src.px, ref.px):      # (the processing window must hold the 3 x 3 kernel's overlap)
            src, ref = rasters.pair_geometry(rng, 'dyadic', 'auto', max_src=22, margin=(1, 2))
        nb = 1
        s = np.array([[[rng.randint(20, 200) for _ in range(src.w)] for _ in range(src.h)]], float)
        r = np.array([[[rng.randint(30, 150) for _ in range(ref.w)] for _ in range(ref.h)]], float)
        sv, rv = holes(rng, src.h, src.w), holes(rng, ref.h, ref.w)
        seq = ([('nan', None), ('mask', 'random'), (-9999.0, None), ('mask', 3.4e38), ('nan', None)] if dtype == 'float32' else
               [(0, None), ('mask', 'random'), ('alpha', 255), (0, None), ('mask', 255)])
        sp, rp = tmp / 'c08_rw_s.tif', tmp / 'c08_rw_r.tif'
        base = None
        for step, (enc, hid) in enumerate(seq):
            write_encoded(sp, src, s, sv, dtype, enc, hid, rng)
            write_encoded(rp, ref, r, rv, dtype, enc, hid, rng)
            case = dict(i=4_000_000 + 10 * k + step, op='same path re-written', dtype=dtype, sequence=[str(e) for e in seq[:step + 1]])
            try:
                res = fusion.run_fuse(sp, rp, tmp / 'c08_rw_o.tif', model='gain-blk-offset', kernel_shape=(3, 3), param=True, threads=1)
            except Exception as ex:
                from homonim.errors import BlockSizeError
                if isinstance(ex, BlockSizeError):
                    run.hist['processing window smaller than the overlap: skipped'] += 1
                    break
                run.fail(case, f'raised {type(ex).__name__}: {ex}', signature=dict(kind='raises'))
                break
            run.evaluations += 1
            run.hist['re-written path runs'] += 1
            cur = (res.corr, res.corr_mask, res.param, res.param_masks)
            if base is None:
                base = cur
            elif not all(fusion.bytes_equal(a, b) for a, b in zip(cur, base)):
                run.fail(case, f'results changed after the same paths were re-written with encoding {enc} (hidden {hid}): the sequence '
                         f'of encodings a path has held must not matter', signature=dict(kind='encoding-dependence', what='rewrite'))
                break


def read_logic(run, tmp):
    """leg 2: from_rio_dataset's mask / nodata decision against the model's readpx"""
    from homonim.raster_array import RasterArray
    lines, impls, cases = [], [], []
    g = rasters.Grid(8 * 7000, 8 * 9000, 8, 8, 4, 3)
    arr = np.arange(1, 13, dtype=float).reshape(1, 3, 4)
    valid = np.ones((3, 4), bool)
    valid[1, 1] = valid[0, 3] = False
    rng = run.rng('readlogic')
    k = 0
    for dtype in ('float32', 'uint8'):
        for enc, hid in encodings(dtype):
            p = tmp / f'c08_rl{k}.tif'
            k += 1
            stored = arr.copy()
            write_encoded(p, g, stored, valid, dtype, enc, hid if hid != 'random' else 9, rng)
            with rio.Env(GDAL_TIFF_INTERNAL_MASK=True, GTIFF_FORCE_RGBA=False):
                with rio.open(p) as ds:
                    raw = ds.read(1).astype('float64')
                    maskbits = ds.dataset_mask().astype(bool)
                    ra = RasterArray.from_rio_dataset(ds, indexes=1)
                    is_masked = enc in ('mask', 'alpha', 'masktag', 'alphapart', 'sidecar', 'ndvalues')
                    nd = ds.nodata
            for r in range(3):
                for c in range(4):
                    sv = raw[r, c]
                    st = 'nan' if np.isnan(sv) else ('%d/1' % int(sv) if abs(sv) < 1e15 else '%d/1' % int(sv))
                    ndt = '_' if nd is None else ('nan' if np.isnan(nd) else '%d/1' % int(nd))
                    lines.append(f'readpx {int(is_masked)} {ndt} {st} {int(maskbits[r, c])}')
                    got = ra.array[r, c]
                    impls.append('_' if not ra.mask[r, c] else '%d' % int(got))
                    cases.append(dict(i=10**6 + len(cases), dtype=dtype, enc=str(enc), hidden=str(hid), px=(r, c)))
                    run.evaluations += 1
                    if ra.mask[r, c] != valid[r, c] or (valid[r, c] and got != arr[0, r, c]):
                        run.fail(cases[-1], f'from_rio_dataset: pixel {(r, c)} of encoding {enc}/{hid} read as '
                                 f'valid={bool(ra.mask[r, c])} value={got}', signature=dict(kind='read-logic'))
    run.compare_lines(cases, lines, impls)
    run.hist['read-logic pixels'] = len(lines)
