"""
C09 - fail loud: a failed block is never swallowed, and never hangs or leaks.

Fault enumeration on the real code through the interposed datasets / model hooks of harness/sched.py: for a 2-band
fusion split into blocks, every (site in {source read, reference read, fit, apply, corrected write, parameter write},
block) x threads in {1, 2, 4} gets one injected exception.  Each run must: raise in the caller (API) / exit non-zero
(CLI); terminate within the watchdog; leave all four datasets closed and all four locks free; and leave the reader
usable (a following fault-free process() on the same object gives the reference result).  Multi-threaded traces are
replayed through the Lean machine with the same fault plan (outcome raised, locks free, final, every other block
completed).  The analogues for compare (block read) and stats (read_masks / read) are enumerated too.
"""
import pathlib
import warnings

import numpy as np

import common
import fusion
import rasters
import sched as sc
import c04

SITES = ['ioS', 'ioR', 'fit', 'apply', 'ioC', 'ioP']


def run(run: common.Run):
    from homonim import RasterFuse, RasterCompare, ParamStats, utils, cli
    from homonim.enums import Model
    from homonim.errors import BlockSizeError
    from click.testing import CliRunner
    run.rule = ('every (fault site x block) x threads 1/2/4 of a 2-band multi-block fusion gets one injected exception (exhaustive for '
                'that image in the thorough tier, a seeded third of it in the quick tier); plus compare / stats / CLI fault cases; '
                'distinct by (site, block, threads)')
    tmp = run.tmpdir()
    rng = run.rng('pair')
    pair, src, ref = c04.make_pair(run, tmp, 'c09', rng)
    proc_ref = src.px <= ref.px
    ph, pw = fusion.proc_window_shape(src, ref, proc_ref)
    kernel, model = (3, 3), 'gain-blk-offset'
    hv = 2
    while True:
        mbm = fusion.block_mem_for(hv, ph, pw, src.px, ref.px, proc_ref)
        try:
            base = fusion.run_fuse(pair.src_path, pair.ref_path, tmp / 'c09_base.tif', model=model, kernel_shape=kernel, threads=1,
                                   max_block_mem=mbm, param=True)
            break
        except BlockSizeError:
            hv -= 1
    bsig = c04.result_sig(base)
    with warnings.catch_warnings():
        warnings.simplefilter('ignore')
        with RasterFuse(pair.src_path, pair.ref_path) as rf:
            njobs = len(list(rf.block_pairs(overlap=utils.overlap_for_kernel(kernel), max_block_mem=mbm)))
    plan = [(site, j, T) for site in SITES for j in range(njobs) for T in (1, 2, 4)]
    if run.quick():
        r2 = run.rng('plan')
        plan = [p for p in plan if r2.random() < 0.34]
    cases, lines = [], []
    kw = dict(model=model, kernel_shape=kernel)
    for idx, (site, j, T) in enumerate(plan):
        if run.only is not None and idx not in run.only:
            continue
        case = dict(i=idx, site=site, block=j, threads=T, njobs=njobs)
        ctrl = sc.Controller(run.rng(f'f{idx}'), faults={(j, site)})
        out = tmp / 'c09_out.tif'
        reuse_ok = reuse_exc = None
        with warnings.catch_warnings():
            warnings.simplefilter('ignore')
            rf = RasterFuse(pair.src_path, pair.ref_path)
            with rf:
                with sc.install(rf, ctrl) as outs:
                    # every fourth plan writes its outputs with another driver than the default GeoTIFF (Erdas Imagine / ENVI): a failed
                    # block must be as loud there
                    op = [None, None, dict(driver='HFA', dtype='float32', nodata=float('nan'), creation_options=dict(COMPRESSED='YES')),
                          None, None, None, dict(driver='ENVI', dtype='float32', nodata=float('nan'), creation_options=dict(INTERLEAVE='BSQ')),
                          None][idx % 8]
                    case['driver'] = op['driver'] if op else 'GTiff'

                    def call():
                        rf.process(out, Model(model), kernel, param_filename=out.parent / (out.stem + '_PARAM.tif'), build_ovw=False,
                                   overwrite=True, block_config=dict(threads=T, max_block_mem=mbm), out_profile=op)
                    fin, r = sc.run_with_watchdog(call, timeout=60)
                    out_closed = [d.closed for d in outs.values() if d is not None]
                    locks = [l.locked() for l in (rf._src_lock, rf._ref_lock, rf._corr_lock, rf._param_lock)]
                # reuse of the same object, inside the same context, without faults or interposition
                if fin:
                    import threading
                    rf._src_lock, rf._ref_lock = threading.Lock(), threading.Lock()
                    rf._corr_lock, rf._param_lock = threading.Lock(), threading.Lock()
                    try:
                        rf.process(tmp / 'c09_reuse.tif', Model(model), kernel, param_filename=tmp / 'c09_reuse_PARAM.tif',
                                   build_ovw=False, overwrite=True, block_config=dict(threads=1, max_block_mem=mbm))
                        reuse_ok = c04.same(c04.result_sig(c04.read_result(tmp / 'c09_reuse.tif')), bsig)
                    except Exception as ex:
                        reuse_exc = ex
            reader_closed = rf.closed
        run.evaluations += 1
        run.hist[f'site={site}'] += 1
        run.hist[f"output driver={case['driver']}"] += 1
        run.hist[f'threads={T}'] += 1
        run.nontrivial.add((site, j, T))
        if not fin or ctrl.deadlock:
            run.fail(case, f'process() did not terminate after a fault in {site} of block {j} with {T} threads (hang / deadlock)',
                     signature=dict(kind='hang'))
            continue
        if not isinstance(r, BaseException):
            run.fail(case, f'a fault in {site} of block {j} ({T} threads) was swallowed: process() returned normally',
                     signature=dict(kind='swallowed'))
            continue
        if not isinstance(r, sc.InjectedFault):
            run.hist[f'raised as {type(r).__name__}'] += 1
        if not all(out_closed):
            run.fail(case, f'after the failure an output dataset is still open (closed flags {out_closed})', signature=dict(kind='leak-output'))
            continue
        if any(locks):
            run.fail(case, f'after the failure a lock is still held ({locks})', signature=dict(kind='lock-held'))
            continue
        if not reader_closed:
            run.fail(case, 'the reader datasets are still open after leaving the context', signature=dict(kind='leak-reader'))
            continue
        if reuse_exc is not None or reuse_ok is False:
            run.fail(case, f'the reader could not be used again after the failure: {reuse_exc or "result differs from the reference"}',
                     signature=dict(kind='not-reusable'))
            continue
        if ctrl.violations:
            run.fail(case, ctrl.violations[0], signature=dict(kind='unlocked-access'))
            continue
        if T > 1:
            cases.append(case)
            lines.append(c04.trace_line(ctrl, True, T, njobs, faults={(j, site)}))
        else:
            # single-thread branch stops at the first failing block
            if getattr(ctrl, 'main_jobs', 0) != j + 1:
                run.fail(case, f'single-threaded run processed {getattr(ctrl, "main_jobs", 0)} blocks, expected to stop at block {j}',
                         signature=dict(kind='single-thread-continue'))
        run.sample(dict(case=case, raised=type(r).__name__, events=len(ctrl.trace)), 4)
    replies = common.model_batch(lines)
    if replies is None:
        run.model_available = False
    else:
        for case, line, rep in zip(cases, lines, replies):
            run.lines_compared += 1
            if not rep.startswith('accept outcome=raised locks=free final=1'):
                run.disagree(case, line[:400], rep[:200], 'accept outcome=raised locks=free final=1', what='faulted trace is not a run of the model')
                continue
            done = rep.split('done=')[1].split(',')
            if len(done) != case['njobs'] or sum(1 for d in done if ':f' in d) != 1:
                run.disagree(case, line[:400], rep[:200], f'{case["njobs"]} jobs finished, exactly one failed',
                             what='after a failure the remaining blocks did not all run to completion')
        run.extra['traces_validated_against_impl'] = len(lines)
    cli_faults(run, tmp, pair, bsig, model, kernel, mbm, njobs)
    compare_stats_faults(run, tmp, pair, mbm)
    persistent_read_failure(run, tmp, pair, mbm)
    if run.only is None and not getattr(run, 'hung', False):
        cli_compare_stats_faults(run, tmp, pair, mbm)
        reprojected_inputs_closed(run, tmp)
        corrupted_tile_leg(run, tmp)


VERBOSITY = [[], ['-v'], ['-q'], ['-v', '-v'], ['-v', '-q', '-v']]


class _logging_restored:
    """the `homonim` group configures the package logger and warnings.showwarning on every invocation: put both back afterwards"""

    def __enter__(self):
        import logging
        lg = logging.getLogger('homonim')
        self.state = (lg, lg.level, list(lg.handlers), warnings.showwarning)

    def __exit__(self, *exc):
        lg, level, handlers, show = self.state
        lg.setLevel(level)
        lg.handlers[:] = handlers
        warnings.showwarning = show
        return False


def cli_faults(run, tmp, pair, bsig, model, kernel, mbm, njobs):
    """CLI: an exception in any block gives a non-zero exit status; exit 0 implies every block was written"""
    from click.testing import CliRunner
    from homonim import cli, RasterFuse
    import rasterio as rio
    orig = RasterFuse._process_block
    outdir = tmp / 'cli'
    outdir.mkdir(exist_ok=True)
    nrun = 0
    for k in ([None, 0, njobs - 1] if run.quick() else [None] + list(range(njobs))):
        for T in (1, 3):
            cnt = {'n': 0}
            # the global verbosity flags: what is logged, and how, has no bearing on the exit status
            vflags = VERBOSITY[nrun % len(VERBOSITY)]
            nrun += 1

            def pb(self, *a, **kw):
                i = cnt['n']
                cnt['n'] += 1
                if k is not None and i == k:
                    raise sc.InjectedFault('injected block failure')
                return orig(self, *a, **kw)
            RasterFuse._process_block = pb
            try:
                with _logging_restored():
                    res = CliRunner().invoke(cli.cli, vflags + ['fuse', str(pair.src_path), str(pair.ref_path), '-m', model, '-k',
                                                               str(kernel[0]), str(kernel[1]), '-od', str(outdir), '-o', '-nbo', '-t',
                                                               str(T), '-mbm', repr(mbm), '-pi'])
            finally:
                RasterFuse._process_block = orig
            run.evaluations += 1
            case = dict(i=10**6 + (k if k is not None else -1) * 10 + T, op='cli fuse', fail_block=k, threads=T, verbosity=vflags)
            run.hist['cli runs'] += 1
            if k is not None and res.exit_code == 0:
                run.fail(case, f'CLI exited 0 although block {k} failed', signature=dict(kind='cli-exit-zero'))
            elif k is None:
                if res.exit_code != 0:
                    run.fail(case, f'fault-free CLI run exited {res.exit_code}', signature=dict(kind='cli'))
                else:
                    outs = [p for p in outdir.glob('*FUSE*.tif') if 'PARAM' not in p.name]
                    with rio.open(outs[0]) as ds:
                        a = ds.read()
                    if not fusion.bytes_equal(a, bsig[0]):
                        run.fail(case, 'CLI exited 0 but the corrected image differs from the API result (blocks missing?)',
                                 signature=dict(kind='cli-incomplete'))


def cli_compare_stats_faults(run, tmp, pair, mbm):
    """`homonim compare` / `homonim stats`: a block that fails gives a non-zero exit status; a fault-free run exits 0"""
    from click.testing import CliRunner
    from homonim import cli, RasterCompare, ParamStats
    with warnings.catch_warnings():
        warnings.simplefilter('ignore')
        base = fusion.run_fuse(pair.src_path, pair.ref_path, tmp / 'c09_clist.tif', model='gain-offset', kernel_shape=(3, 3), threads=1,
                               param=True, out_profile=dict(creation_options=dict(tiled=True, blockxsize=16, blockysize=16)))
        orig_read, orig_enter = RasterCompare.read, ParamStats.__enter__
        nrun = 0
        for k in (None, 0, 2):
            for T in (1, 2):
                cnt = {'n': 0}
                vflags = VERBOSITY[(nrun + 1) % len(VERBOSITY)]
                nrun += 1

                failed = {'v': False}

                def read(self, bp):
                    i = cnt['n']
                    cnt['n'] += 1
                    if k is not None and i == k:
                        failed['v'] = True
                        raise sc.InjectedFault('injected read failure')
                    if k is not None:
                        # (other blocks are in flight when one fails; none of them touches the datasets after the failure, so that
                        # a command that returns without waiting for its workers cannot crash this process)
                        import time
                        time.sleep(0.003)
                        if failed['v']:
                            raise sc.InjectedFault('read after the failure')
                    return orig_read(self, bp)
                RasterCompare.read = read
                import threading
                before = set(threading.enumerate())
                try:
                    with _logging_restored():
                        fin, res = sc.run_with_watchdog(lambda: CliRunner().invoke(
                            cli.cli, vflags + ['compare', str(pair.src_path), str(pair.ref_path), '-t', str(T), '-mbm', repr(mbm),
                                               '--output', str(tmp / 'c09_cmp.json')]), timeout=60)
                    late = sc.stragglers(before) if fin else []
                finally:
                    RasterCompare.read = orig_read
                run.evaluations += 1
                run.hist['cli compare / stats runs'] += 1
                case = dict(i=4 * 10**6 + (k if k is not None else -1) * 10 + T, op='cli compare', fail_block=k, threads=T, verbosity=vflags)
                if not fin:
                    run.fail(case, '`homonim compare` hung', signature=dict(kind='hang', op='cli compare'))
                    run.hung = True
                    return
                if k is not None and cnt['n'] > k and res.exit_code == 0:
                    run.fail(case, f'`homonim compare` exited 0 although the read of block {k} failed', signature=dict(kind='cli-exit-zero', op='compare'))
                elif late:
                    run.fail(case, f'`homonim compare` returned while {len(late)} worker thread(s) were still running', signature=dict(kind='not-terminated', op='cli compare'))
                elif k is None and res.exit_code != 0:
                    run.fail(case, f'fault-free `homonim compare` exited {res.exit_code}', signature=dict(kind='cli', op='compare'))
                for meth in ('dataset_mask', 'read'):
                    cnt2 = {'n': 0}

                    def enter(self):
                        r = orig_enter(self)
                        real = self._param_im

                        class P:
                            def __getattr__(self_, name):
                                v = getattr(real, name)
                                if name == meth:
                                    def call(*a, **kw):
                                        i = cnt2['n']
                                        cnt2['n'] += 1
                                        if k is not None and i == k:
                                            raise sc.InjectedFault(f'injected {meth} failure')
                                        return v(*a, **kw)
                                    return call
                                return v
                        self._param_im = P()
                        return r
                    ParamStats.__enter__ = enter
                    try:
                        with _logging_restored():
                            fin, res = sc.run_with_watchdog(lambda: CliRunner().invoke(
                                cli.cli, vflags + ['stats', str(base.param_path), '--output', str(tmp / 'c09_st.json')]), timeout=60)
                    finally:
                        ParamStats.__enter__ = orig_enter
                    run.evaluations += 1
                    run.hist['cli compare / stats runs'] += 1
                    case = dict(i=5 * 10**6 + (k if k is not None else -1) * 10 + T, op='cli stats', method=meth, fail_call=k, verbosity=vflags)
                    if not fin:
                        run.fail(case, '`homonim stats` hung', signature=dict(kind='hang', op='cli stats'))
                        run.hung = True
                        return
                    if k is not None and cnt2['n'] > k and res.exit_code == 0:
                        run.fail(case, f'`homonim stats` exited 0 although call {k} of {meth} failed', signature=dict(kind='cli-exit-zero', op='stats'))
                    elif k is None and res.exit_code != 0:
                        run.fail(case, f'fault-free `homonim stats` exited {res.exit_code}', signature=dict(kind='cli', op='stats'))


def reprojected_inputs_closed(run, tmp):
    """
    Pairs that homonim reads through a re-projection (an image stored south-up; images in different coordinate systems): after the
    `with` block - whether the run succeeded or a block read failed - no file descriptor of the process points at the source or the
    reference any more, for fuse and for compare.
    """
    import os
    import rasters
    from homonim import RasterFuse, RasterCompare
    from homonim.enums import Model
    g_r = rasters.Grid(8 * 6000, 8 * 2000, 16, 16, 30, 26)
    g_s = rasters.Grid(8 * 6000 + 32, 8 * 2000 - 32, 8, 8, 40, 36)
    rng = run.rng('vrt-closed')
    s = np.array([[[rng.randint(20, 200) for _ in range(g_s.w)] for _ in range(g_s.h)]], float)
    r = np.array([[[rng.randint(30, 150) for _ in range(g_r.w)] for _ in range(g_r.h)]], float)

    def open_fds(paths):
        names = []
        for fd in os.listdir('/proc/self/fd'):
            try:
                t = os.readlink(f'/proc/self/fd/{fd}')
            except OSError:
                continue
            if any(t == str(p_) for p_ in paths):
                names.append(pathlib.Path(t).name)
        return sorted(names)
    for k, (south_ref, south_src) in enumerate(((True, False), (False, True))):
        pair = fusion.write_pair(tmp, f'c09vrt{k}', g_s, g_r, s, r, None, None, src_kw=dict(south_up=south_src), ref_kw=dict(south_up=south_ref))
        paths = [pair.src_path.resolve(), pair.ref_path.resolve()]
        for cls, fail in ((RasterFuse, False), (RasterFuse, True), (RasterCompare, False), (RasterCompare, True)):
            case = dict(i=6 * 10**6 + 10 * k + 2 * (cls is RasterCompare) + fail, op='inputs read through a re-projection are closed',
                        south_up='reference' if south_ref else 'source', cls=cls.__name__, failing_block=fail)
            raised = None
            with warnings.catch_warnings():
                warnings.simplefilter('ignore')
                obj = cls(pair.src_path, pair.ref_path)
                orig = cls.read
                cnt = {'n': 0}

                def read(self, bp):
                    cnt['n'] += 1
                    if fail and cnt['n'] == 2:
                        raise sc.InjectedFault('injected read failure')
                    return orig(self, bp)
                cls.read = read
                import threading
                late = []
                try:
                    with obj:
                        before = set(threading.enumerate())
                        try:
                            if cls is RasterFuse:
                                obj.process(tmp / 'c09vrt_out.tif', Model.gain, (1, 1), overwrite=True, build_ovw=False,
                                            block_config=dict(threads=2, max_block_mem=2e-3))
                            else:
                                obj.process(threads=2, max_block_mem=2e-3)
                        except Exception as ex:
                            raised = ex
                        late = sc.stragglers(before)      # (joined before the datasets are closed)
                except Exception as ex:
                    raised = raised or ex
                finally:
                    cls.read = orig
            run.evaluations += 1
            run.hist['re-projected input pairs: descriptors checked'] += 1
            run.nontrivial.add(('vrt-closed', k, cls.__name__, fail))
            left = open_fds(paths)
            if late:
                run.fail(case, f'{cls.__name__}.process returned / raised while {len(late)} worker thread(s) of the call were still running',
                         signature=dict(kind='not-terminated', op='vrt'))
            elif fail and raised is None:
                run.fail(case, 'the injected read failure was swallowed', signature=dict(kind='swallowed', op='vrt'))
            elif not fail and raised is not None:
                run.fail(case, f'raised {type(raised).__name__}: {raised}', signature=dict(kind='raises', op='vrt'))
            elif left:
                run.fail(case, f'after the `with` block ({"failed" if fail else "successful"} run) the process still holds open descriptors of {left}',
                         signature=dict(kind='leak-input', op='vrt'))


def corrupted_tile_leg(run, tmp):
    """
    A block that cannot be read at the GDAL level (the compressed bytes of one tile zeroed in the file - a truncated or damaged
    image): the failure must surface exactly like an injected one - stats raises and `homonim stats` exits non-zero for a damaged
    parameter image; fuse and compare raise for a damaged source.  (Checked first with plain rasterio that the tile is unreadable.)
    """
    import shutil
    import rasterio as rio
    import rasters
    from click.testing import CliRunner
    from homonim import cli, RasterFuse, RasterCompare, ParamStats
    from homonim.enums import Model

    def corrupt(path, band, col, row):
        with rio.open(path) as ds:
            off = ds.get_tag_item(f'BLOCK_OFFSET_{col}_{row}', 'TIFF', bidx=band)
            size = ds.get_tag_item(f'BLOCK_SIZE_{col}_{row}', 'TIFF', bidx=band)
            win = ds.block_window(band, row, col)
        if off is None or size is None:
            return None
        with open(path, 'r+b') as f:
            f.seek(int(off))
            f.write(b'\x00' * int(size))
        try:
            with rio.open(path) as ds:
                ds.read(band, window=win)
            return None     # still readable: nothing to test
        except Exception:
            return win
    g_r = rasters.Grid(8 * 6500, 8 * 2500, 16, 16, 48, 48)
    g_s = rasters.Grid(8 * 6500, 8 * 2500, 8, 8, 96, 96)
    rng = run.rng('corrupt')
    s = np.array([[[rng.randint(20, 200) for _ in range(g_s.w)] for _ in range(g_s.h)]], float)
    r = np.array([[[rng.randint(30, 150) for _ in range(g_r.w)] for _ in range(g_r.h)]], float)
    pair = fusion.write_pair(tmp, 'c09bad', g_s, g_r, s, r, None, None)
    prof = dict(creation_options=dict(tiled=True, blockxsize=16, blockysize=16, compress='deflate'))
    res = fusion.run_fuse(pair.src_path, pair.ref_path, tmp / 'c09bad_out.tif', model='gain-offset', kernel_shape=(3, 3), threads=1,
                          param=True, out_profile=prof)
    # (a) a damaged parameter image
    bad_param = tmp / 'c09bad_PARAM_damaged.tif'
    shutil.copy(res.param_path, bad_param)
    if corrupt(bad_param, 2, 1, 1) is None:
        run.hist['corrupted tile: could not be set up (skipped)'] += 1
    else:
        for T in (1, 3):
            case = dict(i=7 * 10**6 + T, op='stats on a parameter image with an unreadable tile', threads=T)
            raised = None
            try:
                with warnings.catch_warnings():
                    warnings.simplefilter('ignore')
                    with ParamStats(bad_param) as ps:
                        fin, rr = sc.run_with_watchdog(lambda: ps.stats(threads=T), timeout=60)
                raised = isinstance(rr, BaseException)
            except Exception:
                raised, fin = True, True
            run.evaluations += 1
            run.hist['unreadable-tile runs'] += 1
            run.nontrivial.add(('corrupt-param', T))
            if not fin:
                run.fail(case, 'stats hung on an unreadable tile', signature=dict(kind='hang', op='corrupt'))
            elif not raised:
                run.fail(case, 'stats returned normally although a tile of the parameter image cannot be read (its statistics then cover '
                         'substituted zeros)', signature=dict(kind='swallowed', op='corrupt-param'))
        cres = CliRunner().invoke(cli.cli, ['stats', str(bad_param)])
        run.evaluations += 1
        if cres.exit_code == 0:
            run.fail(dict(i=7 * 10**6 + 9, op='homonim stats on a parameter image with an unreadable tile'),
                     '`homonim stats` exited 0 although a tile cannot be read', signature=dict(kind='cli-exit-zero', op='corrupt-param'))
    # (b) a damaged source image (written tiled + compressed so that a single tile can be damaged)
    bad_src = tmp / 'c09bad_src_damaged.tif'
    with rio.open(pair.src_path) as ds:
        prof2 = dict(ds.profile)
        data = ds.read()
    prof2.update(tiled=True, blockxsize=32, blockysize=32, compress='deflate')
    with rio.open(bad_src, 'w', **prof2) as ds:
        ds.write(data)
    if corrupt(bad_src, 1, 1, 1) is None:
        run.hist['corrupted tile: could not be set up (skipped)'] += 1
        return
    for cls in (RasterFuse, RasterCompare):
        for T in (1, 2):
            case = dict(i=7 * 10**6 + 20 + 2 * (cls is RasterCompare) + T, op='source with an unreadable tile', cls=cls.__name__, threads=T)
            rr = None
            try:
                with warnings.catch_warnings():
                    warnings.simplefilter('ignore')
                    with cls(bad_src, pair.ref_path) as obj:
                        if cls is RasterFuse:
                            call = lambda: obj.process(tmp / 'c09bad_o.tif', Model.gain, (1, 1), overwrite=True, build_ovw=False,
                                                       block_config=dict(threads=T, max_block_mem=2e-3))
                        else:
                            call = lambda: obj.process(threads=T, max_block_mem=2e-3)
                        import threading
                        before = set(threading.enumerate())
                        fin, rr = sc.run_with_watchdog(call, timeout=60)
                        late = sc.stragglers(before) if fin else []
                raised = isinstance(rr, BaseException)
            except Exception:
                raised, fin, late = True, True, []
            run.evaluations += 1
            run.hist['unreadable-tile runs'] += 1
            run.nontrivial.add(('corrupt-src', cls.__name__, T))
            if late:
                run.fail(case, f'{cls.__name__}.process raised while {len(late)} worker thread(s) of the call were still running',
                         signature=dict(kind='not-terminated', op='corrupt-src'))
                continue
            if not fin:
                run.fail(case, f'{cls.__name__} hung on an unreadable source tile', signature=dict(kind='hang', op='corrupt'))
            elif not raised:
                run.fail(case, f'{cls.__name__}.process returned normally although a tile of the source cannot be read',
                         signature=dict(kind='swallowed', op='corrupt-src'))


def persistent_read_failure(run, tmp, pair, mbm):
    """
    A block whose pixels cannot be read at all: every `read` of the source that touches one chosen region raises the I/O error
    rasterio raises for an unreadable tile (`RasterioIOError`), however often it is tried.  fuse and compare must raise - a
    normal return means the block was passed on as if it had been read.
    """
    import warnings
    from rasterio.errors import RasterioIOError
    from homonim import RasterFuse, RasterCompare
    from homonim.enums import Model

    class Unreadable:
        def __init__(self, ds, row):
            object.__setattr__(self, '_ds', ds)
            object.__setattr__(self, '_row', row)
            object.__setattr__(self, 'failed', 0)

        def __getattr__(self, k):
            v = getattr(self._ds, k)
            if k == 'read':
                def read(*a, **kw):
                    w = kw.get('window')
                    if w is not None and w.row_off <= self._row < w.row_off + w.height:
                        object.__setattr__(self, 'failed', self.failed + 1)
                        raise RasterioIOError('Read failed. See previous exception for details.')
                    return v(*a, **kw)
                return read
            return v

        def __setattr__(self, k, v):
            setattr(self._ds, k, v)

    for k, (cls, T) in enumerate(((RasterFuse, 1), (RasterFuse, 2), (RasterCompare, 1), (RasterCompare, 3))):
        case = dict(i=4 * 10**6 + k, op='persistent read failure', cls=cls.__name__, threads=T)
        with warnings.catch_warnings():
            warnings.simplefilter('ignore')
            obj = cls(pair.src_path, pair.ref_path)
            with obj:
                real = obj._src_im
                prox = Unreadable(real, real.height // 2)
                obj._src_im = prox
                if cls is RasterFuse:
                    call = lambda: obj.process(tmp / 'c09_unreadable.tif', Model.gain, (1, 1), overwrite=True,
                                               block_config=dict(threads=T, max_block_mem=mbm))
                else:
                    call = lambda: obj.process(threads=T, max_block_mem=mbm)
                import threading
                before = set(threading.enumerate())
                fin, r = sc.run_with_watchdog(call, timeout=60)
                late = sc.stragglers(before) if fin else []      # (joined before the datasets are closed)
                obj._src_im = real
        run.evaluations += 1
        run.hist['persistent read failures'] += 1
        if late:
            run.fail(case, f'{cls.__name__}.process raised while {len(late)} worker thread(s) of the call were still running',
                     signature=dict(kind='not-terminated'))
            continue
        run.nontrivial.add(('unreadable', k))
        if not fin:
            run.fail(case, 'the call hung on an unreadable block', signature=dict(kind='hang'))
            run.hung = True
            return
        if prox.failed and not isinstance(r, BaseException):
            run.fail(case, f'{cls.__name__}.process returned normally although every read of one block failed ({prox.failed} failed reads)',
                     signature=dict(kind='swallowed'))


def compare_stats_faults(run, tmp, pair, mbm):
    from homonim import RasterCompare, ParamStats
    import warnings
    # compare: a failing block read
    with warnings.catch_warnings():
        warnings.simplefilter('ignore')
        with RasterCompare(pair.src_path, pair.ref_path) as cmp:
            nblk = len(list(cmp.block_pairs(max_block_mem=mbm)))
        with RasterCompare(pair.src_path, pair.ref_path) as cmp:
            base_cmp = cmp.process(threads=1, max_block_mem=mbm)
        for k in (range(nblk) if not run.quick() else [0, nblk // 2, nblk - 1]):
            for T in (1, 3):
                cmp = RasterCompare(pair.src_path, pair.ref_path)
                case = dict(i=2 * 10**6 + k * 10 + T, op='compare', fail_block=k, threads=T)
                with cmp:
                    orig_read = cmp.read
                    cnt = {'n': 0}

                    def read(bp):
                        i = cnt['n']
                        cnt['n'] += 1
                        if i == k:
                            raise sc.InjectedFault('injected read failure')
                        import time
                        time.sleep(0.003)
                        return orig_read(bp)
                    cmp.read = read
                    import threading
                    before = set(threading.enumerate())
                    fin, r = sc.run_with_watchdog(lambda: cmp.process(threads=T, max_block_mem=mbm), timeout=60)
                    late = sc.stragglers(before) if fin else []
                    cmp.read = orig_read
                    locks = [cmp._src_lock.locked(), cmp._ref_lock.locked()]
                    again = None
                    if fin:
                        try:
                            again = cmp.process(threads=1, max_block_mem=mbm)
                        except Exception as ex:
                            again = ex
                run.evaluations += 1
                run.hist['compare fault runs'] += 1
                if not fin:
                    run.fail(case, 'compare hung after a failed block read', signature=dict(kind='hang'))
                elif not isinstance(r, BaseException):
                    run.fail(case, f'compare swallowed the failure of block {k}: returned {str(r)[:80]}', signature=dict(kind='swallowed'))
                elif late:
                    run.fail(case, f'compare raised while {len(late)} worker thread(s) of the call were still running (processing had not '
                             'terminated: they go on reading the images the caller is about to close)', signature=dict(kind='not-terminated'))
                elif any(locks):
                    run.fail(case, 'compare left a lock held after the failure', signature=dict(kind='lock-held'))
                elif not cmp.closed:
                    run.fail(case, 'compare left its datasets open', signature=dict(kind='leak-reader'))
                elif isinstance(again, BaseException):
                    run.fail(case, f'compare reader not reusable after the failure: {again}', signature=dict(kind='not-reusable'))
                elif again is not None and repr(again) != repr(base_cmp):
                    run.fail(case, 'the compare reader, used again after the failure, returns other statistics than a fresh reader',
                             signature=dict(kind='stale-after-failure'))
        # stats: a failing dataset read / read_masks
        # (a pair whose parameter image is valid over its whole extent - the source covers the reference exactly - and has 3 x 3 tiles:
        # the valid-data window is complete before the last tile has been looked at)
        import rasters
        g_r = rasters.Grid(8 * 7000, 8 * 3000, 16, 16, 48, 48)
        g_s = rasters.Grid(8 * 7000, 8 * 3000, 8, 8, 96, 96)
        rng2 = run.rng('stats-full')
        s2 = np.array([[[rng2.randint(20, 200) for _ in range(g_s.w)] for _ in range(g_s.h)]], float)
        r2 = np.array([[[rng2.randint(30, 150) for _ in range(g_r.w)] for _ in range(g_r.h)]], float)
        pair2 = fusion.write_pair(tmp, 'c09full', g_s, g_r, s2, r2, None, None)
        base = fusion.run_fuse(pair2.src_path, pair2.ref_path, tmp / 'c09_st.tif', model='gain-offset', kernel_shape=(3, 3), threads=1,
                               param=True, out_profile=dict(creation_options=dict(tiled=True, blockxsize=16, blockysize=16)))
        with ParamStats(base.param_path) as ps0:
            base_st = ps0.stats(threads=1)
        import rasterio as rio
        with rio.open(base.param_path) as ds_:
            ntiles = len(list(ds_.block_windows(1)))
        for meth in ('read_masks', 'dataset_mask', 'read'):
            # (the last tile of the valid-data window pre-pass too: by then the window found may already be the whole image)
            for k in ((0, 1, 3) if run.quick() else (0, 1, 2, 3, 5, 7)) + ((ntiles - 1,) if meth == 'dataset_mask' and ntiles > 4 else ()):
                for T in (1, 3):
                    ps = ParamStats(base.param_path)
                    case = dict(i=3 * 10**6 + k * 10 + T, op='stats', method=meth, fail_call=k, threads=T)
                    with ps:
                        real = ps._param_im
                        cnt = {'n': 0}

                        class P:
                            def __getattr__(self, name):
                                v = getattr(real, name)
                                if name == meth:
                                    def call(*a, **kw):
                                        i = cnt['n']
                                        cnt['n'] += 1
                                        if i == k:
                                            raise sc.InjectedFault(f'injected {meth} failure')
                                        return v(*a, **kw)
                                    return call
                                return v
                        ps._param_im = P()
                        import threading
                        before = set(threading.enumerate())
                        fin, r = sc.run_with_watchdog(lambda: ps.stats(threads=T), timeout=60)
                        late = sc.stragglers(before) if fin else []
                        ps._param_im = real
                        reached = cnt['n'] > k
                        again = None
                        if fin and reached:
                            # the same object, used again without faults
                            try:
                                again = ps.stats(threads=1)
                            except Exception as ex:
                                again = ex
                    run.evaluations += 1
                    run.hist['stats fault runs'] += 1
                    if not reached:
                        continue
                    if not fin:
                        run.fail(case, f'stats hung after a failed {meth}', signature=dict(kind='hang'))
                        run.hung = True     # worker threads are stuck: no point enumerating further (each would cost a watchdog)
                        return
                    elif not isinstance(r, BaseException):
                        run.fail(case, f'stats swallowed the failure of {meth} call {k}', signature=dict(kind='swallowed'))
                    elif late:
                        run.fail(case, f'stats raised while {len(late)} worker thread(s) of the call were still running', signature=dict(kind='not-terminated'))
                    elif not real.closed:
                        run.fail(case, 'stats left the parameter file open', signature=dict(kind='leak-reader'))
                    elif isinstance(again, BaseException):
                        run.fail(case, f'the stats reader could not be used again after the failure: {again}', signature=dict(kind='not-reusable'))
                    elif again is not None and repr(again) != repr(base_st):
                        run.fail(case, f'the stats reader, used again after a failed {meth} (call {k}), returns other figures than a fresh reader '
                                 f'(e.g. {again[0]} vs {base_st[0]})', signature=dict(kind='stale-after-failure'))
