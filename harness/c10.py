"""
C10 - no clobbering, no touching inputs, no dependence on what was there before.

Histories of 1-4 process() calls (one RasterFuse object re-used / fresh objects / CLI invocations) in a directory that
already holds the inputs, unrelated files and sometimes earlier outputs; paths given as str or Path; overwrite on/off;
with/without parameter image; 3 configurations whose fresh-run outputs are known.  After every call:
  * outcome (ok / FileExistsError / other) and the directory listing are compared with the Lean file-system machine
    (`fshist`), contents being identified by the configuration that produced them;
  * leg 3: no pre-existing file other than a requested output changed (bytes + mtime), inputs unchanged, no new files
    other than the requested outputs (+ side-cars), a FileExistsError left the directory exactly as it was, and a
    successful call's outputs decode to exactly what the same call produces in a fresh directory.
"""
import hashlib
import json
import os
import pathlib
import shutil
import warnings

import numpy as np
import rasterio as rio

import common
import fusion
import rasters

SIDECARS = ('.aux.xml', '.msk', '.ovr')
MBM = [100, 100]
CONFIGS = [dict(model='gain', kernel=(1, 1)), dict(model='gain-blk-offset', kernel=(3, 3)), dict(model='gain-offset', kernel=(5, 5))]


def sig(path):
    """decoded content signature of an output raster (pixels, masks, tags that do not name files)"""
    with rio.Env(GDAL_TIFF_INTERNAL_MASK=True):
        with rio.open(path) as ds:
            h = hashlib.sha1()
            a = ds.read()
            h.update(np.nan_to_num(a, nan=-12345.0).tobytes())
            h.update(ds.read_masks().tobytes())
            h.update(repr(sorted(ds.tags().items())).encode())
            h.update(repr(ds.descriptions).encode())
            h.update(repr((ds.count, ds.dtypes, ds.width, ds.height, ds.transform)).encode())
            return h.hexdigest()


def file_state(d):
    out = {}
    for p in sorted(pathlib.Path(d).iterdir()):
        st = p.stat()
        out[p.name] = (hashlib.sha1(p.read_bytes()).hexdigest(), st.st_mtime_ns, st.st_size)
    return out


def gen_history(run, i):
    rng = run.rng(i)
    calls = []
    style = rng.choice(['same-object', 'fresh-objects', 'cli', 'mixed'])
    # (i % 6 == 4: names with characters that mean something to glob / fnmatch; a file protects exactly its own name)
    names = ['out_a.tif', 'out_b.tif'] if i % 6 != 4 else ['scene[1].tif', 'scene[2].tif']
    a, b = names
    pa = pathlib.Path(a).stem + '_PARAM.tif'
    for _ in range(rng.randint(1, 4)):
        calls.append(dict(cfg=rng.randrange(3), mbm=rng.randrange(2), out=rng.choice(names), param=rng.random() < 0.5,
                          overwrite=rng.random() < 0.4, as_str=rng.random() < 0.5,
                          via='cli' if style == 'cli' or (style == 'mixed' and rng.random() < 0.3) else 'api'))
    pre = rng.choice([[], [a], [pa], [a, pa], [b]])
    return dict(i=i, style=style, calls=calls, pre=pre, pre_kind=rng.choice(['garbage', 'old-run']))


def run(run: common.Run):
    from homonim import RasterFuse, cli
    from homonim.enums import Model
    from click.testing import CliRunner
    n = 24 if run.quick() else 300
    run.rule = ('histories of 1-4 calls (API on one object / fresh objects / CLI / mixed), str and Path arguments, overwrite on/off, '
                'with/without parameter image, 3 configurations, pre-existing outputs (garbage bytes or an older run) and unrelated '
                'files; non-trivial = a history with an existing output involved or more than one call; distinct by the history')
    tmp = run.tmpdir()
    rng0 = run.rng('inputs')
    src, ref = rasters.pair_geometry(rng0, 'dyadic', 'auto', max_src=30, margin=(1, 2))
    while src.w < 16 or src.h < 16:
        src, ref = rasters.pair_geometry(rng0, 'dyadic', 'auto', max_src=30, margin=(1, 2))
    s = np.array([[[rng0.randint(20, 200) for _ in range(src.w)] for _ in range(src.h)]], float)
    r = np.array([[[rng0.randint(30, 150) for _ in range(ref.w)] for _ in range(ref.h)]], float)
    base = tmp / 'base'
    base.mkdir()
    pair = fusion.write_pair(base, 'in', src, ref, s, r, None, None)
    (base / 'notes.txt').write_text('unrelated file\n')

    def api_call(rf, d, c):
        corr = d / c['out']
        param = d / (pathlib.Path(c['out']).stem + '_PARAM.tif') if c['param'] else None
        if c['as_str']:
            corr, param = str(corr), (str(param) if param else None)
        cfg = CONFIGS[c['cfg']]
        rf.process(corr, Model(cfg['model']), cfg['kernel'], param_filename=param, overwrite=c['overwrite'], build_ovw=False,
                   block_config=dict(threads=1, max_block_mem=MBM[c.get('mbm', 0)]))

    # two block-memory settings: whole band, and ~8 blocks (the block-dependent models then give different pixels)
    proc_ref = src.px <= ref.px
    ph, pw = fusion.proc_window_shape(src, ref, proc_ref)
    global MBM
    MBM = [100, fusion.block_mem_for(3, ph, pw, src.px, ref.px, proc_ref)]
    # the blocks must stay larger than the widest kernel's overlap (BlockSizeError otherwise): fewer halvings if need be
    from homonim.errors import BlockSizeError
    for hv in (3, 2, 1):
        MBM[1] = fusion.block_mem_for(hv, ph, pw, src.px, ref.px, proc_ref)
        try:
            for k in range(3):
                d = tmp / f'probe{hv}_{k}'
                shutil.copytree(base, d)
                with warnings.catch_warnings():
                    warnings.simplefilter('ignore')
                    with RasterFuse(d / pair.src_path.name, d / pair.ref_path.name) as rf:
                        api_call(rf, d, dict(cfg=k, mbm=1, out='o.tif', param=False, overwrite=False, as_str=False))
            break
        except BlockSizeError:
            continue
    # fresh-run signatures per (cfg, block memory)
    fresh = {}
    for k in range(3):
        for mi in range(2):
            d = tmp / f'fresh{k}_{mi}'
            shutil.copytree(base, d)
            with warnings.catch_warnings():
                warnings.simplefilter('ignore')
                with RasterFuse(d / pair.src_path.name, d / pair.ref_path.name) as rf:
                    api_call(rf, d, dict(cfg=k, mbm=mi, out='o.tif', param=True, overwrite=False, as_str=False))
            fresh[(k, mi)] = (sig(d / 'o.tif'), sig(d / 'o_PARAM.tif'))
    shutil.copytree(tmp / 'fresh0_0', tmp / 'fresh0')
    # the same for CLI invocations (the CLI passes its own defaults, so its tags may differ from the API call's)
    fresh_cli = {}
    from homonim import utils as hu
    from homonim.enums import ProcCrs
    for k in range(3):
        d = tmp / f'freshcli{k}'
        shutil.copytree(base, d)
        cfg = CONFIGS[k]
        res = CliRunner().invoke(cli.cli, ['fuse', str(d / pair.src_path.name), str(d / pair.ref_path.name), '-m', cfg['model'],
                                           '-k', str(cfg['kernel'][0]), str(cfg['kernel'][1]), '-nbo', '-t', '1', '-pi'])
        post = hu.create_out_postfix(ProcCrs.ref if src.px <= ref.px else ProcCrs.src, cfg['model'], cfg['kernel'])
        on = pair.src_path.stem + post
        if res.exit_code == 0:
            fresh_cli[k] = (sig(d / on), sig(d / (pathlib.Path(on).stem + '_PARAM.tif')))
    cases, lines, impls = [], [], []
    for i in run.indices(n):
        case = gen_history(run, i)
        d = tmp / f'h{i}'
        shutil.copytree(base, d)
        content = {}     # file name -> content id as the model sees it
        for name in os.listdir(d):
            content[name] = 1
        for name in case['pre']:
            if case['pre_kind'] == 'garbage':
                (d / name).write_bytes(b'not a raster at all')
                content[name] = 2
            else:
                shutil.copy(tmp / 'fresh0' / ('o.tif' if 'PARAM' not in name else 'o_PARAM.tif'), d / name)
                content[name] = 10 if 'PARAM' not in name else 20
        init = dict(content)
        outcomes = []
        rf_shared = None
        ok_case = True
        with warnings.catch_warnings():
            warnings.simplefilter('ignore')
            if case['style'] == 'same-object':
                rf_shared = RasterFuse(d / pair.src_path.name, d / pair.ref_path.name)
                rf_shared.__enter__()
            try:
                for ci, c in enumerate(case['calls']):
                    before = file_state(d)
                    pname = pathlib.Path(c['out']).stem + '_PARAM.tif' if c['param'] else None
                    try:
                        if c['via'] == 'cli':
                            # the CLI names its outputs itself: emulate the requested name through --out-dir + rename is not
                            # possible, so CLI calls use their own naming and are checked with the same rules
                            cfg = CONFIGS[c['cfg']]
                            args = ['fuse', str(d / pair.src_path.name), str(d / pair.ref_path.name), '-m', cfg['model'], '-k',
                                    str(cfg['kernel'][0]), str(cfg['kernel'][1]), '-nbo', '-t', '1']
                            if c['overwrite']:
                                args.append('-o')
                            if c['param']:
                                args.append('-pi')
                            res = CliRunner().invoke(cli.cli, args)
                            from homonim import utils as hu
                            from homonim.enums import ProcCrs
                            post = hu.create_out_postfix(ProcCrs.ref if src.px <= ref.px else ProcCrs.src, cfg['model'], cfg['kernel'])
                            c = dict(c, out=pair.src_path.stem + post)
                            pname = pathlib.Path(c['out']).stem + '_PARAM.tif' if c['param'] else None
                            oc = 'ok' if res.exit_code == 0 else ('exists' if res.exit_code == 1 and
                                                                  ((d / c['out']).name in before or (pname in before)) and
                                                                  not c['overwrite'] else f'other:exit{res.exit_code}')
                        else:
                            rf = rf_shared
                            if rf is None:
                                with RasterFuse(d / pair.src_path.name, d / pair.ref_path.name) as rf:
                                    api_call(rf, d, c)
                            else:
                                api_call(rf, d, c)
                            oc = 'ok'
                    except FileExistsError:
                        oc = 'exists'
                    except Exception as ex:
                        oc = f'other:{type(ex).__name__}'
                    outcomes.append(oc)
                    after = file_state(d)
                    sub = dict(case, call_index=ci)
                    outs = {c['out']} | ({pname} if pname else set())
                    # leg 3 on the real directory
                    if oc.startswith('other'):
                        run.fail(sub, f'call {ci} ({c}) ended with {oc} instead of success or FileExistsError',
                                 signature=dict(kind='other-error', as_str=c['as_str'], via=c['via']))
                        ok_case = False
                        break
                    changed = [nm for nm in before if nm not in outs and (nm not in after or after[nm] != before[nm])]
                    new = [nm for nm in after if nm not in before and nm not in outs and not nm.endswith(SIDECARS)]
                    if changed:
                        run.fail(sub, f'call {ci} modified files that are not requested outputs: {changed}', signature=dict(kind='touched-other'))
                        ok_case = False
                        break
                    if new:
                        run.fail(sub, f'call {ci} created unrequested files: {new}', signature=dict(kind='stray-files'))
                        ok_case = False
                        break
                    if oc == 'exists':
                        if after != before:
                            diff = [nm for nm in set(after) | set(before) if after.get(nm) != before.get(nm)]
                            run.fail(sub, f'call {ci} raised FileExistsError but the directory changed: {diff}',
                                     signature=dict(kind='clobber-on-refusal'))
                            ok_case = False
                            break
                        existed = (c['out'] in before) or (pname is not None and pname in before)
                        if c['overwrite'] or not existed:
                            run.fail(sub, f'call {ci} raised FileExistsError although overwrite={c["overwrite"]} and existing={existed}',
                                     signature=dict(kind='spurious-refusal'))
                            ok_case = False
                            break
                    else:
                        existed = (c['out'] in before) or (pname is not None and pname in before)
                        if existed and not c['overwrite']:
                            run.fail(sub, f'call {ci} succeeded over an existing output without overwrite', signature=dict(kind='clobbered'))
                            ok_case = False
                            break
                        got = (sig(d / c['out']), sig(d / pname) if pname else None)
                        fr = fresh_cli[c['cfg']] if c['via'] == 'cli' else fresh[(c['cfg'], c.get('mbm', 0))]
                        exp = (fr[0], fr[1] if pname else None)
                        if got != exp:
                            which = 'corrected' if got[0] != exp[0] else 'parameter'
                            run.fail(sub, f'call {ci}: the {which} output differs from what the same call produces in a fresh directory '
                                     f'(history dependence)', signature=dict(kind='history-dependent'))
                            ok_case = False
                            break
                        content[c['out']] = 100 + c['cfg']
                        if pname:
                            content[pname] = 200 + c['cfg']
                    case['calls'][ci] = dict(c)
            finally:
                if rf_shared is not None:
                    rf_shared.__exit__(None, None, None)
        run.evaluations += 1
        run.hist[f"style={case['style']}"] += 1
        for oc in outcomes:
            run.hist[f'outcome={oc.split(":")[0]}'] += 1
        if case['pre'] or len(case['calls']) > 1:
            run.nontrivial.add(repr(case['calls']) + repr(case['pre']))
        if not ok_case:
            continue
        # model line
        line = 'fshist F ' + ' '.join(f'{k}:{v}' for k, v in sorted(init.items()))
        for c in case['calls']:
            pn = pathlib.Path(c['out']).stem + '_PARAM.tif' if c['param'] else '_'
            line += f" C {c['out']} {pn} {int(c['overwrite'])} {100 + c['cfg']} {200 + c['cfg']}"
        final = {nm: content.get(nm, 1) for nm in os.listdir(d) if not nm.endswith(SIDECARS)}
        impl = ','.join(outcomes) + ' | ' + ' '.join(f'{k}:{v}' for k, v in sorted(final.items()))
        cases.append(case)
        lines.append(line)
        impls.append(impl)
        run.sample(dict(history=case, request=line, impl=impl), 3)
        shutil.rmtree(d, ignore_errors=True)
    run.compare_lines(cases, lines, impls)
    multi_source_cli(run, tmp, pair, src, ref, fresh_cli)
    tilde_paths(run, tmp, pair)
    refused_calls_leave_nothing(run, tmp, pair)
    if run.only is None:
        stale_sidecar_leg(run, tmp, pair)
        symlink_source_leg(run, tmp, pair)
        positional_flags_leg(run, tmp, pair)


def sig_px(path):
    """pixels and masks only (the FUSE_* tags name the input files, which differ between directories)"""
    with rio.Env(GDAL_TIFF_INTERNAL_MASK=True):
        with rio.open(path) as ds:
            h = hashlib.sha1()
            h.update(np.nan_to_num(ds.read(), nan=-12345.0).tobytes())
            h.update(ds.read_masks().tobytes())
            return h.hexdigest()


def tree_state(root):
    out = {}
    for p in sorted(pathlib.Path(root).rglob('*')):
        if p.is_dir():
            out[str(p.relative_to(root)) + '/'] = ('dir',)      # directories count: a call must not leave new ones behind either
        if p.is_file():
            st = p.stat()
            out[str(p.relative_to(root))] = (hashlib.sha1(p.read_bytes()).hexdigest(), st.st_mtime_ns, st.st_size)
    return out


def stale_sidecar_leg(run, tmp, pair):
    """
    Overwriting outputs whose earlier versions own GDAL side-car files (`<file>.aux.xml`: an earlier run with the strict GeoTIFF
    profile keeps its tags and band descriptions there): the new outputs replace the old ones *completely* - same decoded content
    and the same files as the same call into an empty directory.
    """
    from homonim import RasterFuse, ParamStats
    from homonim.enums import Model
    old_new = tmp / 'sidecar_old_new'
    fresh = tmp / 'sidecar_fresh'
    for d in (old_new, fresh):
        d.mkdir()

    def call(d, model, kernel, thresh, overwrite, profile):
        with warnings.catch_warnings():
            warnings.simplefilter('ignore')
            with RasterFuse(pair.src_path, pair.ref_path) as rf:
                rf.process(d / 'corr.tif', Model(model), kernel, param_filename=d / 'corr_PARAM.tif', overwrite=overwrite, build_ovw=False,
                           block_config=dict(threads=1), model_config=dict(r2_inpaint_thresh=thresh), out_profile=profile)
    case = dict(i=670_000, op='overwrite of outputs that own side-car files')
    try:
        call(old_new, 'gain-offset', (3, 3), 0.9, False, dict(creation_options=dict(profile='GeoTIFF')))
        had = sorted(n for n in os.listdir(old_new) if n.endswith(SIDECARS))
        call(old_new, 'gain-offset', (5, 5), 0.1, True, None)
        call(fresh, 'gain-offset', (5, 5), 0.1, False, None)
    except Exception as ex:
        run.fail(case, f'raised {type(ex).__name__}: {ex}', signature=dict(kind='other-error', op='sidecar'))
        return
    run.evaluations += 1
    run.hist[f'overwrite over outputs with side-cars ({len(had)} side-car files before)'] += 1
    if had:
        run.nontrivial.add(('stale-sidecar',))
    a, b = sorted(os.listdir(old_new)), sorted(os.listdir(fresh))
    if a != b:
        run.fail(case, f'after the overwrite the directory holds {a}, the same call into an empty directory gives {b}',
                 signature=dict(kind='stale-files'))
        return
    for nm in ('corr.tif', 'corr_PARAM.tif'):
        if sig(old_new / nm) != sig(fresh / nm):
            with rio.open(old_new / nm) as x, rio.open(fresh / nm) as y:
                dt = {k: (x.tags().get(k), y.tags().get(k)) for k in set(x.tags()) | set(y.tags()) if x.tags().get(k) != y.tags().get(k)}
            run.fail(case, f'{nm} written over an earlier output differs from the one written into an empty directory (tags that differ: {dt})',
                     signature=dict(kind='history-dependent', op='sidecar'))
            return
    with warnings.catch_warnings():
        warnings.simplefilter('ignore')
        with ParamStats(old_new / 'corr_PARAM.tif') as p1, ParamStats(fresh / 'corr_PARAM.tif') as p2:
            s1, s2 = json.dumps(p1.stats(threads=1), default=float, sort_keys=True), json.dumps(p2.stats(threads=1), default=float, sort_keys=True)
    if s1 != s2:
        run.fail(case, 'parameter statistics of the overwritten output differ from those of a fresh run', signature=dict(kind='history-dependent', op='sidecar-stats'))


def symlink_source_leg(run, tmp, pair):
    """
    `homonim fuse` on a source given through a symbolic link in another directory, without --out-dir: the outputs are requested next
    to the path that was given (the link) and named after it; the directory of the link's target gets nothing, an output that
    already exists beside the link is protected without -o and replaced with it, and a bystander of the same name beside the target
    is never touched.  Also a source given by a relative path from the working directory.
    """
    from click.testing import CliRunner
    from homonim import cli
    arch, work = tmp / 'sl_archive', tmp / 'sl_work'
    arch.mkdir()
    work.mkdir()
    shutil.copy(pair.src_path, arch / 'scene.tif')
    try:
        os.symlink(arch / 'scene.tif', work / 'src.tif')
    except OSError:
        run.hist['symbolic links not supported here: skipped'] += 1
        return
    args = ['fuse', str(work / 'src.tif'), str(pair.ref_path), '-m', 'gain', '-k', '1', '1', '-nbo', '-t', '1', '-pi']

    def listing(d):
        return sorted(p.name for p in d.iterdir())
    case = dict(i=680_000, op='cli fuse on a symbolic link to the source, no --out-dir')
    res = CliRunner().invoke(cli.cli, args)
    run.evaluations += 1
    run.hist['cli runs on a symlinked source'] += 1
    run.nontrivial.add(('symlink',))
    made = [n for n in listing(work) if n != 'src.tif']
    if res.exit_code != 0:
        run.fail(case, f'exit status {res.exit_code}', signature=dict(kind='other-error', op='symlink'))
        return
    if listing(arch) != ['scene.tif'] or len(made) != 2 or not all(n.startswith('src_FUSE_') for n in made):
        run.fail(case, f'outputs are not beside the given path: link directory {listing(work)}, target directory {listing(arch)}',
                 signature=dict(kind='outputs-elsewhere'))
        return
    # a bystander beside the target, named as the outputs would be if they were named after the target
    by = arch / made[0].replace('src_FUSE_', 'scene_FUSE_')
    by.write_bytes(b'not to be touched')
    before_w, before_a = file_state(work), file_state(arch)
    res2 = CliRunner().invoke(cli.cli, args)
    run.evaluations += 1
    case2 = dict(i=680_001, op='second run without -o')
    if res2.exit_code == 0:
        run.fail(case2, 'the second run without -o succeeded although its outputs exist', signature=dict(kind='clobbered', op='symlink'))
    elif file_state(work) != before_w or file_state(arch) != before_a:
        run.fail(case2, 'the refused second run changed files', signature=dict(kind='clobber-on-refusal', op='symlink'))
    res3 = CliRunner().invoke(cli.cli, args + ['-o'])
    run.evaluations += 1
    case3 = dict(i=680_002, op='third run with -o')
    after_w = file_state(work)
    if res3.exit_code != 0:
        run.fail(case3, f'the run with -o exited {res3.exit_code}', signature=dict(kind='other-error', op='symlink -o'))
    elif file_state(arch) != before_a:
        run.fail(case3, f'the run with -o touched the target directory: {listing(arch)}', signature=dict(kind='touched-other', op='symlink'))
    elif any(after_w[n][1] == before_w[n][1] for n in made):
        run.fail(case3, 'the run with -o did not replace the outputs beside the link', signature=dict(kind='not-replaced', op='symlink'))
    # relative source path from the working directory
    rel = tmp / 'sl_rel'
    (rel / 'sub').mkdir(parents=True)
    shutil.copy(pair.src_path, rel / 'sub' / 'img.tif')
    old = os.getcwd()
    try:
        os.chdir(rel)
        res4 = CliRunner().invoke(cli.cli, ['fuse', 'sub/img.tif', str(pair.ref_path), '-m', 'gain', '-k', '1', '1', '-nbo', '-t', '1'])
    finally:
        os.chdir(old)
    run.evaluations += 1
    if res4.exit_code != 0 or listing(rel) != ['sub'] or len([n for n in listing(rel / 'sub') if n.startswith('img_FUSE_')]) != 1:
        run.fail(dict(i=680_003, op='relative source path'), f'exit {res4.exit_code}; {listing(rel)} / {listing(rel / "sub")}',
                 signature=dict(kind='outputs-elsewhere', op='relative'))


def positional_flags_leg(run, tmp, pair):
    """
    The flags of `process()` given positionally, in the documented order (corr_filename, model, kernel_shape, param_filename,
    build_ovw, overwrite): `..., param, True)` asks for overviews, NOT for overwriting - existing outputs are refused and left
    alone; `..., param, False, True)` overwrites.
    """
    from homonim import RasterFuse
    from homonim.enums import Model
    d = tmp / 'positional'
    d.mkdir()
    corr, par = d / 'corr.tif', d / 'corr_PARAM.tif'
    with warnings.catch_warnings():
        warnings.simplefilter('ignore')
        with RasterFuse(pair.src_path, pair.ref_path) as rf:
            rf.process(corr, Model.gain, (1, 1), par, False)
            before = file_state(d)
            for k, (args, want) in enumerate((((corr, Model.gain, (3, 3), par, True), 'exists'), ((str(corr), Model.gain, (3, 3), str(par), False, False), 'exists'),
                                              ((corr, Model.gain, (3, 3), par, False, True), 'ok'))):
                case = dict(i=690_000 + k, op='process() with positional flags', flags=[repr(a) for a in args[4:]], expect=want)
                try:
                    rf.process(*args)
                    got = 'ok'
                except FileExistsError:
                    got = 'exists'
                except Exception as ex:
                    got = f'raised {type(ex).__name__}'
                run.evaluations += 1
                run.hist[f'positional flags: {got}'] += 1
                run.nontrivial.add(('positional', k))
                after = file_state(d)
                if got != want:
                    run.fail(case, f'process(corr, model, kernel, param, {", ".join(repr(a) for a in args[4:])}) {got}; the documented order '
                             f'(build_ovw, overwrite) demands: {want}', signature=dict(kind='clobbered' if got == 'ok' else 'other-error', op='positional'))
                elif want == 'exists' and after != before:
                    run.fail(case, 'the refused call changed the existing outputs', signature=dict(kind='clobber-on-refusal', op='positional'))
                elif want == 'ok' and any(after[n][0] == before[n][0] for n in ('corr.tif', 'corr_PARAM.tif')):
                    run.fail(case, 'the call with overwrite=True (sixth positional argument) did not replace the outputs',
                             signature=dict(kind='not-replaced', op='positional'))


def refused_calls_leave_nothing(run, tmp, pair):
    """
    A call that is refused (one requested output exists, no overwrite) while its other output is requested in a directory that
    does not exist yet: the refusal leaves the file system exactly as it was - no file, and no directory, appears.
    """
    from homonim import RasterFuse
    from homonim.enums import Model
    for k, (existing, as_str) in enumerate((('param', True), ('corr', False), ('param', False), ('corr', True))):
        root = tmp / f'refused{k}'
        root.mkdir()
        (root / 'have.tif').write_bytes(b'existing output')
        corr = root / 'have.tif' if existing == 'corr' else root / 'new_a' / 'sub' / 'corr.tif'
        par = root / 'have.tif' if existing == 'param' else root / 'new_b' / 'sub' / 'corr_PARAM.tif'
        before = tree_state(root)
        case = dict(i=660_000 + k, op='refused call, other output in a new directory', existing=existing, as_str=as_str)
        outcome = 'returned'
        try:
            with warnings.catch_warnings():
                warnings.simplefilter('ignore')
                with RasterFuse(pair.src_path, pair.ref_path) as rf:
                    rf.process(str(corr) if as_str else corr, Model.gain, (1, 1), param_filename=str(par) if as_str else par, overwrite=False,
                               block_config=dict(threads=1))
        except FileExistsError:
            outcome = 'exists'
        except Exception as ex:
            outcome = f'raised {type(ex).__name__}'
        run.evaluations += 1
        run.hist[f'refused calls with a new directory: {outcome.split()[0]}'] += 1
        run.nontrivial.add(('refused', k))
        after = tree_state(root)
        if outcome == 'returned':
            run.fail(case, 'the call succeeded over an existing output without overwrite', signature=dict(kind='clobbered'))
        elif after != before:
            diff = sorted(set(after) ^ set(before)) + [n for n in before if n in after and after[n] != before[n]]
            run.fail(case, f'the call was refused ({outcome}) but left the file system changed: {diff}', signature=dict(kind='clobber-on-refusal'))


def tilde_paths(run, tmp, pair):
    """
    Output paths that start with `~` (str and Path), with files of those names already present in the home directory and no
    overwrite: whatever the call does with such a path - expand it, treat it literally, or fail - it must not replace or modify the
    existing files (the path that is checked is the path that is created).
    """
    from homonim import RasterFuse
    from homonim.enums import Model
    home, work = tmp / 'tilde_home', tmp / 'tilde_work'
    home.mkdir()
    work.mkdir()
    old_home, old_cwd = os.environ.get('HOME'), os.getcwd()
    try:
        os.environ['HOME'] = str(home)
        os.chdir(work)
        for k, (as_str, with_param) in enumerate(((True, True), (False, True), (True, False), (False, False))):
            for nm in ('corrected.tif', 'params.tif'):
                (home / nm).write_bytes(b'precious data %d' % k)
            before = tree_state(home)
            corr = '~/corrected.tif' if as_str else pathlib.Path('~/corrected.tif')
            par = ('~/params.tif' if as_str else pathlib.Path('~/params.tif')) if with_param else None
            case = dict(i=650_000 + k, op='output path starting with ~', as_str=as_str, param=with_param, overwrite=False)
            outcome = 'returned'
            try:
                with warnings.catch_warnings():
                    warnings.simplefilter('ignore')
                    with RasterFuse(pair.src_path, pair.ref_path) as rf:
                        rf.process(corr, Model.gain, (1, 1), param_filename=par, overwrite=False, block_config=dict(threads=1))
            except FileExistsError:
                outcome = 'exists'
            except Exception as ex:
                outcome = f'raised {type(ex).__name__}'
            run.evaluations += 1
            run.hist[f'tilde paths: {outcome.split()[0]}'] += 1
            run.nontrivial.add(('tilde', k))
            after = tree_state(home)
            changed = [n for n in before if after.get(n) != before[n]]
            if changed:
                run.fail(case, f'process({corr!r}, overwrite=False) {outcome}, and the existing files {changed} in the home directory were '
                         f'replaced or modified', signature=dict(kind='clobbered', tilde=True))
            shutil.rmtree(work, ignore_errors=True)
            work.mkdir(exist_ok=True)
            os.chdir(work)
    finally:
        os.chdir(old_cwd)
        if old_home is None:
            os.environ.pop('HOME', None)
        else:
            os.environ['HOME'] = old_home


def multi_source_cli(run, tmp, pair, src, ref, fresh_cli):
    """
    One `homonim fuse` call with several source images in different directories: without --out-dir every corrected image
    belongs beside its own source, with --out-dir all of them in that directory; nothing else may appear or change, an
    existing output is refused without -o, and each output equals what a fresh single run produces.
    """
    from click.testing import CliRunner
    from homonim import cli, utils as hu
    from homonim.enums import ProcCrs
    cfg = CONFIGS[0]
    post = hu.create_out_postfix(ProcCrs.ref if src.px <= ref.px else ProcCrs.src, cfg['model'], cfg['kernel'])
    if 0 not in fresh_cli:
        return
    fresh_px = sig_px(tmp / 'freshcli0' / (pair.src_path.stem + post))
    # k = 3: non-default output encoding and a parameter image - the options of one call are shared by all its sources
    enc_opts = ['-pi', '--dtype', 'int16', '--nodata', '-32768']
    for k, (same_names, out_dir) in enumerate([(True, False), (False, False), (False, True), (False, True)]):
        root = tmp / f'multi{k}'
        extra_opts = enc_opts if k == 3 else []
        if k == 3:
            d1 = tmp / 'freshcli_enc'
            d1.mkdir()
            shutil.copy(pair.src_path, d1 / pair.src_path.name)
            shutil.copy(pair.ref_path, d1 / pair.ref_path.name)
            with warnings.catch_warnings():
                warnings.simplefilter('ignore')
                r1 = CliRunner().invoke(cli.cli, ['fuse', str(d1 / pair.src_path.name), str(d1 / pair.ref_path.name), '-m', cfg['model'], '-k',
                                                  str(cfg['kernel'][0]), str(cfg['kernel'][1]), '-nbo', '-t', '1'] + enc_opts)
            if r1.exit_code != 0:
                continue
            fresh_px = sig_px(d1 / (pair.src_path.stem + post))
        (root / 'day1').mkdir(parents=True)
        (root / 'day2').mkdir()
        (root / 'refs').mkdir()
        (root / 'out').mkdir()
        # (k = 1, 3: file names whose stem contains dots)
        n1, n2 = ('a.tif', 'a.tif') if same_names else (('a.tif', 'b.tif') if k == 2 else ('scene.day1.tif', 'scene.v2.drone.tif'))
        shutil.copy(pair.src_path, root / 'day1' / n1)
        shutil.copy(pair.src_path, root / 'day2' / n2)
        shutil.copy(pair.ref_path, root / 'refs' / 'ref.tif')
        base = ['fuse', str(root / 'day1' / n1), str(root / 'day2' / n2), str(root / 'refs' / 'ref.tif'), '-m', cfg['model'], '-k',
                str(cfg['kernel'][0]), str(cfg['kernel'][1]), '-nbo', '-t', '1'] + (['-od', str(root / 'out')] if out_dir else []) + extra_opts
        exp_outs = ({f'out/{pathlib.Path(n1).stem}{post}', f'out/{pathlib.Path(n2).stem}{post}'} if out_dir else
                    {f'day1/{pathlib.Path(n1).stem}{post}', f'day2/{pathlib.Path(n2).stem}{post}'})
        main_outs = set(exp_outs)
        if extra_opts:
            exp_outs |= {str(pathlib.Path(n).with_name(pathlib.Path(n).stem + '_PARAM.tif')) for n in exp_outs}
        case = dict(i=600_000 + k, op='cli, several sources', same_names=same_names, out_dir=out_dir, options=' '.join(extra_opts))
        for step, extra in enumerate(([], [], ['-o'])):
            before = tree_state(root)
            with warnings.catch_warnings():
                warnings.simplefilter('ignore')
                res = CliRunner().invoke(cli.cli, base + extra)
            after = tree_state(root)
            run.evaluations += 1
            run.hist['cli calls with several sources'] += 1
            sub = dict(case, step=step, args=' '.join(extra))
            changed = [n for n in before if n not in exp_outs and after.get(n) != before[n]]
            new = [n for n in after if n not in before and n not in exp_outs and not n.endswith(SIDECARS)]
            if changed or new:
                run.fail(sub, f'the call touched files that are not its outputs: changed {changed}, created {new} (outputs belong at '
                         f'{sorted(exp_outs)})', signature=dict(kind='stray-files' if new else 'touched-other'))
                break
            if step == 1:       # outputs exist, no -o: refused, nothing changes
                if res.exit_code == 0 or after != before:
                    run.fail(sub, f'a second call without -o exited {res.exit_code} and changed {[n for n in after if after[n] != before.get(n)]}',
                             signature=dict(kind='clobbered'))
                    break
                continue
            if res.exit_code != 0:
                run.fail(sub, f'the call exited {res.exit_code} ({str(res.exception)[:80]}) although no requested output existed or -o was '
                         f'given', signature=dict(kind='spurious-refusal'))
                break
            missing = [n for n in exp_outs if n not in after]
            if missing:
                run.fail(sub, f'requested outputs are missing: {missing}', signature=dict(kind='output-missing'))
                break
            wrong = [n for n in sorted(main_outs) if sig_px(root / n) != fresh_px]
            if wrong:
                run.fail(sub, f'outputs differ from what a fresh single run produces: {wrong}', signature=dict(kind='history-dependent'))
                break
        shutil.rmtree(root, ignore_errors=True)
