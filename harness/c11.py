"""
C11 - comparison statistics equal their definitions, whatever the blocking.

Integer-valued image pairs (values <= 60) with holes on dyadic and decimal geometry; the source as seen on the
processing grid is computed with the Lean model's resampler (`resample`), the statistics over the jointly valid
processing pixels with the model's `cmpstats` (exact rationals: N, r2 = squared Pearson correlation, RMSE^2, rRMSE^2).
The real RasterCompare.process is run with several block sizes and thread counts: N must equal the model's exactly and
be identical across partitions; r2 / RMSE / rRMSE within 2e-5 relative (float32 block sums); "Mean" = band average
(integer N floored); `homonim compare --output` JSON must contain the API result.
"""
import json
import math
import warnings
from fractions import Fraction

import numpy as np

import common
import fusion
import rasters
import resamp


def gen_case(run, i):
    rng = run.rng(i)
    grid = ['auto-ref', 'auto-ref', 'auto-src', 'forced-finer'][i % 4]
    family = rng.choice(['dyadic', 'dyadic', 'decimal'])
    src, ref = rasters.pair_geometry(rng, family, 'auto', max_src=30, margin=(1, 3), avoid_aligned_edges=True)
    if grid == 'auto-src' and src.px < ref.px:
        ps, pr = ref.px, src.px
        sw, sh = rng.randint(6, 16), rng.randint(6, 16)
        noisy = rasters.noisy_edges(family, ps, pr) and pr > 1
        sx0, sytop = ref.x0 + 3 * pr + (rasters.offgrid_offset(rng, family, ps, pr) if noisy else rng.randrange(0, pr)), ref.ytop - 2 * pr - (rasters.offgrid_offset(rng, family, ps, pr) if noisy else rng.randrange(0, pr))
        rw = -(-(sx0 + sw * ps - ref.x0) // pr) + 3
        rh = -(-(ref.ytop - (sytop - sh * ps)) // pr) + 2
        src = rasters.Grid(sx0, sytop, ps, ps, sw, sh, src.unit)
        ref = rasters.Grid(ref.x0, ref.ytop, pr, pr, rw, rh, src.unit)
    if i % 16 == 9:
        # non-square source pixels: coarser than the reference along x, finer along y, smaller in area: the reference grid is the
        # processing grid (by area) and the source reaches it by the down-sampling method
        grid, family = 'auto-ref', 'dyadic'
        pr = rng.choice([8, 16])
        spx, spy = pr * 3 // 2, pr // 4
        rx0, rytop = 8 * 40_000 + 3, 8 * 20_000 + 5
        sw, sh = rng.randint(5, 9), rng.randint(24, 40)
        sx0 = rx0 + 2 * pr + rasters.offgrid_offset(rng, 'dyadic', spx, pr)
        sytop = rytop - 2 * pr - rng.randrange(0, pr)
        src = rasters.Grid(sx0, sytop, spx, spy, sw, sh, rasters.Fraction(1, 8))
        ref = rasters.Grid(rx0, rytop, pr, pr, -(-(sx0 + sw * spx - rx0) // pr) + 2, -(-(rytop - (sytop - sh * spy)) // pr) + 2,
                           rasters.Fraction(1, 8))
    nsb = rng.choice([1, 2, 3])
    dup = rng.random() < 0.15 and nsb > 1
    return dict(i=i, family=family, grid=grid, src=src.to_dict(), ref=ref.to_dict(), nb=nsb,
                halvings=sorted(rng.sample([0, 1, 2, 3, 4], 3)), threads=rng.choice([1, 2, 4]),
                upsampling=rng.choice(['cubic_spline', 'bilinear', 'nearest']), dup_descr=dup,
                # how invalid pixels are encoded in the files (stratified: every combination within 36 cases)
                src_nodata=['nan', -9999.0, 'mask', 'mask+tag'][(i // 4) % 4], ref_nodata=[-9999.0, 'nan', 'mask+tag', 'mask'][(i // 16 + i // 4) % 4],
                descr=rng.choice(['none', 'ref', 'src']))


def run(run: common.Run):
    from homonim import RasterCompare
    from homonim.errors import BlockSizeError
    n = 32 if run.quick() else 500
    run.rule = ('integer-valued pairs (<= 60) with holes, dyadic/decimal geometry, 1-3 bands; processing grid auto (reference or '
                'source) or forced to the finer image; each compared with 3 block partitions x threads 1/2/4; model statistics from '
                'the exact resampler + cmpstats; non-trivial = more than one block or holes; distinct by (geometry, grid, partition)')
    tmp = run.tmpdir()
    prepared, lines = [], []
    for i in run.indices(n):
        case = gen_case(run, i)
        rng = run.rng(f'{i}-data')
        src, ref = rasters.Grid.from_dict(case['src']), rasters.Grid.from_dict(case['ref'])
        nb = case['nb']
        s = np.array([[[rng.randint(1, 60) for _ in range(src.w)] for _ in range(src.h)] for _ in range(nb)], float)
        r = np.array([[[rng.randint(1, 60) for _ in range(ref.w)] for _ in range(ref.h)] for _ in range(nb)], float)
        if case['i'] % 8 == 3:
            # signed data (temperatures, anomalies, indices): a reference whose mean is negative - rRMSE = RMSE / mean(ref) is then negative
            r = -r
            run.hist['reference with a negative mean'] += 1
        sv = np.ones((src.h, src.w), bool)
        rv = np.ones((ref.h, ref.w), bool)
        for _ in range(rng.randint(0, 4)):
            sv[rng.randrange(src.h), rng.randrange(src.w)] = False
        for _ in range(rng.randint(0, 2)):
            rv[rng.randrange(ref.h), rng.randrange(ref.w)] = False
        if case['grid'] == 'forced-finer':
            proc = 'src' if src.px * src.py <= ref.px * ref.py else 'ref'
        else:
            proc = 'auto'
        proc_ref = (proc == 'ref') or (proc == 'auto' and src.px * src.py <= ref.px * ref.py)
        # which image is resampled onto the processing grid, and how
        og, pg, oarr, ov = (src, ref, s, sv) if proc_ref else (ref, src, r, rv)
        down = og.px * og.py <= pg.px * pg.py
        method = 'average' if down else case['upsampling']
        modelled = method in ('average', 'nearest', 'bilinear')
        tie_geo = False
        if not down:
            # destination pixel centres exactly on source pixel edges: GDAL's tie-breaking is not modelled (whatever the kernel:
            # the validity of an up-sampled pixel follows the pixel that holds its centre)
            for (so, sp, sn), (do, dp, dn) in ((og.col_axis, pg.col_axis), (og.row_axis, pg.row_axis)):
                if any((2 * (do - so) + dp * (2 * j + 1)) % (2 * sp) == 0 for j in range(dn)):
                    modelled = False
                    tie_geo = True
        off = len(lines)
        if modelled:
            for b in range(nb):
                lines.append(resamp.model_resample_line(method, og, pg, oarr[b], ov))
        case['_tie'] = tie_geo
        prepared.append((case, src, ref, s, r, sv, rv, proc, proc_ref, modelled, off))
    rep1 = common.model_batch(lines)
    if rep1 is None:
        run.model_available = False
        return
    lines2, idx2 = [], []
    for case, src, ref, s, r, sv, rv, proc, proc_ref, modelled, off in prepared:
        idx2.append(len(lines2))
        if not modelled:
            continue
        pg = ref if proc_ref else src
        for b in range(case['nb']):
            other = resamp.parse_model_grid(rep1[off + b], pg.h, pg.w)
            # keep exact rationals: re-parse tokens
            toks = rep1[off + b].split()
            if proc_ref:
                st, rt = toks, [str(int(v)) if m else '_' for v, m in zip(r[b].ravel(), rv.ravel())]
            else:
                st, rt = [str(int(v)) if m else '_' for v, m in zip(s[b].ravel(), sv.ravel())], toks
            lines2.append('cmpstats S ' + ' '.join(st) + ' R ' + ' '.join(rt))
    rep2 = common.model_batch(lines2)
    if rep2 is None:
        run.model_available = False
        return
    run.lines_compared += len(lines) + len(lines2)
    for (case, src, ref, s, r, sv, rv, proc, proc_ref, modelled, off), k2 in zip(prepared, idx2):
        nb = case['nb']
        descr_r = ([f'R{k + 1}' for k in range(nb)] if case['descr'] == 'ref' else None)
        descr_s = ([f'S{k + 1}' for k in range(nb)] if case['descr'] == 'src' else None)
        if case['dup_descr']:
            descr_r = ['SR'] * nb
        sn, rn, dt = case['src_nodata'], case['ref_nodata'], 'float32'
        if case['i'] % 8 == 5:
            # 64-bit files whose nodata value is no float32 number (0.1, -1e30): the blocks are read as float32, and the nodata
            # pixels must still be recognised
            dt = 'float64'
            sn = rn = [0.1, -1e30][(case['i'] // 8) % 2]
            run.hist['float64 files with a nodata value that is not a float32 number'] += 1
        pair = fusion.write_pair(tmp, 'c11', src, ref, s, r, sv, rv, src_kw=dict(descriptions=descr_s),
                                 ref_kw=dict(descriptions=descr_r), src_nodata=sn, ref_nodata=rn, dtype=dt)
        run.hist[f"nodata encoding src={sn} ref={rn}"] += 1
        model_stats = None
        if modelled:
            model_stats = []
            for b in range(nb):
                t = rep2[k2 + b].split()
                model_stats.append(dict(n=int(t[0]), r2=None if t[1] == '_' else Fraction(t[1]),
                                        rmse2=None if t[2] == '_' else Fraction(t[2]),
                                        rrmse2=None if t[3] == '_' else Fraction(t[3])))
        ph, pw = fusion.proc_window_shape(src, ref, proc_ref)
        results = []
        for hv in case['halvings']:
            sub = dict(case, halvings=hv)
            mbm = fusion.block_mem_for(hv, ph, pw, (src.px, src.py), (ref.px, ref.py), proc_ref) if hv else 100
            try:
                with warnings.catch_warnings():
                    warnings.simplefilter('ignore')
                    with RasterCompare(pair.src_path, pair.ref_path, proc_crs=proc, force=True) as cmp:
                        st = cmp.process(threads=case['threads'], max_block_mem=mbm, upsampling=case['upsampling'])
                        nblk = len(list(cmp.block_pairs(max_block_mem=mbm)))
            except BlockSizeError:
                continue
            except Exception as ex:
                run.fail(sub, f'compare raised {type(ex).__name__}: {ex}', signature=dict(kind='raises'))
                continue
            run.evaluations += 1
            run.hist[f"grid={case['grid']}"] += 1
            run.hist['blocks>1' if nblk > nb else 'blocks=1'] += 1
            if nblk > nb or not sv.all():
                run.nontrivial.add((str(case['src']), case['grid'], hv, case['threads']))
            results.append((hv, nblk, st))
            rows = [v for k, v in st.items() if k != 'Mean']
            if len(rows) != nb:
                run.fail(sub, f'{nb} bands were compared but the report has {len(rows)} band rows (keys {list(st)})',
                         signature=dict(kind='band-rows-lost', dup_descr=case['dup_descr']))
            # Mean row = band average of the per-band values (N floored)
            vals = model_stats if (model_stats and len(rows) != nb) else None
            if len(rows) == nb:
                mean = st['Mean']
                for key in ('r2', 'rmse', 'rrmse'):
                    exp = sum(row[key] for row in rows) / nb
                    if len(run.__dict__.setdefault('_means', [])) < 600:
                        run._means.append((sub, key, [row[key] for row in rows], mean[key]))
                    if not (abs(mean[key] - exp) <= 1e-9 * max(1.0, abs(exp)) or (math.isnan(exp) and math.isnan(mean[key]))):
                        run.fail(sub, f'"Mean" {key} = {mean[key]} is not the band average {exp}', signature=dict(kind='mean-row'))
                if mean['n'] != int(sum(row['n'] for row in rows) / nb):
                    run.fail(sub, f'"Mean" N = {mean["n"]} is not the (floored) band average', signature=dict(kind='mean-row'))
            elif model_stats:
                mean = st['Mean']
                expn = int(sum(m['n'] for m in model_stats) / nb)
                expr2 = sum(float(m['r2']) for m in model_stats if m['r2'] is not None) / nb
                if mean['n'] != expn:
                    run.fail(sub, f'"Mean" row N={mean["n"]} is not the average over the {nb} compared bands (N={expn})',
                             signature=dict(kind='mean-row'))
                elif not (abs(mean['r2'] - expr2) <= 1e-4):
                    # the per-band rows are hidden by the name collision, so the Mean row is compared with the model's band
                    # definitions; with a forced finer grid and a non-nearest kernel those depend on the partition (D7)
                    local = case['upsampling'] == 'nearest' or case['grid'] != 'forced-finer'
                    run.fail(sub, f'"Mean" row (N={mean["n"]}, r2={mean["r2"]:.5f}) is not the average over the {nb} compared '
                             f'bands (N={expn}, r2={expr2:.5f})',
                             signature=dict(kind='mean-row') if local else dict(
                                 kind='stat-def', forced_finer=True, multi_block=nblk > nb, local_resampler=False))
            # definitions (model) per band
            if model_stats and len(rows) == nb:
                for b, (row, m) in enumerate(zip(rows, model_stats)):
                    if row['n'] != m['n']:
                        run.fail(sub, f'band {b + 1}: N = {row["n"]}, number of jointly valid processing pixels is {m["n"]}',
                                 signature=dict(kind='n-def'))
                        break
                    bad = None
                    if m['r2'] is not None and not (abs(row['r2'] - float(m['r2'])) <= 5e-5):
                        bad = f'r2 = {row["r2"]}, squared Pearson correlation is {float(m["r2"])}'
                    elif m['rmse2'] is not None and not (abs(row['rmse'] ** 2 - float(m['rmse2'])) <= 5e-5 * max(1.0, float(m['rmse2']))):
                        bad = f'RMSE = {row["rmse"]}, root mean square difference is {math.sqrt(float(m["rmse2"]))}'
                    elif m['rrmse2'] is not None and not (abs(row['rrmse'] ** 2 - float(m['rrmse2'])) <= 5e-5 * max(1e-3, float(m['rrmse2']))):
                        bad = f'rRMSE = {row["rrmse"]}, RMSE/mean(ref) is {math.sqrt(float(m["rrmse2"]))}'
                    if not bad and row['n'] > 0 and math.isfinite(row['rrmse']) and row['rrmse'] != 0 and (r > 0).all() != (row['rrmse'] > 0) \
                            and ((r > 0).all() or (r < 0).all()):
                        bad = (f'rRMSE = {row["rrmse"]} has the wrong sign: the reference is {"positive" if (r > 0).all() else "negative"} '
                               f'throughout, and rRMSE = RMSE / mean(reference)')
                    if bad:
                        run.fail(sub, f'band {b + 1}: {bad}', signature=dict(
                            kind='stat-def', forced_finer=case['grid'] == 'forced-finer', multi_block=nblk > nb,
                            local_resampler=case['upsampling'] == 'nearest' or case['grid'] != 'forced-finer'))
                        break
        # partition independence
        if len(results) > 1:
            base = results[0]
            for hv, nblk, st in results[1:]:
                for (k0, v0), (k1, v1) in zip(base[2].items(), st.items()):
                    if v0['n'] != v1['n']:
                        run.fail(dict(case, halvings=[base[0], hv]), f'N depends on the block partition: {v0["n"]} vs {v1["n"]}',
                                 signature=dict(kind='partition-n', forced_finer=case['grid'] == 'forced-finer',
                                                tie_geometry=bool(case.get('_tie'))))
                        break
                    # r2 is compared absolutely (it is a cancellation-prone quotient that can be ~0), RMSE / rRMSE relatively
                    d = max([abs(v0['r2'] - v1['r2'])] + [abs(v0[k] - v1[k]) / max(abs(v0[k]), 1e-6) for k in ('rmse', 'rrmse')
                                                        if not (math.isnan(v0[k]) or math.isnan(v1[k]))])
                    if d > 2e-5:
                        forced_finer = case['grid'] == 'forced-finer'
                        run.fail(dict(case, halvings=[base[0], hv]),
                                 f'statistics depend on the block partition ({base[1]} vs {nblk} blocks): relative difference {d:.2e} '
                                 f'in band {k0}', signature=dict(kind='partition-stats', forced_finer=forced_finer,
                                                                 local_resampler=case['upsampling'] == 'nearest' or not forced_finer,
                                                                 tie_geometry=bool(case.get('_tie'))))
                        break
        run.sample(dict(case={k: case[k] for k in ('i', 'grid', 'nb', 'halvings', 'threads', 'upsampling', 'dup_descr')},
                        model=[{k: str(v) for k, v in m.items()} for m in (model_stats or [])][:1]), 4)
    if run.only is None:
        near_identical_leg(run, tmp)
        undefined_band_leg(run, tmp)
        big_count_leg(run, tmp)
    check_means(run)
    cli_json(run, tmp)


def mean_line(vals):
    """request for the model's Mean entry of the band values `vals` (nan = undefined); None when a value is infinite"""
    from fractions import Fraction
    toks = []
    for v in vals:
        if math.isnan(v):
            toks.append('_')
        elif math.isinf(v):
            return None
        else:
            toks.append(str(Fraction(float(v))))
    return 'meanrow ' + ' '.join(toks)


def check_means(run):
    """the "Mean" entries collected during the run against the model's meanRow (Model/Stats.lean): undefined iff a band is"""
    from fractions import Fraction
    items = [(c, k, m, mean_line(v)) for c, k, v, m in getattr(run, '_means', [])]
    items = [it for it in items if it[3] is not None]
    if not items:
        return
    reps = common.model_batch([it[3] for it in items])
    if reps is None:
        run.model_available = False
        return
    for (case, key, mean, line), rep in zip(items, reps):
        run.lines_compared += 1
        if rep.strip() == '_':
            ok = math.isnan(mean)
        else:
            exp = float(Fraction(rep.strip()))
            ok = (not math.isnan(mean)) and abs(mean - exp) <= 1e-9 * max(1.0, abs(exp))
        run.hist['Mean entries compared with the model: ' + ('undefined' if rep.strip() == '_' else 'defined')] += 1
        if not ok:
            run.disagree(dict(case, statistic=key), line[:300], rep, repr(mean), what='"Mean" entry')


def near_identical_leg(run, tmp):
    """
    A source and reference that agree closely relative to their magnitude (16-bit digital numbers around 5000 and 40000 differing by a
    few counts; reflectances differing by 1e-4): RMSE and rRMSE must still be the root mean square *difference* over the jointly
    valid pixels and its ratio to the reference mean - a value reconstructed from sums of squares in single precision is not.  Same
    grid for both images (no resampling: the definition is evaluated with numpy in double precision on the file contents), a nodata
    area in each, three block partitions.
    """
    from homonim import RasterCompare
    u = 8
    g = rasters.Grid(u * 5000, u * 9000, 2 * u, 2 * u, 26, 22)
    for k, (base, spread, noise, scale) in enumerate(((5000, 300, 1, 1.0), (5000, 300, 10, 1.0), (40000, 2000, 3, 1.0), (3000, 500, 1, 1e-4))):
        rng = run.rng(f'near{k}')
        s = np.array([[[base + rng.randint(-spread, spread) for _ in range(g.w)] for _ in range(g.h)] for _ in range(2)], float)
        r = s + np.array([[[rng.randint(-noise, noise) for _ in range(g.w)] for _ in range(g.h)] for _ in range(2)], float)
        s, r = s * scale, r * scale
        sv = np.ones((g.h, g.w), bool)
        rv = np.ones((g.h, g.w), bool)
        sv[:3, :5] = False
        rv[-4:, -6:] = False
        pair = fusion.write_pair(tmp, f'c11near{k}', g, g, s, r, sv, rv)
        jv = sv & rv
        for mbm, th in ((100, 1), (2e-3, 2), (5e-4, 1)):
            case = dict(i=700_000 + 10 * k + int(th) + (0 if mbm == 100 else 3), op='near-identical pair', level=base * scale, noise=noise * scale,
                        max_block_mem=mbm, threads=th)
            try:
                with warnings.catch_warnings():
                    warnings.simplefilter('ignore')
                    with RasterCompare(pair.src_path, pair.ref_path) as cmp:
                        st = cmp.process(threads=th, max_block_mem=mbm)
            except Exception as ex:
                from homonim.errors import BlockSizeError
                if not isinstance(ex, BlockSizeError):
                    run.fail(case, f'compare raised {type(ex).__name__}: {ex}', signature=dict(kind='raises'))
                continue
            run.evaluations += 1
            run.hist['near-identical pairs'] += 1
            run.nontrivial.add(('near', k, mbm))
            rows = [v for kk, v in st.items() if kk != 'Mean']
            for b, row in enumerate(rows):
                a32, b32 = s[b].astype('float32').astype('float64')[jv], r[b].astype('float32').astype('float64')[jv]
                rmse = float(np.sqrt(np.mean((b32 - a32) ** 2)))
                rr = rmse / float(np.mean(b32))
                if row['n'] != int(jv.sum()) or not (abs(row['rmse'] - rmse) <= 2e-4 * rmse) or not (abs(row['rrmse'] - rr) <= 2e-4 * abs(rr)):
                    run.fail(case, f'band {b + 1}: N {row["n"]}, RMSE {row["rmse"]!r}, rRMSE {row["rrmse"]!r}; by definition over the '
                             f'{int(jv.sum())} jointly valid pixels {rmse!r}, {rr!r}', signature=dict(kind='stat-def', op='near-identical'))
                    break


def undefined_band_leg(run, tmp):
    """
    Bands whose statistics are undefined - a source band without a single valid pixel (N = 0), a band that is constant in both
    images (r2 = 0/0) - beside ordinary bands: the per-band rows report N by definition, and "Mean" is the band average of the
    rows as reported, which is undefined wherever one of its terms is (not the average of the defined terms, nor their sum over
    the number of bands).  Same grid for both images, three block partitions.
    """
    from homonim import RasterCompare
    u = 8
    g = rasters.Grid(u * 6000, u * 9000, 2 * u, 2 * u, 24, 20)
    for k, kind in enumerate(('empty source band', 'constant band', 'empty reference band')):
        rng = run.rng(f'undef{k}')
        s = np.array([[[rng.randint(1, 60) for _ in range(g.w)] for _ in range(g.h)] for _ in range(3)], float)
        r = s + np.array([[[rng.randint(-3, 3) for _ in range(g.w)] for _ in range(g.h)] for _ in range(3)], float)
        sv = np.ones((g.h, g.w), bool)
        rv = np.ones((g.h, g.w), bool)
        sv[:2, :4] = False
        jn = [int(sv.sum())] * 3
        if kind == 'empty source band':
            s[1] = -9999.0
            jn[1] = 0
        elif kind == 'empty reference band':
            r[2] = -9999.0
            jn[2] = 0
        else:
            s[0], r[0] = 7.0, 9.0
        pair = fusion.write_pair(tmp, f'c11undef{k}', g, g, s, r, sv, rv, src_nodata=-9999.0, ref_nodata=-9999.0)
        for mbm, th in ((100, 1), (2e-3, 2), (5e-4, 1)):
            case = dict(i=800_000 + 10 * k + int(th) + (0 if mbm == 100 else 3), op='band with undefined statistics', kind=kind,
                        max_block_mem=mbm, threads=th)
            try:
                with warnings.catch_warnings():
                    warnings.simplefilter('ignore')
                    with RasterCompare(pair.src_path, pair.ref_path) as cmp:
                        st = cmp.process(threads=th, max_block_mem=mbm)
            except Exception as ex:
                from homonim.errors import BlockSizeError
                if not isinstance(ex, BlockSizeError):
                    run.fail(case, f'compare raised {type(ex).__name__}: {ex}', signature=dict(kind='raises', op='undefined-band'))
                continue
            run.evaluations += 1
            run.hist['pairs with a band of undefined statistics'] += 1
            run.nontrivial.add(('undef', k, mbm))
            rows = [v for kk, v in st.items() if kk != 'Mean']
            if [row['n'] for row in rows] != jn:
                run.fail(case, f'N per band {[row["n"] for row in rows]}, jointly valid pixels per band {jn}',
                         signature=dict(kind='n-def', op='undefined-band'))
                continue
            mean = st['Mean']
            for key in ('r2', 'rmse', 'rrmse'):
                exp = sum(row[key] for row in rows) / len(rows)
                run.__dict__.setdefault('_means', []).append((case, key, [row[key] for row in rows], mean[key]))
                same = (math.isnan(exp) and math.isnan(mean[key])) or exp == mean[key] or abs(mean[key] - exp) <= 1e-9 * max(1.0, abs(exp))
                if not same:
                    run.fail(case, f'"Mean" {key} = {mean[key]!r} is not the band average {exp!r} of {[row[key] for row in rows]}',
                             signature=dict(kind='mean-row', op='undefined-band'))
                    break


def big_count_leg(run, tmp):
    """
    More jointly valid pixels than single precision can count (2^24 = 16 777 216): a 4100 x 4100 pair on one grid with scattered
    nodata pixels and an odd number of jointly valid ones - N is that number exactly, for one block and for many.
    """
    import rasterio as rio
    from rasterio.transform import Affine
    from homonim import RasterCompare
    n = 4100
    rng = np.random.default_rng(run.seed + 11)
    a = rng.integers(1, 200, size=(n, n), dtype=np.uint8)
    b = a.copy()
    b[::7, ::5] += 1
    a[rng.integers(0, n, 900), rng.integers(0, n, 900)] = 0
    b[rng.integers(0, n, 700), rng.integers(0, n, 700)] = 0
    if int(((a != 0) & (b != 0)).sum()) % 2 == 0:
        a[0, 0] = 0 if b[0, 0] != 0 and a[0, 0] != 0 else a[0, 0]
        if int(((a != 0) & (b != 0)).sum()) % 2 == 0:
            a[1, 1], b[1, 1] = (0, b[1, 1]) if a[1, 1] != 0 and b[1, 1] != 0 else (a[1, 1], b[1, 1])
    want = int(((a != 0) & (b != 0)).sum())
    prof = dict(driver='GTiff', width=n, height=n, count=1, dtype='uint8', crs='EPSG:32735', transform=Affine(2, 0, 400000, 0, -2, 7000000),
                nodata=0, tiled=True, blockxsize=512, blockysize=512, compress='deflate', zlevel=1)
    sp, rp = tmp / 'c11big_s.tif', tmp / 'c11big_r.tif'
    for p_, arr in ((sp, a), (rp, b)):
        with rio.open(p_, 'w', **prof) as ds:
            ds.write(arr, 1)
    for mbm, th in ((512, 1), (4, 4)):
        case = dict(i=710_000 + th, op='more than 2^24 jointly valid pixels', expected_n=want, max_block_mem=mbm, threads=th)
        try:
            with warnings.catch_warnings():
                warnings.simplefilter('ignore')
                with RasterCompare(sp, rp) as cmp:
                    st = cmp.process(threads=th, max_block_mem=mbm)
        except Exception as ex:
            run.fail(case, f'compare raised {type(ex).__name__}: {ex}', signature=dict(kind='raises', op='big'))
            continue
        run.evaluations += 1
        run.hist['pairs with more than 2^24 jointly valid pixels'] += 1
        run.nontrivial.add(('big-n', mbm))
        got = [v['n'] for k_, v in st.items() if k_ != 'Mean']
        if got != [want]:
            run.fail(case, f'N = {got}, the number of jointly valid pixels is {want}', signature=dict(kind='stat-def', op='big-n'))


def cli_json(run, tmp):
    """`homonim compare --output` JSON contains the API results"""
    from click.testing import CliRunner
    from homonim import RasterCompare, cli
    rng = run.rng('cli')
    src, ref = rasters.pair_geometry(rng, 'dyadic', 'auto', max_src=20, margin=(1, 2))
    s = np.array([[[rng.randint(1, 60) for _ in range(src.w)] for _ in range(src.h)] for _ in range(2)], float)
    r = np.array([[[rng.randint(1, 60) for _ in range(ref.w)] for _ in range(ref.h)] for _ in range(2)], float)
    pair = fusion.write_pair(tmp, 'c11cli', src, ref, s, r, None, None)
    out = tmp / 'c11_cmp.json'
    res = CliRunner().invoke(cli.cli, ['compare', str(pair.src_path), str(pair.ref_path), '--output', str(out), '-t', '1'])
    case = dict(i=10**6, op='cli compare --output')
    run.evaluations += 1
    if res.exit_code != 0 or not out.exists():
        run.fail(case, f'homonim compare exited {res.exit_code}', signature=dict(kind='cli'))
        return
    js = json.loads(out.read_text())
    with warnings.catch_warnings():
        warnings.simplefilter('ignore')
        with RasterCompare(pair.src_path, pair.ref_path) as cmp:
            api = cmp.process(threads=1)
    got = js.get(str(pair.src_path))
    if got != json.loads(json.dumps(api)):
        run.fail(case, f'JSON report {got} differs from the API result {api}', signature=dict(kind='cli-json'))
