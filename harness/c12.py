"""
C12 - parameter statistics equal their definitions and agree with what fuse wrote.

Parameter images (synthetic ones carrying the tags/descriptions fuse writes, with band-specific validity patterns and
tile-aligned empty regions; and images written by real fusions) are stored with several internal tilings (16x16,
32x16, striped, untiled) and read by ParamStats.stats with threads 1/2/4.  Every figure is compared with the Lean
model (`pstats`: exact rationals over the valid float32 pixels read back with rasterio, tile by tile): min/max exact,
mean/std to 1e-9 relative, in-paint percentage exact; the figures must not depend on tiling or thread count;
`homonim stats --output` JSON must contain the API result.
"""
import json
import math
import warnings
from fractions import Fraction

import numpy as np
import rasterio as rio

import common
import fusion
import rasters

MODELS = ['gain', 'gain_blk_offset', 'gain_offset']
TILINGS = [dict(tiled=True, blockxsize=16, blockysize=16), dict(tiled=True, blockxsize=32, blockysize=16),
           dict(tiled=False, blockysize=1), dict(tiled=False, blockysize=8), dict(tiled=True, blockxsize=64, blockysize=64)]


def write_param_image(path, grid, data, model, thresh, tiling, descr_base):
    nb3 = data.shape[0]
    n = nb3 // 3
    descr = [f'{descr_base[k % n]}_{sfx}' for sfx in ('GAIN', 'OFFSET', 'R2') for k in range(n)]
    tags = dict(FUSE_MODEL=model, FUSE_KERNEL_SHAPE='(5, 5)', FUSE_PROC_CRS='ref', FUSE_REF_FILE='ref.tif',
                FUSE_SRC_FILE='src.tif', FUSE_R2_INPAINT_THRESH=str(thresh))
    rasters.write_tif(path, grid, data, dtype='float32', nodata=float('nan'), tags=tags, descriptions=descr,
                      compress='deflate', **tiling)


def gen_synthetic(run, i):
    rng = run.rng(i)
    n = rng.choice([1, 2, 3])
    h, w = rng.randint(20, 70), rng.randint(20, 70)
    model = MODELS[i % 3]
    # (the API accepts any threshold; R2 of a poor fit is negative, of an exact fit 1.0)
    # 1e-05: a threshold whose repr has no decimal point (the FUSE_R2_INPAINT_THRESH tag then is not a YAML float - finding D26)
    thresh = [0.25, 1.5, None, 1e-05, -0.3, 1.0, 0.5, 0.0][(i // 3) % 8] if model == 'gain_offset' else 0.25   # (stratified: all within 24 cases)
    if model == 'gain_offset' and i % 9 == 2:
        thresh = 1.0          # the top of the documented range: pixels with R2 exactly 1.0 (an exact fit) are NOT below it
    data = np.zeros((3 * n, h, w), dtype='float32')
    for b in range(3 * n):
        k = b // n
        if k == 2:
            data[b] = np.array([[rng.choice([1.0, rng.uniform(-0.6, 1.0), rng.random(), rng.random()]) for _ in range(w)] for _ in range(h)], dtype='float32')
        else:
            # value range per band: mixed sign, all negative (e.g. the offsets of a hazy source), all positive, constant
            # (constant bands: -0.5 is exact in binary; 1/3 is not - its one-pass variance is rounding residue of either sign, finding D28)
            lo, hi = [(-3, 8), (-9, -1), (2, 8), (-3, 8), (-0.5, -0.5), (1 / 3, 1 / 3)][(i + b) % 6] if b != 0 else (-3, 8)
            data[b] = np.array([[rng.uniform(lo, hi) for _ in range(w)] for _ in range(h)], dtype='float32')
    if (i // 3) % 7 == 6:
        # the diagonal swath needs tiles that hold nothing: a larger image, 16 x 16 tiles among the tilings, a threshold
        h, w = rng.randint(56, 70), rng.randint(56, 70)
        model, thresh = 'gain_offset', rng.choice([0.25, 0.5])
        data = np.zeros((3 * n, h, w), dtype='float32')
        for b in range(3 * n):
            data[b] = np.array([[rng.uniform(-3, 8) if b < 2 * n else rng.random() for _ in range(w)] for _ in range(h)], dtype='float32')
    pattern = ['common-border', 'band1-strip', 'per-band-holes', 'r2-nan-patches', 'band1-empty-corner', 'inf-values', 'diagonal-swath'][(i // 3) % 7]
    data[:, :rng.randint(0, 3), :] = np.nan
    if pattern == 'band1-strip':
        c0 = 16 * rng.randint(0, max(0, w // 16 - 1))
        data[0, :, c0:c0 + 20] = np.nan           # first band invalid in a strip where the others are valid
    elif pattern == 'per-band-holes':
        for b in range(3 * n):
            for _ in range(rng.randint(1, 6)):
                r, c = rng.randrange(h), rng.randrange(w)
                data[b, r:r + rng.randint(1, 5), c:c + rng.randint(1, 5)] = np.nan
    elif pattern == 'r2-nan-patches':
        for b in range(2 * n, 3 * n):
            r, c = rng.randrange(h), rng.randrange(w)
            data[b, r:r + 6, c:c + 9] = np.nan
    elif pattern == 'band1-empty-corner':
        # every other time over the whole height: the bounding window of the FIRST band's valid pixels then is smaller than that
        # of the dataset mask (valid where any band is), and whole tiles hold data in the other bands only
        data[0, :(h if (i // 21) % 2 == 0 else min(h, 32)), :min(w - 4, 32)] = np.nan
    elif pattern == 'diagonal-swath':
        # a diagonal swath of valid data (a rotated footprint): tiles that meet the bounding window of the valid data but hold no
        # valid pixel at all
        rr, cc = np.mgrid[0:h, 0:w]
        data[:, np.abs(rr * w / h - cc) > max(3, w / 5)] = np.nan
    elif pattern == 'inf-values':
        # the nodata value of a parameter image is NaN, so +-inf are valid pixel values - and fuse writes them: +inf gains
        # where a whole kernel of the source is 0, -inf R2 where the reference is constant over a kernel
        for b in range(3 * n):
            if (i + b) % 2 == 0:
                for _ in range(rng.randint(1, 4)):
                    data[b, rng.randrange(h), rng.randrange(w)] = np.inf if b < 2 * n else -np.inf
        if n > 1:
            # a band with both signs (fuse writes such R2 bands where the reference is locally constant): mean and standard deviation
            # are NaN by definition - and in any case must not depend on the tiling or the block order (finding D20)
            data[1, rng.randrange(h), rng.randrange(w)] = -np.inf
            data[1, rng.randrange(h), rng.randrange(w)] = np.inf
    return dict(i=i, n=n, h=h, w=w, model=model, thresh=thresh, pattern=pattern,
                tilings=rng.sample(range(len(TILINGS)), 2) if pattern != 'diagonal-swath' else [0, rng.choice([2, 4])],
                threads=rng.choice([1, 2, 4])), data


def tok(v):
    f = Fraction(float(v))
    return str(f.numerator) if f.denominator == 1 else f'{f.numerator}/{f.denominator}'


def model_lines(path, model, thresh):
    """one `pstats` request per band, tiles as in the file"""
    lines = []
    with rio.open(path) as ds:
        count = ds.count
        for b in range(count):
            is_r2 = model == 'gain_offset' and (b >= count * 2 / 3)
            parts = []
            for _, win in ds.block_windows(b + 1):
                a = ds.read(b + 1, window=win)
                if np.isinf(a).any():
                    parts = None
                    break
                vals = a[np.isfinite(a)]
                parts.append('T ' + ' '.join(tok(v) for v in vals) if len(vals) else 'T')
            th = '_' if (thresh is None or not is_r2) else tok(thresh)
            if parts is None:
                lines.append('pstats _ 0 T')  # band holds +-inf (R2 with zero TSS): outside the rational model, skipped
                continue
            lines.append(f'pstats {th} {int(is_r2 and thresh is not None)} ' + ' '.join(parts))
    return lines


def inf_band_check(path, b, row, model, thresh):
    """a band that holds +-inf (outside the rational model): the figures against their definitions in IEEE arithmetic"""
    with rio.open(path) as ds:
        a = ds.read(b + 1).astype('float64')
        count = ds.count
    v = a[~np.isnan(a)]
    if not np.isinf(v).any():
        return None
    same = lambda x, y: (np.isnan(x) and np.isnan(y)) or x == y or (np.isfinite(x) and np.isfinite(y) and abs(x - y) <= 1e-9 * max(1.0, abs(y)))
    with np.errstate(all='ignore'):
        exp = dict(min=float(v.min()), max=float(v.max()), mean=float(v.sum() / v.size))
        exp['std'] = float(np.sqrt((v * v).sum() / v.size - exp['mean'] ** 2))
    for k_, e in exp.items():
        if not same(float(row[k_]), e):
            return f'band {b + 1} (holds +-inf as valid values): {k_} = {row[k_]}, over all {v.size} valid pixels it is {e}'
    is_r2 = model == 'gain_offset' and (b >= count * 2 / 3)
    if is_r2 and thresh is not None:
        ip = 100.0 * float((v < thresh).sum()) / v.size
        if 'inpaint_p' not in row or not (abs(row['inpaint_p'] - ip) <= 1e-9):
            return f'band {b + 1} (holds -inf as valid values): inpaint_p = {row.get("inpaint_p")}, 100*#(R2 < {thresh})/n is {ip}'
    return None


def run(run: common.Run):
    from homonim import ParamStats
    n = 21 if run.quick() else 210
    run.rule = ('synthetic parameter images (1-3 band pairs, 20..70 px, band-specific validity: first-band strips, per-band holes, '
                'R2 NaN patches, empty corners) + images written by real fusions; each stored with 2 of 5 tilings; stats with '
                'threads 1/2/4; every band figure vs the exact model; distinct by (image, tiling, threads)')
    tmp = run.tmpdir()
    jobs = []
    for i in run.indices(n):
        case, data = gen_synthetic(run, i)
        g = rasters.Grid(8 * 40_000, 8 * 90_000, 8, 8, case['w'], case['h'])
        for t in case['tilings']:
            p = tmp / f'c12_{i}_{t}_PARAM.tif'
            write_param_image(p, g, data, case['model'], case['thresh'], TILINGS[t], [f'B{k + 1}' for k in range(case['n'])])
            jobs.append((dict(case, tiling=t), p, case['model'], case['thresh']))
    # images written by real fusions, re-tiled
    for f in range(2 if run.quick() else 12):
        if run.only is not None:
            break
        rng = run.rng(f'fuse{f}')
        src, ref = rasters.pair_geometry(rng, 'dyadic', 'auto', max_src=40, margin=(1, 2))
        nb = rng.choice([1, 2])
        s = np.array([[[rng.randint(20, 200) for _ in range(src.w)] for _ in range(src.h)] for _ in range(nb)], float)
        r = np.array([[[rng.randint(30, 150) for _ in range(ref.w)] for _ in range(ref.h)] for _ in range(nb)], float)
        r[:, : ref.h // 3, :] = 77.0  # locally constant reference: R2 undefined there while gain/offset exist
        sv = np.ones((src.h, src.w), bool)
        sv[:, : src.w // 4] = rng.random() < 0.5
        pair = fusion.write_pair(tmp, f'c12f{f}', src, ref, s, r, sv, None)
        model = ['gain-offset', 'gain-blk-offset'][f % 2]
        thresh = [1e-05, None, 0.5, 0.25, 2e-05][f % 5]
        try:
            res = fusion.run_fuse(pair.src_path, pair.ref_path, tmp / f'c12f{f}_out.tif', model=model, kernel_shape=(3, 3),
                                  param=True, threads=1, model_config=dict(r2_inpaint_thresh=thresh),
                                  out_profile=dict(creation_options=dict(tiled=True, blockxsize=16, blockysize=16)))
        except Exception as ex:
            from homonim.errors import BlockSizeError
            if not isinstance(ex, BlockSizeError):
                run.fail(dict(i=2000 + f), f'fusion raised {type(ex).__name__}: {ex}', signature=dict(kind='raises'))
            continue
        jobs.append((dict(i=2000 + f, from_fuse=True, model=model, thresh=thresh, threads=2, tiling='fuse-16x16'),
                     res.param_path, model.replace('-', '_'), thresh))
    lines, spans = [], []
    for case, p, model, thresh in jobs:
        ml = model_lines(p, model, thresh)
        spans.append((len(lines), len(ml)))
        lines += ml
    replies = common.model_batch(lines)
    if replies is None:
        run.model_available = False
        return
    per_image = {}
    for (case, p, model, thresh), (off, cnt) in zip(jobs, spans):
        try:
            with warnings.catch_warnings():
                warnings.simplefilter('ignore')
                with ParamStats(p) as ps:
                    st = ps.stats(threads=case['threads'])
        except Exception as ex:
            run.fail(case, f'ParamStats raised {type(ex).__name__}: {str(ex)[:120]}',
                     signature=dict(kind='stats-raises', thresh=str(thresh), model=model))
            continue
        run.evaluations += 1
        run.hist[f'model={model}'] += 1
        run.hist[f"pattern={case.get('pattern', 'from-fuse')}"] += 1
        run.nontrivial.add((case['i'], str(case['tiling']), case['threads']))
        if len(st) != cnt:
            run.fail(case, f'{len(st)} rows for {cnt} bands', signature=dict(kind='rows'))
            continue
        bad = None
        for b, (row, rep) in enumerate(zip(st, replies[off:off + cnt])):
            run.lines_compared += 1
            t = rep.split()
            mn = int(t[0])
            if mn == 0:
                bad = inf_band_check(p, b, row, model, thresh)
                if bad:
                    break
                continue
            mean, var, mmin, mmax = (Fraction(x) for x in t[1:5])
            ip = None if t[5] == '_' else Fraction(t[5])
            if float(row['min']) != float(mmin) or float(row['max']) != float(mmax):
                bad = f'band {b + 1}: min/max = {row["min"]}/{row["max"]}, over all valid pixels {float(mmin)}/{float(mmax)}'
            elif not (abs(row['mean'] - float(mean)) <= 1e-9 * max(1.0, abs(float(mean)))):
                bad = f'band {b + 1}: mean = {row["mean"]}, mean over all {mn} valid pixels is {float(mean)}'
            elif not (abs(row['std'] ** 2 - float(var)) <= 1e-7 * max(1e-6, float(var))):
                bad = f'band {b + 1}: std = {row["std"]}, population std of the valid pixels is {math.sqrt(float(var))}'
            elif (ip is None) != ('inpaint_p' not in row):
                bad = f'band {b + 1}: in-paint percentage {"missing" if ip is not None else "unexpected"}'
            elif ip is not None and not (abs(row['inpaint_p'] - float(ip)) <= 1e-9):
                bad = f'band {b + 1}: inpaint_p = {row["inpaint_p"]}, 100*#(R2 < {thresh})/n is {float(ip)}'
            if bad:
                break
        if bad:
            run.fail(case, bad, signature=dict(kind='stat-def', pattern=case.get('pattern')))
            continue
        key = case['i']
        cur = [(r_['mean'], r_['std'], r_['min'], r_['max'], r_.get('inpaint_p')) for r_ in st]
        if key in per_image:
            prev = per_image[key]
            for a, b_ in zip(prev, cur):
                # (the standard deviation is compared through the variance: the one-pass formula carries an absolute error of
                # ~1e-16 mean^2 in the variance - for a constant band std comes out as 0 or ~1e-8 mean, whatever the tiling)
                va, vb = a[1] ** 2, b_[1] ** 2
                std_differs = not ((a[1] != a[1] and b_[1] != b_[1]) or a[1] == b_[1] or abs(va - vb) <= 1e-9 * max(va, vb) + 1e-12 * max(1.0, a[0] ** 2 if a[0] == a[0] else 1.0))
                a_, b__ = a[:1] + a[2:], b_[:1] + b_[2:]
                if std_differs or any((x is None) != (y is None) or (x is not None and not (x != x and y != y) and x != y and not (abs(x - y) <= 1e-9 * max(1.0, abs(x)))) for x, y in zip(a_, b__)):
                    run.fail(case, f'figures depend on the tiling / thread count: {a} vs {b_}', signature=dict(kind='tiling-dependent'))
                    break
        per_image[key] = cur
        run.sample(dict(case={k: v for k, v in case.items()}, first_row={k: (float(v) if isinstance(v, (int, float)) else v)
                                                                          for k, v in st[0].items()}), 3)
    data_window_leg(run, jobs)
    cli_json(run, jobs)


class _ReadRecorder:
    """pass-through proxy of the open parameter dataset that records the (band, tile corner) of every `read`"""

    def __init__(self, ds, log):
        self.__dict__['_ds'], self.__dict__['_log'] = ds, log

    def __getattr__(self, name):
        return getattr(self._ds, name)

    def read(self, *args, **kwargs):
        w = kwargs.get('window')
        self._log.append((kwargs.get('indexes'), int(w.row_off), int(w.col_off)))
        return self._ds.read(*args, **kwargs)


def data_window_leg(run, jobs):
    """the valid-data window pre-pass and the tiles stats() reads, against Model/StatsWindow.lean (Props/StatsWindow.lean:
    `no_valid_pixel_skipped`): same window, same tiles of every band, for the real files of this run"""
    import rasterio as rio
    from homonim import ParamStats
    todo, lines = [], []
    for case, p, model, thresh in jobs:
        with rio.open(p) as ds:
            masks = ds.read_masks() > 0
            th, tw = ds.block_shapes[0]
            H, W = ds.height, ds.width
        if H * W * masks.shape[0] > 60000:
            continue
        order = 'r' if case['i'] % 2 else 'f'
        lines.append(f'datawin {H} {W} {min(th, H)} {min(tw, W)} {order} ' +
                     ' '.join(''.join('1' if v else '0' for v in m.ravel()) for m in masks))
        todo.append((case, p, masks.shape[0], lines[-1][:200]))
    replies = common.model_batch(lines)
    if replies is None:
        run.model_available = False
        return
    for (case, p, nb, line), rep in zip(todo, replies):
        c = dict(case, op='data-window')
        win_txt, _, tiles_txt = rep.partition(' | ')
        want_tiles = sorted(tuple(int(x) for x in t.split(':')) for t in tiles_txt.split())
        log = []
        try:
            with warnings.catch_warnings():
                warnings.simplefilter('ignore')
                with ParamStats(p) as ps:
                    w = ps._get_data_window(threads=case['threads'])
                    ps._param_im = _ReadRecorder(ps._param_im, log)
                    try:
                        ps.stats(threads=case['threads'])
                    finally:
                        ps._param_im = ps._param_im._ds
        except Exception as ex:
            run.fail(c, f'ParamStats raised {type(ex).__name__}: {str(ex)[:120]}', signature=dict(kind='stats-raises', op='data-window'))
            continue
        run.evaluations += 1
        run.lines_compared += 1
        run.hist['data-window legs'] += 1
        got = 'none' if w is None else f'{int(w.row_off)} {int(w.col_off)} {int(w.height)} {int(w.width)}'
        if got != win_txt:
            run.disagree(c, line, win_txt, got, 'valid-data window of _get_data_window')
            continue
        for b in range(nb):
            got_tiles = sorted((r, c_) for bi, r, c_ in log if bi == b + 1)
            if got_tiles != want_tiles:
                run.disagree(c, line, str(want_tiles[:8]), str(got_tiles[:8]), f'tiles of band {b + 1} read by stats(): {len(got_tiles)} read, model {len(want_tiles)}')
                break


def cli_json(run, jobs):
    from click.testing import CliRunner
    from homonim import cli, ParamStats
    if not jobs:
        return
    case, p, model, thresh = next((j for j in jobs if j[3] is not None), jobs[0])
    out = p.parent / 'c12_stats.json'
    res = CliRunner().invoke(cli.cli, ['stats', str(p), '--output', str(out)])
    c = dict(i=10**6, op='cli stats --output')
    run.evaluations += 1
    if res.exit_code != 0 or not out.exists():
        run.fail(c, f'homonim stats exited {res.exit_code}', signature=dict(kind='cli', thresh=str(thresh)))
        return
    js = json.loads(out.read_text())
    with warnings.catch_warnings():
        warnings.simplefilter('ignore')
        with ParamStats(p) as ps:
            api = ps.stats()
    def canon(rows):
        # floats to 10 significant digits: the accumulation order (block completion order) may change the last bits
        return [{k: ('nan' if isinstance(v, float) and v != v else (float(f'{v:.10g}') if isinstance(v, float) else v))
                 for k, v in row.items()} for row in (rows or [])]
    def same(ra, rb):
        # (std through the variance, to the absolute accuracy of the one-pass formula: see the cross-tiling comparison above)
        if set(ra) != set(rb):
            return False
        for kk in ra:
            x, y = ra[kk], rb[kk]
            if kk == 'std' and isinstance(x, float) and isinstance(y, float):
                m = ra.get('mean') if isinstance(ra.get('mean'), float) else 1.0
                if not (abs(x * x - y * y) <= 1e-9 * max(x * x, y * y) + 1e-12 * max(1.0, m * m)):
                    return False
            elif x != y:
                return False
        return True
    ja, jb = canon(js.get(str(p))), canon(json.loads(json.dumps(api, default=float)))
    if len(ja) != len(jb) or not all(same(x, y) for x, y in zip(ja, jb)):
        a, b = ja, jb
        d = next(((x, y) for x, y in zip(a, b) if x != y), (len(a), len(b)))
        run.fail(c, f'JSON report differs from the API result: {d}', signature=dict(kind='cli-json'))
