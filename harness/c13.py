"""
C13 - output encoding is transparent: rounding, saturation and masks only.

(a) RasterArray._convert_array_dtype on adversarial float32 arrays (ties at .5, negatives, > 2^32, +-inf, +-3e38, NaN)
    for every CLI dtype x nodata setting, pixel by pixel against the Lean model (`convert`).
(b) One float32 fusion is the reference; the same fusion is repeated with (dtype x nodata x driver x lossless creation
    options): every pixel of every output must equal the model's conversion of the float32 pixel, every mask must
    equal the float32 mask except where a valid value coincides with the nodata value.
"""
from fractions import Fraction

import warnings

import numpy as np
import rasterio as rio

import common
import fusion
import rasters

DTYPES = ['uint8', 'uint16', 'int16', 'uint32', 'int32', 'float32', 'float64']
RANGE = dict(uint8=(0, 255), uint16=(0, 65535), int16=(-32768, 32767), uint32=(0, 4294967295),
             int32=(-2147483648, 2147483647))


def xtok(v):
    v = float(v)
    if np.isnan(v):
        return 'nan'
    if np.isinf(v):
        return 'inf' if v > 0 else '-inf'
    f = Fraction(v)
    return str(f.numerator) if f.denominator == 1 else f'{f.numerator}/{f.denominator}'


def ndtok(nd):
    if nd is None:
        return 'null'
    if isinstance(nd, float) and np.isnan(nd):
        return 'nan'
    return xtok(nd)


def nodatas_for(dtype):
    if dtype == 'float64':
        # (the last three: values only a 64-bit output can hold - the working data type is float32)
        return [float('nan'), 0.0, -9999.0, None, float(np.float32(3.0e38)), 0.1, -9999.9, -1.7976931348623157e308]
    if dtype.startswith('float'):
        return [float('nan'), 0.0, -9999.0, None, float(np.float32(3.0e38))]
    lo, hi = RANGE[dtype]
    return [0, hi, lo if lo else 1, None, float('nan'), -9999, 2.5]


ADVERSARIAL = [0.5, 1.5, 2.5, -0.5, -1.5, -2.5, 254.5, 255.5, 256.0, -1.0, 0.0, 1e-3, 32767.5, 32768.5, -32768.5, 65535.5,
               65536.0, 2.0 ** 31, 2.0 ** 31 - 64, 2.0 ** 32, 2.0 ** 32 + 1024, -2.0 ** 31 - 512, 3e38, -3e38, np.inf, -np.inf,
               np.nan, 7.0, 100.49999, 8388609.0, 16777216.0, 1e10, -1e10]


def run_direct(run, quick):
    from homonim.raster_array import RasterArray
    from rasterio.transform import Affine
    lines, impls, cases = [], [], []
    rng = run.rng('direct')
    vals = list(ADVERSARIAL) + [rng.uniform(-300, 70000) for _ in range(20)] + [rng.randint(-5, 300) + 0.5 for _ in range(10)]
    arr32 = np.array(vals, dtype='float32').reshape(1, -1)
    # integer blocks too (a RasterArray built through the API may hold any dtype): values over the whole range of the type,
    # 0 = nodata of the block
    int_srcs = {}
    for sdt in ('uint8', 'int8', 'uint16', 'int16', 'int32'):
        info = np.iinfo(sdt)
        pts = sorted(v for v in {int(info.min), int(info.min) + 1, -129, -128, -1, 0, 1, 2, 127, 128, 200, 255, 256, 32767, 32768, 40000,
                                 65535, 65536, int(info.max) - 1, int(info.max)} if info.min <= v <= info.max)
        int_srcs[sdt] = np.array(pts, dtype=sdt).reshape(1, -1)
    k = 0
    combos = [('float32', dtype, nd) for dtype in DTYPES for nd in nodatas_for(dtype)]
    combos += [(sdt, dtype, nd) for sdt in int_srcs for dtype in DTYPES if not dtype.startswith('float') and dtype != sdt
               for nd in (None, RANGE[dtype][1])]
    for sdt, dtype, nd in combos:
        if True:
            k += 1
            arr = arr32 if sdt == 'float32' else int_srcs[sdt]
            ra = RasterArray(arr.copy(), rasters.CRS3857, Affine(1, 0, 5, 0, -1, 9), nodata=float('nan') if sdt == 'float32' else 0)
            case = dict(i=10**6 + k, op='_convert_array_dtype', src_dtype=sdt, dtype=dtype, nodata=ndtok(nd))
            try:
                out = ra._convert_array_dtype(dtype, nodata=nd)
                mask = ra.mask
                toks = []
                for j in range(arr.shape[1]):
                    v = out[0, j]
                    if dtype.startswith('float'):
                        toks.append(f'{xtok(v)}:{int(mask[0, j])}')
                    else:
                        toks.append(f'{int(v)}:{int(mask[0, j])}')
                rep = ' '.join(toks)
            except ValueError:
                rep = 'err'
            except Exception as ex:
                run.fail(case, f'_convert_array_dtype raised {type(ex).__name__}: {ex}', signature=dict(kind='raises'))
                continue
            run.evaluations += 1
            run.hist[f'direct {sdt}->{dtype}'] += 1
            run.nontrivial.add(('direct', sdt, dtype, ndtok(nd)))
            # leg 3: the property's own predicate on the code's numbers
            if rep != 'err' and not dtype.startswith('float'):
                lo, hi = RANGE[dtype]
                for j, t in enumerate(toks):
                    x = float(arr[0, j]) if (sdt == 'float32' or arr[0, j] != 0) else float('nan')
                    n = int(t.split(':')[0])
                    if np.isnan(x):
                        if nd is not None and n != int(nd):
                            run.fail(case, f'invalid pixel stored as {n}, nodata is {nd}', signature=dict(kind='invalid-not-nodata'))
                        continue
                    if not (lo <= n <= hi):
                        run.fail(case, f'{x} converted to {n}: outside [{lo},{hi}]', signature=dict(kind='out-of-range'))
                        break
                    exp = hi if x == np.inf else lo if x == -np.inf else max(lo, min(hi, round(Fraction(x))))
                    if n != exp:
                        run.fail(case, f'{x!r} -> {dtype}: got {n}, nearest-even saturated value is {exp}',
                                 signature=dict(kind='round-saturate'))
                        break
            lines.append(f'convert {dtype} {ndtok(nd)} ' + ' '.join(
                xtok(v) if (sdt == 'float32' or v != 0) else 'nan' for v in arr[0]))
            impls.append(rep)
            cases.append(case)
    failed = {f['case']['i'] for f in run.failures}
    replies = common.model_batch(lines)
    if replies is None:
        run.model_available = False
        return
    for case, line, m, im in zip(cases, lines, replies, impls):
        run.lines_compared += 1
        if case['i'] in failed:
            continue
        if not same_tokens(m, im):
            run.disagree(case, line[:200], m[:300], im[:300], what='_convert_array_dtype vs model')


def same_tokens(m, im):
    if m == 'err' or im == 'err':
        return m == im
    a, b = m.split(), im.split()
    if len(a) != len(b):
        return False
    for x, y in zip(a, b):
        if x.split(':')[0] == '?':  # unspecified stored value (NaN cast to an integer, nodata null): only the mask bit counts
            if x.split(':')[1] != y.split(':')[1]:
                return False
        elif x != y:
            return False
    return True


PROFILES = [
    dict(driver='GTiff', creation_options=dict(tiled=True, blockxsize=16, blockysize=16, compress='deflate', interleave='band')),
    dict(driver='GTiff', creation_options=dict(tiled=False, compress='lzw', interleave='pixel')),
    dict(driver='GTiff', creation_options=dict(tiled=True, blockxsize=32, blockysize=16, compress='packbits')),
    dict(driver='GTiff', creation_options=dict(compress='deflate', predictor=2)),
    dict(driver='PNG', creation_options=dict()),
]


def run(run: common.Run):
    from homonim.errors import BlockSizeError
    quick = run.quick()
    run_direct(run, quick)
    overview_leg(run)
    shared_profile_leg(run)
    empty_block_leg(run)
    run.rule = ('(a) _convert_array_dtype on 63 adversarial/random float32 values x 7 dtypes x 5-7 nodata settings, every pixel vs '
                'the model; (b) float32 fusions (data chosen to give negatives, half-integers, > 2^32, +-inf) repeated with '
                'dtype x nodata x driver (GTiff, PNG) x lossless creation options: every output pixel and mask vs the model conversion '
                'of the float32 run; distinct by (dtype, nodata, profile, fusion)')
    tmp = run.tmpdir()
    nf = 3 if quick else 30
    for f in run.indices(nf):
        rng = run.rng(f'fuse{f}')
        src, ref = rasters.pair_geometry(rng, 'dyadic', 'auto', max_src=24, margin=(1, 2))
        nb = rng.choice([1, 2])
        scale = [1.0, 1e8, 0.5][f % 3]
        s = np.array([[[rng.choice([-3, -2, -1, 1, 2, 3, 4]) for _ in range(src.w)] for _ in range(src.h)] for _ in range(nb)], float)
        r = np.array([[[rng.randint(-20, 300) * scale for _ in range(ref.w)] for _ in range(ref.h)] for _ in range(nb)], float)
        sv = np.ones((src.h, src.w), bool)
        sv[rng.randrange(src.h), :] = False
        sv[:, rng.randrange(src.w)] = False
        pair = fusion.write_pair(tmp, 'c13', src, ref, s, r, sv, None)
        model = ['gain', 'gain-blk-offset', 'gain-offset'][f % 3]
        kernel = (1, 3) if model != 'gain-offset' else (3, 3)
        kw = dict(model=model, kernel_shape=kernel, proc_crs='auto', param=False, threads=1, max_block_mem=100,
                  model_config=dict(r2_inpaint_thresh=None))
        try:
            base = fusion.run_fuse(pair.src_path, pair.ref_path, tmp / 'c13_f32.tif', out_profile=dict(dtype='float32', nodata=float('nan')), **kw)
        except BlockSizeError:
            continue
        bvals = base.corr.astype('float32')
        # bands whose invalid pixels differ: a per-dataset mask (nodata=None) cannot express them (finding D48)
        band_masks_differ = nb > 1 and any(not np.array_equal(np.isnan(bvals[0]), np.isnan(bvals[k_])) for k_ in range(1, nb))
        combos = [(dt, nd, pi) for dt in DTYPES for nd in nodatas_for(dt) for pi in range(len(PROFILES))]
        rng.shuffle(combos)
        lines, impls, cases = [], [], []
        for (dt, nd, pi) in combos[:14 if quick else 60]:
            prof = dict(PROFILES[pi])
            if prof['driver'] == 'PNG' and (dt not in ('uint8', 'uint16') or nb not in (1, 3)):
                prof = dict(PROFILES[0])
            case = dict(i=f * 1000 + len(cases), fusion=f, dtype=dt, nodata=ndtok(nd), profile=str(prof), model=model)
            try:
                res = fusion.run_fuse(pair.src_path, pair.ref_path, tmp / ('c13_o.png' if prof['driver'] == 'PNG' else 'c13_o.tif'),
                                      out_profile=dict(dtype=dt, nodata=nd, **prof), **kw)
                err = None
            except ValueError as ex:
                err = str(ex)
            except Exception as ex:
                if prof['driver'] == 'PNG':
                    run.hist['PNG profile refused by GDAL: skipped'] += 1
                    continue
                run.fail(case, f'fusion raised {type(ex).__name__}: {ex}', signature=dict(kind='raises'))
                continue
            run.evaluations += 1
            run.hist[f'fuse dtype={dt}'] += 1
            run.hist[f"driver={prof['driver']}"] += 1
            run.nontrivial.add((f, dt, ndtok(nd), str(prof)))
            flat = bvals.reshape(-1)
            nd_model = nd
            if prof['driver'] == 'PNG' and nd is not None and not dt.startswith('float') and \
                    not (np.isfinite(nd) and float(nd).is_integer() and RANGE[dt][0] <= nd <= RANGE[dt][1]):
                # rasterio creates PNG files through an in-memory copy that silently drops a nodata value the data type
                # cannot hold (GTiff creation raises instead): the dataset's nodata is then None and homonim writes a mask.
                # Driver behaviour, not homonim's: the expected file is the model's nodata=None conversion (or an error).
                nd_model = None
                case['_png_dropped_nodata'] = True
                run.hist['PNG: un-castable nodata dropped by the driver, compared as nodata=None'] += 1
            lines.append(f'convert {dt} {ndtok(nd_model)} ' + ' '.join(xtok(v) for v in flat))
            if err is not None:
                impls.append('err')
            else:
                o = res.corr.reshape(-1)
                # per-band masks as a reader sees them
                mk = res.corr_masks.reshape(-1)
                if dt.startswith('float'):
                    impls.append(' '.join(f'{xtok(v)}:{int(b)}' for v, b in zip(o, mk)))
                else:
                    impls.append(' '.join(f'{int(v)}:{int(b)}' for v, b in zip(o, mk)))
            cases.append(case)
        replies = common.model_batch(lines)
        if replies is None:
            run.model_available = False
            return
        for case, line, m, im in zip(cases, lines, replies, impls):
            run.lines_compared += 1
            bad = None if (case.get('_png_dropped_nodata') and im == 'err') else compare_file(case, m, im)
            if bad:
                sig = dict(kind='file-encoding', dtype=case['dtype'])
                if band_masks_differ and (case['nodata'] == 'null' or case.get('_png_dropped_nodata')) and 'reader sees valid=' in bad:
                    sig.update(per_dataset_mask=True, band_masks_differ=True)
                run.fail(case, bad, signature=sig)
        run.sample(dict(fusion=f, model=model, shape=list(bvals.shape), n_profiles=len(cases),
                        float32_range=[float(np.nanmin(bvals[np.isfinite(bvals)])) if np.isfinite(bvals).any() else None,
                                       float(np.nanmax(bvals[np.isfinite(bvals)])) if np.isfinite(bvals).any() else None]), 3)


def compare_file(case, m, im):
    """model conversion of the float32 pixels vs what a reader of the output file sees"""
    if m == 'err' or im == 'err':
        return None if m == im else f'nodata castability: model {m[:10]}, code {im[:10]}'
    a, b = m.split(), im.split()
    if len(a) != len(b):
        return 'shape mismatch'
    nd = case['nodata']
    for k, (x, y) in enumerate(zip(a, b)):
        xs, xm = x.split(':')
        ys, ym = y.split(':')
        # reader's validity: model valid unless the stored value coincides with nodata
        if nd == 'null':
            exp_valid = xm == '1'
        elif nd == 'nan':
            exp_valid = xm == '1' and xs != 'nan'
        else:
            exp_valid = xm == '1' and xs != nd
        if (ym == '1') != exp_valid:
            return f'pixel {k}: reader sees valid={ym}, model says valid={int(exp_valid)} (float32-run pixel -> {x})'
        if exp_valid and xs != ys:
            return f'pixel {k}: stored {ys}, model conversion of the float32 value is {xs}'
        if not exp_valid and nd not in ('null',) and xs not in ('?',) and ys != xs and not (xs == 'nan' and ys == 'nan'):
            return f'invalid pixel {k}: stored {ys}, expected the nodata value {xs}'
    return None


def empty_block_leg(run):
    """
    A source whose lower two thirds are invalid, processed in several blocks - some of which hold no valid source pixel at all -
    and written with drivers that do not pre-fill a file with the nodata value (PNG, ENVI) as well as GTiff, with non-zero nodata
    values and with nodata=None: every invalid pixel must come out as nodata / masked, exactly as in the single-block run.
    """
    from homonim.errors import BlockSizeError
    tmp = run.tmpdir()
    u = 8
    ref = rasters.Grid(u * 6000, u * 8000, 4 * u, 4 * u, 30, 30)
    src = rasters.Grid(ref.x0 + 8 * u, ref.ytop - 8 * u, u, u, 96, 96)
    rng = run.rng('empty-block')
    s = np.array([[[rng.randint(20, 200) for _ in range(src.w)] for _ in range(src.h)]], float)
    r = np.array([[[rng.randint(30, 150) for _ in range(ref.w)] for _ in range(ref.h)]], float)
    sv = np.ones((src.h, src.w), bool)
    sv[32:, :] = False
    pair = fusion.write_pair(tmp, 'c13eb', src, ref, s, r, sv, None)
    ph, pw = fusion.proc_window_shape(src, ref, True)
    combos = [('GTiff', 'tif', 'int16', -9999), ('GTiff', 'tif', 'uint8', None), ('GTiff', 'tif', 'float32', -9999.0),
              ('PNG', 'png', 'uint16', 65535), ('PNG', 'png', 'uint16', 0), ('ENVI', 'dat', 'int16', -9999), ('ENVI', 'dat', 'float32', -9999.0)]
    for k, (drv, ext, dt, nd) in enumerate(combos):
        case = dict(i=5_200_000 + k, op='blocks without valid source pixels', driver=drv, dtype=dt, nodata=nd)
        outs = {}
        try:
            for hv in (0, 3):
                prof = dict(driver=drv, dtype=dt, nodata=nd, creation_options={})
                res = fusion.run_fuse(pair.src_path, pair.ref_path, tmp / f'c13eb_{k}_{hv}.{ext}', model='gain', kernel_shape=(1, 1), param=False,
                                      threads=1, out_profile=prof, model_config=dict(upsampling='nearest'),
                                      max_block_mem=fusion.block_mem_for(hv, ph, pw, src.px, ref.px, True) if hv else 100)
                outs[hv] = (res.corr.copy(), res.corr_masks.copy())
        except BlockSizeError:
            continue
        except Exception as ex:
            if drv != 'GTiff':
                run.hist[f'{drv} profile refused by GDAL: skipped'] += 1
                continue
            run.fail(case, f'fusion raised {type(ex).__name__}: {ex}', signature=dict(kind='raises'))
            continue
        run.evaluations += 2
        run.hist[f'empty-block runs: {drv}'] += 1
        run.nontrivial.add(('empty-block', k))
        (a0, m0), (a1, m1) = outs[0], outs[3]
        inv = ~np.broadcast_to(sv, m1.shape)
        if m1[inv].any() or not np.array_equal(m0, m1) or not np.array_equal(a0[m0], a1[m1]):
            nbad = int(m1[inv].sum())
            run.fail(case, f'{drv} / {dt} / nodata {nd}: the multi-block output differs from the single-block output; {nbad} invalid source '
                     f'pixels read back as valid' + (f' (value {a1[inv & m1][0]})' if nbad else ''), signature=dict(kind='empty-block', driver=drv))


def shared_profile_leg(run):
    """
    One output profile used for several runs (one `out_profile` dict passed to successive `process` calls; one command line with
    several sources): every corrected image has the requested encoding - data type, nodata value, the same stored values - and
    every parameter image is float32 / NaN, whichever run of the sequence wrote it.
    """
    import copy
    from click.testing import CliRunner
    from homonim import RasterFuse, cli
    from homonim.enums import Model
    tmp = run.tmpdir()
    rng = run.rng('shared-profile')
    src, ref = rasters.pair_geometry(rng, 'dyadic', 'auto', max_src=20, margin=(1, 2))
    s = np.array([[[rng.randint(20, 200) for _ in range(src.w)] for _ in range(src.h)]], float)
    r = np.array([[[rng.randint(30, 150) for _ in range(ref.w)] for _ in range(ref.h)]], float)
    sv = np.ones((src.h, src.w), bool)
    sv[1, 2] = False
    pair = fusion.write_pair(tmp, 'c13sp', src, ref, s, r, sv, None)
    for k, (dtype, nodata) in enumerate((('int16', -32768), ('uint8', 0), ('float64', -9999.0))):
        prof = dict(driver='GTiff', dtype=dtype, nodata=nodata, creation_options=dict(compress='deflate'))
        want = copy.deepcopy(prof)
        got = []
        case = dict(i=5_100_000 + k, op='one out_profile, several runs', dtype=dtype, nodata=nodata)
        try:
            with warnings.catch_warnings():
                warnings.simplefilter('ignore')
                with RasterFuse(pair.src_path, pair.ref_path) as rf:
                    for j in range(3):
                        out = tmp / f'c13sp_{k}_{j}.tif'
                        rf.process(out, Model.gain, (3, 3), param_filename=tmp / f'c13sp_{k}_{j}_PARAM.tif' if j != 1 else None,
                                   overwrite=True, out_profile=prof, block_config=dict(threads=1))
                        with rio.open(out) as ds:
                            got.append((ds.dtypes[0], ds.nodata, ds.read(1)))
                        if j != 1:
                            with rio.open(tmp / f'c13sp_{k}_{j}_PARAM.tif') as ds:
                                if ds.dtypes[0] != 'float32' or ds.nodata is None or not np.isnan(ds.nodata):
                                    run.fail(case, f'run {j + 1}: parameter image is {ds.dtypes[0]} / nodata {ds.nodata}, expected float32 / nan',
                                             signature=dict(kind='param-encoding'))
        except Exception as ex:
            run.fail(case, f'raised {type(ex).__name__}: {ex}', signature=dict(kind='raises'))
            continue
        run.evaluations += 3
        run.hist['runs sharing one out_profile'] += 3
        run.nontrivial.add(('shared-profile', k))
        for j, (dt, nd, px) in enumerate(got):
            if dt != dtype or nd != nodata or not np.array_equal(px, got[0][2]):
                run.fail(case, f'run {j + 1} of 3 with the same out_profile: corrected image is {dt} / nodata {nd} '
                         f'({int((px != got[0][2]).sum()) if px.shape == got[0][2].shape else "all"} pixels differ from run 1), requested '
                         f'{dtype} / {nodata}' + ('' if prof == want else f'; the caller\'s dict now reads {prof}'),
                         signature=dict(kind='shared-profile'))
                break
    # a caller customises the profile it got from create_out_profile() in place (a lossy quick-look, say); a later run that asks for
    # the defaults must still get the defaults
    case = dict(i=5_100_005, op='default profile after a caller customised an earlier one')
    try:
        with warnings.catch_warnings():
            warnings.simplefilter('ignore')
            with RasterFuse(pair.src_path, pair.ref_path) as rf:
                rf.process(tmp / 'c13sp_def0.tif', Model.gain, (3, 3), overwrite=True, block_config=dict(threads=1))
                mine = RasterFuse.create_out_profile()
                mine['creation_options'].update(compress='lzw', interleave='pixel', tiled=False)
                mine['dtype'] = 'uint8'
                rf.process(tmp / 'c13sp_def1.tif', Model.gain, (3, 3), overwrite=True, block_config=dict(threads=1))
        run.evaluations += 2
        with rio.open(tmp / 'c13sp_def0.tif') as d0, rio.open(tmp / 'c13sp_def1.tif') as d1:
            p0 = {k_: d0.profile.get(k_) for k_ in ('dtype', 'nodata', 'compress', 'interleave', 'tiled', 'blockxsize', 'blockysize')}
            p1 = {k_: d1.profile.get(k_) for k_ in p0}
            same_px = fusion.bytes_equal(d0.read(), d1.read())
        if repr(p0) != repr(p1) or not same_px:
            run.fail(case, f'two runs with default options wrote different files: {p0} vs {p1} (pixels equal: {same_px}) - the second one after a '
                     f'caller changed the creation options of a profile obtained from create_out_profile()', signature=dict(kind='shared-profile'))
    except Exception as ex:
        run.fail(case, f'raised {type(ex).__name__}: {ex}', signature=dict(kind='raises'))
    # the command line: one call, two sources, a parameter image and a non-default encoding
    d = tmp / 'c13sp_cli'
    d.mkdir()
    import shutil
    for nm in ('a.tif', 'b.tif'):
        shutil.copy(pair.src_path, d / nm)
    with warnings.catch_warnings():
        warnings.simplefilter('ignore')
        res = CliRunner().invoke(cli.cli, ['fuse', str(d / 'a.tif'), str(d / 'b.tif'), str(pair.ref_path), '-m', 'gain', '-k', '3', '3', '-nbo',
                                           '-t', '1', '-pi', '--dtype', 'int16', '--nodata', '-32768', '-od', str(d)])
    case = dict(i=5_100_010, op='one command line, two sources', options='-pi --dtype int16 --nodata -32768')
    run.evaluations += 1
    if res.exit_code != 0:
        run.fail(case, f'exit code {res.exit_code}: {str(res.exception)[:100]}', signature=dict(kind='raises'))
        return
    outs = sorted(p_ for p_ in d.glob('*FUSE*.tif') if 'PARAM' not in p_.name)
    enc = []
    for p_ in outs:
        with rio.open(p_) as ds:
            enc.append((p_.name, ds.dtypes[0], ds.nodata))
    if len(outs) != 2 or any(e[1] != 'int16' or e[2] != -32768 for e in enc):
        run.fail(case, f'corrected images of one call: {enc}, requested int16 / -32768 for both', signature=dict(kind='shared-profile'))


def overview_leg(run):
    """
    Overviews (`build_ovw=True`, built for images of at least 512 pixels along the shorter side) must not change anything at
    full resolution: pixels, masks, tags and descriptions of the corrected and parameter images are those of the run without
    overviews; the overview levels exist and are powers of two.
    """
    import c04
    tmp = run.tmpdir()
    rng = run.rng('ovw')
    src = rasters.Grid(8 * 9000, 8 * 9000, 8, 8, 530 + rng.randint(0, 20), 520 + rng.randint(0, 20))
    ref = rasters.Grid(8 * 9000 - 64, 8 * 9000 + 64, 32, 32, src.w // 4 + 6, src.h // 4 + 6)
    s = np.add.outer(np.arange(src.h) % 37, np.arange(src.w) % 41).astype(float)[None] + 20
    r = np.add.outer(np.arange(ref.h) % 11, np.arange(ref.w) % 13).astype(float)[None] * 3 + 30
    sv = np.ones((src.h, src.w), bool)
    sv[100:140, 200:260] = False
    pair = fusion.write_pair(tmp, 'c13ovw', src, ref, s, r, sv, None)
    outs = {}
    for ovw in (False, True):
        try:
            res = fusion.run_fuse(pair.src_path, pair.ref_path, tmp / f'c13ovw_{int(ovw)}.tif', model='gain', kernel_shape=(3, 3),
                                  param=True, threads=2, build_ovw=ovw, out_profile=dict(dtype='int16', nodata=-32768))
        except Exception as ex:
            run.fail(dict(i=5_000_000, op='overviews', build_ovw=ovw), f'fusion raised {type(ex).__name__}: {ex}',
                     signature=dict(kind='raises'))
            return
        with rio.open(res.corr_path) as ds, rio.open(res.param_path) as pds:
            outs[ovw] = (c04.read_result_any(res.corr_path), c04.read_result_any(res.param_path), ds.overviews(1), pds.overviews(1))
    run.evaluations += 2
    run.hist['overview runs'] += 2
    case = dict(i=5_000_001, op='overviews', shape=(src.h, src.w))
    a, b = outs[False], outs[True]
    if not c04.same(a[0], b[0]) or not c04.same(a[1], b[1]):
        run.fail(case, 'building overviews changed the full-resolution corrected or parameter image', signature=dict(kind='overviews'))
    elif a[2] or a[3] or not b[2] or any(l & (l - 1) for l in b[2] + b[3]):
        run.fail(case, f'overview levels: without build_ovw {a[2]} / {a[3]}, with build_ovw {b[2]} / {b[3]}',
                 signature=dict(kind='overviews'))
