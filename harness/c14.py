"""
C14 - the parameter image is the model that was applied.

Multi-band fusions (1-4 bands, band-distinct data, subsets and re-orderings of source / reference bands, all models,
both grids, several partitions):
  * layout: bands i, n+i, 2n+i of the parameter image and band i of the corrected image must be bit-identical to
    the single-band fusion of matched pair i (source band s_i against reference band r_i);
  * labels: descriptions '<ref description or B<r_i>>_GAIN/_OFFSET/_R2' at exactly those bands (vs the Lean model's
    `layout` op), FUSE_* tags present, utils.validate_param_image / ParamStats accept the file;
  * mask (no partial masking): parameter bands valid exactly where both images are valid on the processing grid
    (model resampler validity R1/R2);
  * source-grid identity: corrected == float32(float32(gain * src) + offset) bit for bit at every valid pixel.
"""
import warnings

import numpy as np
import rasterio as rio

import common
import fusion
import rasters
import resamp

MODELS = ['gain', 'gain-blk-offset', 'gain-offset']


def gen_case(run, i):
    rng = run.rng(i)
    model = MODELS[i % 3]
    want_src_grid = (i // 3) % 2 == 1
    nsb, nrb = rng.choice([(1, 1), (2, 3), (3, 3), (3, 4), (4, 4)])
    # band selection: default / subset / re-ordering
    sel = ['default', 'reorder', 'subset', 'repeat'][(i // 3 + i // 12) % 4] if nsb > 1 else 'default'
    if sel == 'default':
        sb, rb = None, None
        n = nsb
    elif sel == 'repeat':
        # one reference band paired with several source bands (a multi-band source against a panchromatic reference band)
        n = nsb
        sb = rng.sample(range(1, nsb + 1), n)
        x = rng.randint(1, nrb)
        rb = [x] * (n - 1) + [rng.randint(1, nrb)]
    else:
        n = nsb if sel == 'reorder' else rng.randint(1, nsb - 1)
        sb = rng.sample(range(1, nsb + 1), n)
        rb = rng.sample(range(1, nrb + 1), n)
    family = rng.choice(['dyadic', 'dyadic', 'decimal'])
    proc = rng.choice(['auto', 'src']) if want_src_grid else rng.choice(['auto', 'auto', 'ref'])
    src, ref = rasters.pair_geometry(rng, family, proc, max_src=24, margin=(1, 3), avoid_aligned_edges=True)
    if proc == 'auto' and want_src_grid != (src.px > ref.px) and src.px != ref.px:
        proc = 'src' if want_src_grid else 'ref'
    return dict(i=i, family=family, proc=proc, src=src.to_dict(), ref=ref.to_dict(), model=model, nsb=nsb, nrb=nrb,
                src_bands=sb, ref_bands=rb, selection=sel,
                kernel=rng.choice([(1, 1), (3, 3), (3, 5), (5, 5)]) if model != 'gain-offset' else rng.choice([(3, 3), (5, 3)]),
                halvings=rng.choice([0, 2, 3]), threads=rng.choice([1, 2]), ref_descr=rng.random() < 0.5)


def run(run: common.Run):
    from homonim import utils, ParamStats
    from homonim.errors import BlockSizeError
    n = 18 if run.quick() else 300
    run.rule = ('multi-band fusions with band-distinct random data (1-4 source bands, up to 4 reference bands; default / subset / '
                're-ordered selections with force matching), 3 models, both grids, 1..many blocks; each matched pair re-run as a '
                'single-band fusion for the bit-identity oracle; non-trivial = more than one band; distinct by (geometry, selection, '
                'model, grid, blocks)')
    tmp = run.tmpdir()
    lay_lines, lay_impls, lay_cases = [], [], []
    for i in run.indices(n):
        case = gen_case(run, i)
        rng = run.rng(f'{i}-data')
        src, ref = rasters.Grid.from_dict(case['src']), rasters.Grid.from_dict(case['ref'])
        s = np.array([[[rng.randint(20, 200) for _ in range(src.w)] for _ in range(src.h)] for _ in range(case['nsb'])], float)
        r = np.array([[[rng.randint(30, 150) for _ in range(ref.w)] for _ in range(ref.h)] for _ in range(case['nrb'])], float)
        sv = np.ones((src.h, src.w), bool)
        sv[rng.randrange(src.h), rng.randrange(src.w)] = False
        sv[:, 0] = False
        rv = np.ones((ref.h, ref.w), bool)
        rv[rng.randrange(ref.h), rng.randrange(ref.w)] = False
        # (every other named reference uses names with underscores, as Landsat / geedim bands have: SR_B4)
        descr = [(f'SR_B{k + 1}' if case['i'] % 2 else f'REF{k + 1}') for k in range(case['nrb'])] if case['ref_descr'] else None
        # (every third reference carries the NAME / ID / ABBREV band tags of a catalogued product: fuse copies them to the parameter
        # bands of the matched pair, each with its own parameter's name appended)
        rtags = [dict(NAME=f'Band {k + 1} reflectance', ID=f'b{k + 1}', ABBREV=f'R{k + 1}', other='x') for k in range(case['nrb'])] \
            if case['i'] % 3 == 1 else None
        pair = fusion.write_pair(tmp, 'c14', src, ref, s, r, sv, rv, ref_kw=dict(descriptions=descr, band_tags=rtags))
        proc_ref = (case['proc'] == 'ref') or (case['proc'] == 'auto' and src.px <= ref.px)
        # the in-painting threshold is a configuration value that is recorded in the parameter image and read back by stats:
        # default, switched off (None), zero, and a larger one
        thresh = [0.25, None, 0.0, 0.5][(case['i'] // 3) % 4]
        kw = dict(model=case['model'], kernel_shape=case['kernel'], proc_crs=case['proc'], param=True,
                  threads=case['threads'], force=True, model_config=dict(r2_inpaint_thresh=thresh))
        run.hist[f'r2_inpaint_thresh={thresh}'] += 1
        try:
            multi, hv = fusion.run_fuse_blocks(case['halvings'], src, ref, proc_ref, pair.src_path, pair.ref_path,
                                               tmp / 'c14_multi.tif', src_bands=case['src_bands'], ref_bands=case['ref_bands'],
                                               **kw)
        except BlockSizeError:
            run.hist['processing window smaller than the overlap: skipped'] += 1
            continue
        except Exception as ex:
            run.fail(case, f'fusion raised {type(ex).__name__}: {ex}', signature=dict(kind='raises'))
            continue
        run.evaluations += 1
        sbs, rbs = multi.src_bands, multi.ref_bands
        nb = len(sbs)
        run.hist[f"model={case['model']} proc={multi.proc_crs}"] += 1
        run.hist[f"selection={case['selection']} n={nb}"] += 1
        if nb > 1:
            run.nontrivial.add((str(case['src']), str(case['src_bands']), str(case['ref_bands']), case['model'],
                                multi.proc_crs, hv))
        bad = None
        if multi.param.shape[0] != 3 * nb or multi.corr.shape[0] != nb:
            bad = f'band counts: corrected {multi.corr.shape[0]} (expected {nb}), parameter {multi.param.shape[0]} (expected {3 * nb})'
        # layout oracle: single-band fusion of each matched pair
        ph, pw = fusion.proc_window_shape(src, ref, proc_ref)
        mbm = fusion.block_mem_for(hv, ph, pw, src.px, ref.px, proc_ref)
        for k in range(nb):
            if bad:
                break
            try:
                single = fusion.run_fuse(pair.src_path, pair.ref_path, tmp / 'c14_single.tif', src_bands=(sbs[k],),
                                         ref_bands=(rbs[k],), max_block_mem=mbm, **kw)
            except Exception as ex:
                bad = (f'single-band fusion of source band {sbs[k]} against reference band {rbs[k]} with a parameter image '
                       f'raised {type(ex).__name__}: {ex}')
                break
            for which, pb in (('gain', k), ('offset', nb + k), ('R2', 2 * nb + k)):
                if not fusion.bytes_equal(multi.param[pb], single.param[pb // nb]):
                    bad = (f'parameter band {pb + 1} does not hold the {which} of matched pair {k + 1} (source band {sbs[k]}, '
                           f'reference band {rbs[k]})')
                    break
            if not bad and not fusion.bytes_equal(multi.corr[k], single.corr[0]):
                bad = f'corrected band {k + 1} is not the correction of source band {sbs[k]} against reference band {rbs[k]}'
            # labels
            exp_descr = [f"{(descr[rbs[k] - 1] if descr else None) or f'B{rbs[k]}'}_{sfx}" for sfx in ('GAIN', 'OFFSET', 'R2')]
            got = [multi.param_descriptions[k], multi.param_descriptions[nb + k], multi.param_descriptions[2 * nb + k]]
            if not bad and got != exp_descr:
                bad = f'descriptions of pair {k + 1}: {got}, expected {exp_descr}'
            if not bad and rtags:
                run.hist['reference with NAME / ID / ABBREV band tags'] += 1
                for j, sfx in enumerate(('GAIN', 'OFFSET', 'R2')):
                    bt = multi.param_band_tags[j * nb + k]
                    want_t = {kk: f'{vv.upper()} {sfx}' for kk, vv in rtags[rbs[k] - 1].items() if kk in ('NAME', 'ID', 'ABBREV')}
                    got_t = {kk: bt.get(kk) for kk in want_t}
                    if got_t != want_t:
                        bad = f'band tags of the {sfx} band of pair {k + 1}: {got_t}, expected {want_t}'
                        break
            # source-grid identity
            if not bad and multi.proc_crs == 'src':
                g, o = multi.param[k], multi.param[nb + k]
                x = s[sbs[k] - 1].astype('float32')
                exp = (g * x + o).astype('float32')
                m = multi.corr_mask & np.isfinite(multi.corr[k])
                if not fusion.bytes_equal(np.where(m, multi.corr[k], 0).astype('float32'), np.where(m, exp, 0).astype('float32')):
                    d = np.nanmax(np.abs(np.where(m, multi.corr[k] - exp, 0)))
                    bad = f'source grid: corrected band {k + 1} != gain*source+offset from the parameter image (max diff {d})'
        if not bad:
            need = {'FUSE_MODEL', 'FUSE_KERNEL_SHAPE', 'FUSE_PROC_CRS', 'FUSE_REF_FILE', 'FUSE_SRC_FILE'}
            if not need <= set(multi.param_tags):
                bad = f'parameter image tags missing {need - set(multi.param_tags)}'
        if not bad:
            try:
                utils.validate_param_image(multi.param_path)
                with warnings.catch_warnings():
                    warnings.simplefilter('ignore')
                    with ParamStats(multi.param_path) as ps:
                        st = ps.stats(threads=1)
                if len(st) != 3 * nb:
                    bad = f'ParamStats returned {len(st)} rows for {3 * nb} bands'
            except Exception as ex:
                bad = f'stats does not accept the parameter image: {type(ex).__name__}: {ex}'
        if bad:
            run.fail(case, bad, signature=dict(kind='param-layout'))
            continue
        # model leg: label layout
        toks = []
        for b in range(3 * nb):
            d = multi.param_descriptions[b] or ''
            sfx = d.rsplit('_', 1)[-1]
            base = d.rsplit('_', 1)[0]
            pairs = [k for k in range(nb) if base == ((descr[rbs[k] - 1] if descr else None) or f'B{rbs[k]}')]
            # identify the pair by content (bit-identity established above): band b holds pair b % nb
            toks.append(f'{b % nb}.{sfx}')
        lay_lines.append(f'layout {nb}')
        lay_impls.append(' '.join(toks))
        lay_cases.append(case)
        mask_lines(run, case, src, ref, sv, rv, multi, proc_ref, nb)
        run.sample(dict(case={k: case[k] for k in ('i', 'model', 'kernel', 'src_bands', 'ref_bands', 'selection', 'proc')},
                        matched=[list(sbs), list(rbs)], blocks_halvings=hv), 4)
    run.compare_lines(lay_cases, lay_lines, lay_impls)
    r2_band_leg(run, tmp)
    if run.only is None:
        stats_accepts_nonfinite(run, tmp)


def mask_lines(run, case, src, ref, sv, rv, multi, proc_ref, nb):
    """
    parameter mask = jointly valid on the processing grid (model validity rules): equality for the gain models; for gain-offset,
    whose degenerate windows have no solution, inclusion - no band of the parameter image is valid where the images are not both
    valid (every band: gain, offset and R2 of every pair)
    """
    # the other image reaches the processing grid by `average` when it is the finer one (R1: valid iff a valid pixel
    # overlaps) and by an up-sampling kernel when it is the coarser one (R2: valid iff the pixel containing the centre is)
    if proc_ref:
        og, pg, ov, pv = src, ref, sv, rv
    else:
        og, pg, ov, pv = ref, src, rv, sv
    method = 'average' if og.px <= pg.px else 'nearest'
    rep = common.model_batch([resamp.model_resample_line(method, og, pg, ov.astype(float) + 1, ov)])
    if rep is None:
        run.model_available = False
        return
    exp = np.isfinite(resamp.parse_model_grid(rep[0], pg.h, pg.w)) & pv
    got_full = multi.param_masks[0]
    run.lines_compared += 1
    if got_full.shape != exp.shape:
        # the parameter image sits on the processing image's full grid
        run.fail(case, f'parameter image shape {got_full.shape} is not the processing grid {exp.shape}',
                 signature=dict(kind='param-grid'))
        return
    # up-sampling: pixels whose centre sits exactly on an edge of the coarser grid are decided by float noise in GDAL
    decided = ~resamp.centre_tie_mask(og, pg) if method == 'nearest' else np.ones(exp.shape, bool)
    for b in range(multi.param_masks.shape[0]):
        extra = multi.param_masks[b].astype(bool) & ~exp & decided
        if extra.any():
            d = np.argwhere(extra)
            run.fail(case, f'parameter band {b + 1} ({multi.param_descriptions[b]}) is valid at {len(d)} pixels where the two images are '
                     f'not both valid, e.g. {d[0].tolist()}', signature=dict(kind='param-mask', band_kind=('gain', 'offset', 'r2')[b // nb]))
            return
    if case['model'] == 'gain-offset':
        return
    if not np.array_equal(got_full.astype(bool)[decided], exp[decided]):
        d = np.argwhere((got_full.astype(bool) != exp) & decided)
        run.fail(case, f'parameter mask differs from "both images valid on the processing grid" at {len(d)} pixels, e.g. '
                 f'{d[0].tolist()}', signature=dict(kind='param-mask'))


def stats_accepts_nonfinite(run, tmp):
    """
    A legitimate parameter image can hold non-finite statistics: with a reference that is constant over whole kernel windows (a
    saturated or water patch in integer data) R2 = 1 - RSS/0 is -inf at valid pixels (the nodata value is NaN), so an R2 band's mean
    is -inf.  Such an image is accepted by stats too - through the API and through `homonim stats`, with and without --output - and
    the JSON report holds the API's figures.
    """
    import json
    import math
    from click.testing import CliRunner
    from homonim import cli, ParamStats
    g = rasters.Grid(8 * 3100, 8 * 4100, 8, 8, 20, 18)
    rng = run.rng('nonfinite')
    s = np.array([[[rng.randint(20, 120) for _ in range(g.w)] for _ in range(g.h)]], float)
    r = np.array([[[rng.randint(30, 90) for _ in range(g.w)] for _ in range(g.h)]], float)
    r[0, 4:12, 5:14] = 255.0
    pair = fusion.write_pair(tmp, 'c14nf', g, g, s, r, None, None)
    for k, model in enumerate(('gain', 'gain-blk-offset')):
        case = dict(i=710_000 + k, op='stats on a parameter image with non-finite statistics', model=model)
        try:
            res = fusion.run_fuse(pair.src_path, pair.ref_path, tmp / f'c14nf{k}.tif', model=model, kernel_shape=(3, 3), param=True, threads=1)
            with warnings.catch_warnings():
                warnings.simplefilter('ignore')
                with ParamStats(res.param_path) as ps:
                    api = ps.stats(threads=1)
        except Exception as ex:
            run.fail(case, f'{type(ex).__name__}: {ex}', signature=dict(kind='raises', op='nonfinite'))
            continue
        run.evaluations += 1
        run.hist['stats on non-finite parameter images'] += 1
        nonfinite = any(isinstance(v, float) and not math.isfinite(v) for row in api for v in row.values())
        if nonfinite:
            run.nontrivial.add(('nonfinite', k))
        out = tmp / f'c14nf{k}.json'
        for args in (['stats', str(res.param_path)], ['stats', str(res.param_path), '--output', str(out)]):
            cres = CliRunner().invoke(cli.cli, args)
            run.evaluations += 1
            if cres.exit_code != 0:
                run.fail(dict(case, args=args[2:]), f'`homonim {" ".join(args[:1] + args[2:])}` exited {cres.exit_code} on a parameter image written by '
                         f'fuse (its statistics hold non-finite values: {nonfinite})', signature=dict(kind='stats-rejects', op='nonfinite'))
                break
        else:
            try:
                js = json.loads(out.read_text())[str(res.param_path)]
            except Exception as ex:
                run.fail(case, f'the JSON report cannot be read back: {type(ex).__name__}: {ex}', signature=dict(kind='stats-json', op='nonfinite'))
                continue
            def canon(rows):
                return [{kk: (repr(float(v)) if isinstance(v, (int, float)) and not isinstance(v, bool) else v) for kk, v in row.items()} for row in rows]
            a, b = canon(js), canon(json.loads(json.dumps(api, default=float)))
            if [r_['band'] for r_ in a] != [r_['band'] for r_ in b] or any(
                    not (x == y or abs(float(x) - float(y)) <= 1e-9 * max(1.0, abs(float(y)))) for ra, rb in zip(a, b) for (k1, x), (k2, y) in
                    zip(sorted(ra.items()), sorted(rb.items())) if k1 != 'band' and x not in ('nan',) and y not in ('nan',)):
                run.fail(case, f'JSON report {a[:1]} differs from the API result {b[:1]}', signature=dict(kind='stats-json', op='nonfinite'))


def r2_band_leg(run, tmp):
    """
    The R2 band (band 2n + i) holds the R2 of the model the other two bands describe: 1 - RSS/TSS of `gain * source + offset`
    against the reference over the jointly valid pixels of the kernel window - also where the window is only partly covered
    (image edge, nodata holes).  Same-grid pairs (no resampling between the images), brute force in float64.
    """
    for k, model in enumerate(['gain', 'gain-blk-offset', 'gain-offset']):
        rng = run.rng(f'r2band{k}')
        H, W = rng.randint(14, 20), rng.randint(14, 20)
        g = rasters.Grid(8 * 3000 + 8 * k, 8 * 4000, 8, 8, W, H)
        s = np.array([[[rng.randint(20, 120) for _ in range(W)] for _ in range(H)]], float)
        r = 0.5 * s + np.array([[[rng.randint(0, 40) for _ in range(W)] for _ in range(H)]], float)
        sv = np.ones((H, W), bool)
        sv[H // 2:H // 2 + 3, W // 3:W // 3 + 4] = False
        sv[:, 0] = False
        rv = np.ones((H, W), bool)
        rv[2, W - 4:] = False
        kh, kw = [(3, 5), (5, 3), (3, 3)][k]
        pair = fusion.write_pair(tmp, f'c14r2{k}', g, g, s, r, sv, rv)
        case = dict(i=700_000 + k, op='R2 band definition', model=model, kernel=(kh, kw), shape=(H, W))
        try:
            res = fusion.run_fuse(pair.src_path, pair.ref_path, tmp / 'c14r2_out.tif', model=model, kernel_shape=(kh, kw), param=True,
                                  threads=1, model_config=dict(r2_inpaint_thresh=None))
        except Exception as ex:
            run.fail(case, f'fusion raised {type(ex).__name__}: {ex}', signature=dict(kind='raises'))
            continue
        run.evaluations += 1
        run.hist['R2-band definition cases'] += 1
        gain, off, r2 = (res.param[j].astype('float64') for j in range(3))
        m = sv & rv
        worst, where = 0.0, None
        for rr in range(H):
            for cc in range(W):
                if not m[rr, cc] or not np.isfinite(r2[rr, cc]):
                    continue
                win = np.zeros((H, W), bool)
                win[max(rr - kh // 2, 0):rr + kh // 2 + 1, max(cc - kw // 2, 0):cc + kw // 2 + 1] = True
                win &= m
                x, y = s[0][win], r[0][win]
                tss = float(((y - y.mean()) ** 2).sum())
                if tss < 1e-6 or len(x) < 2:
                    continue
                rss = float(((y - (gain[rr, cc] * x + off[rr, cc])) ** 2).sum())
                d = abs((1 - rss / tss) - r2[rr, cc]) / max(1.0, abs(r2[rr, cc]))
                if d > worst:
                    worst, where = d, (rr, cc, 1 - rss / tss, float(r2[rr, cc]), int(win.sum()))
        if worst > 5e-3:
            run.fail(case, f'R2 band at {where[:2]} holds {where[3]:.4f}, the R2 of gain*source+offset over the {where[4]} jointly valid '
                     f'pixels of its window is {where[2]:.4f}', signature=dict(kind='r2-band'))
    # a reference that is constant over whole kernel windows (a saturated patch) under a textured source: the total sum of
    # squares is 0, the residual is not - R2 is -inf, a *valid* pixel of the parameter image (nodata is NaN): the R2 band is valid
    # wherever both images are, like the other two bands
    for k, model in enumerate(['gain', 'gain-blk-offset']):
        rng = run.rng(f'r2flat{k}')
        H, W = 16, 18
        g = rasters.Grid(8 * 3100 + 8 * k, 8 * 4100, 8, 8, W, H)
        s = np.array([[[rng.randint(20, 120) for _ in range(W)] for _ in range(H)]], float)
        r = np.array([[[rng.randint(30, 90) for _ in range(W)] for _ in range(H)]], float)
        r[0, 4:12, 5:14] = 150.0
        sv = np.ones((H, W), bool)
        sv[0, :] = False
        pair = fusion.write_pair(tmp, f'c14flat{k}', g, g, s, r, sv, None)
        case = dict(i=700_100 + k, op='R2 band validity, flat reference patch', model=model, kernel=(3, 3), shape=(H, W))
        try:
            res = fusion.run_fuse(pair.src_path, pair.ref_path, tmp / 'c14flat_out.tif', model=model, kernel_shape=(3, 3), param=True, threads=1)
        except Exception as ex:
            run.fail(case, f'fusion raised {type(ex).__name__}: {ex}', signature=dict(kind='raises'))
            continue
        run.evaluations += 1
        run.hist['R2-band validity on a flat reference patch'] += 1
        run.nontrivial.add(('r2flat', k))
        r2v = ~np.isnan(res.param[2])
        if not np.array_equal(r2v, sv):
            d = np.argwhere(r2v != sv)
            run.fail(case, f'the R2 band is {"invalid" if sv[tuple(d[0])] else "valid"} at {len(d)} processing pixels where both images are '
                     f'{"valid" if sv[tuple(d[0])] else "not valid"}, e.g. {d[0].tolist()} (reference constant over the kernel window: R2 = -inf is a value)',
                     signature=dict(kind='param-mask', band='r2'))
