"""
C15 - band matching is sound: one-to-one, in range, within tolerance, order preserving.

The real MatchedPairReader._match_pair_bands is driven with stub dataset objects (count / colorinterp / descriptions /
tags / name) over generated band metadata: 1-8 bands, wavelengths present / partial / absent, RGB colour
interpretations, alpha bands, `_MASK` descriptions, user subsets and orders, force on/off; wavelengths are dyadic
(k/64) so that float and rational distance comparisons agree.  The returned (src_bands, ref_bands) or the error kind is
compared with the Lean model (`match`), and the soundness predicates of the property are evaluated directly on the
code's answer.  A sample goes through real files and the public RasterFuse constructor.
"""
import warnings
from fractions import Fraction

import numpy as np
from rasterio.enums import ColorInterp

import common
import rasters

TOL = Fraction(0.1)  # the exact rational of the double 0.1
CI = {'r': ColorInterp.red, 'g': ColorInterp.green, 'b': ColorInterp.blue, 'o': ColorInterp.gray, 'a': ColorInterp.alpha}


class StubIm:
    def __init__(self, name, bands):
        self.name = name
        self.bands = bands
        self.count = len(bands)
        self.colorinterp = [CI['a'] if b['alpha'] else CI[b['ci']] for b in bands]
        self.descriptions = tuple(b['descr'] for b in bands)

    def tags(self, bi=None):
        if bi is None:
            return {}
        b = self.bands[bi - 1]
        return {'center_wavelength': str(float(b['wl']))} if b['wl'] is not None else {}


def gen_bands(rng, n, style):
    bands = []
    grid = [Fraction(k, 64) for k in range(20, 150, 3)]
    for i in range(n):
        wl = None
        if style == 'full' or (style == 'partial' and rng.random() < 0.6):
            wl = rng.choice(grid)
        ci = 'o'
        if style == 'rgb':
            ci = 'rgb'[i % 3] if rng.random() < 0.9 else 'o'
        bands.append(dict(alpha=False, mask=False, ci=ci, wl=wl, descr=rng.choice([None, f'B{i + 1}'])))
    if rng.random() < 0.2 and n < 8:
        bands.insert(rng.randrange(len(bands) + 1), dict(alpha=True, mask=False, ci='o', wl=None, descr=None))
    if rng.random() < 0.15 and n < 8:
        bands.append(dict(alpha=False, mask=True, ci='o', wl=None, descr='FILL_MASK'))
    return bands


def gen_case(run, i):
    rng = run.rng(i)
    style_s = rng.choice(['full', 'full', 'partial', 'absent', 'rgb'])
    style_r = rng.choice(['full', 'full', 'partial', 'absent', 'rgb']) if rng.random() < 0.5 else style_s
    ns = 3 if style_s == 'rgb' and rng.random() < 0.8 else rng.randint(1, 6)
    nr = 3 if style_r == 'rgb' and rng.random() < 0.8 else rng.randint(1, 8)
    src = gen_bands(rng, ns, style_s)
    ref = gen_bands(rng, nr, style_r)
    if i % 7 == 3:
        # an RGB(A) file described by its colour interpretation only, the alpha band NOT last, against a reference whose wavelength
        # tags are near the standard red / green / blue values in another order
        src = [dict(alpha=False, mask=False, ci=c, wl=None, descr=None) for c in rng.sample('rgb', 3)]
        src.insert(rng.randrange(0, 3), dict(alpha=True, mask=False, ci='o', wl=None, descr=None))
        ref = [dict(alpha=False, mask=False, ci='o', wl=Fraction(w, 100) + Fraction(rng.choice([0, 1, -1]), 64), descr=None)
               for w in rng.sample([65, 56, 48], 3)]
        if rng.random() < 0.5:
            ref.append(dict(alpha=False, mask=False, ci='o', wl=Fraction(86, 100), descr=None))
        style_s, style_r = 'rgb', 'full'
    mode = rng.choice(['near', 'near', 'random'])
    if mode == 'near' and style_s in ('full', 'partial') and style_r in ('full', 'partial'):
        # make reference wavelengths near copies of source ones (within / just outside tolerance)
        sw = [b['wl'] for b in src if b['wl'] is not None]
        for b in ref:
            if b['wl'] is not None and sw and rng.random() < 0.8:
                w = rng.choice(sw)
                b['wl'] = w + Fraction(rng.choice([0, 1, -1, 2, -3, 5, 9, -8]), 64)
                if b['wl'] <= 0:
                    b['wl'] = w

    def sel(bands):
        k = rng.random()
        valid = list(range(1, len(bands) + 1))
        if k < 0.55:
            return None
        if k < 0.9:
            return rng.sample(valid, rng.randint(1, len(valid)))
        if k < 0.95:
            return rng.sample(valid, 1) + [len(bands) + rng.randint(1, 2)]   # out of range
        return []
    return dict(i=i, src=src, ref=ref, sel_s=sel(src), sel_r=sel(ref), force=rng.random() < 0.25)


def btok(b):
    ci = b['ci'] if b['ci'] in 'rgb' else 'o'
    wl = '_' if b['wl'] is None else f"{b['wl'].numerator}/{b['wl'].denominator}"
    return f"{int(b['alpha'])}{int(b['mask'])}{ci}:{wl}"


def stok(s):
    return '_' if s is None else ('[]' if len(s) == 0 else ','.join(map(str, s)))


def model_line(case):
    return (f"match {int(case['force'])} {TOL.numerator}/{TOL.denominator} S {stok(case['sel_s'])} " +
            ' '.join(btok(b) for b in case['src']) + f" R {stok(case['sel_r'])} " + ' '.join(btok(b) for b in case['ref']))


def classify(ex):
    m = str(ex)
    for key, kind in (('contain invalid band', 'invalid-band'), ('contain alpha band', 'alpha-band'),
                      ('There are no non-alpha', 'no-bands'), ('has fewer bands', 'fewer-ref'),
                      ('could not be auto-matched', 'unmatched-wavelength'), ('Could not match', 'unmatched-count')):
        if key in m:
            return kind
    return f'other:{type(ex).__name__}:{m[:60]}'


def impl_match(case):
    from homonim.matched_pair import MatchedPairReader
    rdr = object.__new__(MatchedPairReader)
    rdr._src_bands = tuple(case['sel_s']) if case['sel_s'] is not None else None
    rdr._ref_bands = tuple(case['sel_r']) if case['sel_r'] is not None else None
    rdr._force = case['force']
    with warnings.catch_warnings():
        warnings.simplefilter('ignore')
        try:
            s, r = rdr._match_pair_bands(StubIm('src.tif', case['src']), StubIm('ref.tif', case['ref']))
            return 'ok s=%s r=%s' % (','.join(map(str, s)), ','.join(map(str, r))), (list(s), list(r))
        except ValueError as ex:
            return 'err ' + classify(ex), None
        except Exception as ex:
            return 'err ' + classify(ex), None


def eff_wl(bands, bi):
    """effective wavelength of band bi (tag, else RGB default as the code assigns) - for the tolerance predicate only
    bands with an explicit tag are considered"""
    b = bands[bi - 1]
    if b['wl'] is not None:
        return b['wl']
    # the documented default: in a file with exactly three candidate bands a red / green / blue colour interpretation stands for the
    # standard wavelength (the "assume R, G, B in file order" fall-back is an assumption, not metadata: not counted here)
    cand = [x for x in bands if not x['alpha'] and not x['mask']]
    if len(cand) == 3 and not b['alpha'] and not b['mask'] and b['ci'] in ('r', 'g', 'b'):
        return {'r': Fraction(65, 100), 'g': Fraction(56, 100), 'b': Fraction(48, 100)}[b['ci']]
    return None


def predicates(run, case, jc, sr):
    s, r = sr
    src, ref = case['src'], case['ref']
    bad = None
    non_alpha = lambda bands: [i + 1 for i, b in enumerate(bands) if not b['alpha'] and not b['mask']]
    if len(s) != len(r):
        bad = f'lengths differ: {s} vs {r}'
    elif any(b < 1 or b > len(src) or b not in non_alpha(src) for b in s) or \
            any(b < 1 or b > len(ref) or b not in non_alpha(ref) for b in r):
        bad = f'a matched band does not exist or is an alpha/mask band: {s} / {r}'
    elif len(set(r)) != len(r):
        bad = f'a reference band is used twice: {r}'
    elif case['sel_s'] and any(b not in case['sel_s'] for b in s) or case['sel_r'] and any(b not in case['sel_r'] for b in r):
        bad = f'matched bands {s}/{r} are not drawn from the selections {case["sel_s"]}/{case["sel_r"]}'
    else:
        order = case['sel_s'] if case['sel_s'] else None
        if order is not None:
            pos = [order.index(b) for b in s]
            if pos != sorted(pos):
                bad = f'source bands {s} are not in the order given {order}'
        elif s != sorted(s):
            bad = f'source bands {s} are not in file order'
    if not bad and not case['force']:
        for a, b in zip(s, r):
            wa, wb = eff_wl(src, a), eff_wl(ref, b)
            if wa is not None and wb is not None and abs(wa - wb) > TOL * wa:
                bad = f'pair (source {a}: {float(wa):.4f}, reference {b}: {float(wb):.4f}) differs by more than 10 %'
        if not bad:
            cand = case['sel_s'] if case['sel_s'] else None
            if cand is not None and len(s) != len(cand):
                bad = f'selected source bands {cand} were silently reduced to {s}'
    if bad:
        run.fail(jc, bad, signature=dict(kind='soundness'))
    return not bad


def jsonable_case(case):
    def jb(b):
        return dict(b, wl=None if b['wl'] is None else str(b['wl']))
    return dict(case, src=[jb(b) for b in case['src']], ref=[jb(b) for b in case['ref']])


def run(run: common.Run):
    n = 2000 if run.quick() else 50000
    run.rule = ('random band metadata for 1-6 source / 1-8 reference bands (wavelengths full / partial / absent / RGB colour '
                'interpretation, alpha and _MASK bands, near-tolerance reference copies), selections (none / subset+order / out of '
                'range / empty), force; non-trivial = a successful match of >= 2 bands or an error other than fewer-ref; distinct '
                'by the full configuration')
    cases, lines, impls = [], [], []
    for i in run.indices(n):
        case = gen_case(run, i)
        rep, sr = impl_match(case)
        run.evaluations += 1
        run.hist[rep.split()[0] + (' ' + rep.split()[1] if rep.startswith('err') else '')] += 1
        jc = jsonable_case(case)
        if sr is not None:
            predicates(run, case, jc, sr)
            if len(sr[0]) >= 2:
                run.nontrivial.add(model_line(case))
        elif 'fewer-ref' not in rep:
            run.nontrivial.add(model_line(case))
        cases.append(jc)
        lines.append(model_line(case))
        impls.append(rep)
        run.sample(dict(request=lines[-1], impl=rep), 5)
    failed = {f['case']['i'] for f in run.failures}
    replies = common.model_batch(lines)
    if replies is None:
        run.model_available = False
    else:
        for case, line, m, im in zip(cases, lines, replies, impls):
            run.lines_compared += 1
            if case['i'] in failed:
                continue
            if m != im:
                run.disagree(case, line, m, im)
    real_files(run)
    zero_wavelength_probe(run)


def real_files(run):
    """a sample through real files and the public constructor"""
    from homonim import RasterFuse
    tmp = run.tmpdir()
    lines, impls, cases = [], [], []
    for k in range(25 if run.quick() else 200):
        if run.only is not None:
            break
        case = gen_case(run, 10**6 + k)
        for b in case['src'] + case['ref']:
            b['mask'] = False
            if b['descr'] == 'FILL_MASK':
                b['descr'] = None
        g = rasters.Grid(8 * 1000, 8 * 2000, 8, 8, 6, 5)

        def write(path, bands):
            data_bands = [b for b in bands if not b['alpha']]
            has_alpha = any(b['alpha'] for b in bands)
            if has_alpha and bands[-1]['alpha'] is False:
                return False
            arr = np.ones((len(data_bands), g.h, g.w))
            ci = [CI[b['ci']] for b in data_bands]
            rasters.write_tif(path, g, arr, dtype='uint8', nodata=None, alpha=np.ones((g.h, g.w), bool) if has_alpha else None,
                              colorinterp=ci, band_tags=[{'center_wavelength': str(float(b['wl']))} if b['wl'] is not None
                                                         else None for b in data_bands],
                              descriptions=[b['descr'] for b in data_bands])
            return True
        # alpha band only supported as the last band in this file writer: normalise
        for bands in (case['src'], case['ref']):
            al = [b for b in bands if b['alpha']]
            bands[:] = [b for b in bands if not b['alpha']] + al[:1]
        sp, rp = tmp / 'c15_s.tif', tmp / 'c15_r.tif'
        if not (write(sp, case['src']) and write(rp, case['ref'])):
            continue
        with warnings.catch_warnings():
            warnings.simplefilter('ignore')
            try:
                rf = RasterFuse(sp, rp, src_bands=case['sel_s'], ref_bands=case['sel_r'], force=case['force'])
                rep = 'ok s=%s r=%s' % (','.join(map(str, rf.src_bands)), ','.join(map(str, rf.ref_bands)))
            except ValueError as ex:
                rep = 'err ' + classify(ex)
            except Exception as ex:
                rep = 'err ' + classify(ex)
        run.evaluations += 1
        run.hist['through real files'] += 1
        lines.append(model_line(case))
        impls.append(rep)
        cases.append(jsonable_case(case))
    run.compare_lines(cases, lines, impls)


def zero_wavelength_probe(run):
    """known finding D12: all reference wavelengths 0.0 -> numpy any() is false -> tolerance is never checked"""
    case = dict(i=-12, src=[dict(alpha=False, mask=False, ci='o', wl=Fraction(1, 2), descr=None)],
                ref=[dict(alpha=False, mask=False, ci='o', wl=Fraction(0), descr=None)], sel_s=None, sel_r=None, force=False)
    rep, sr = impl_match(case)
    run.evaluations += 1
    if sr is not None:
        run.fail(jsonable_case(case), 'source band 1 (0.5 um) matched with reference band 1 (0.0 um) without force: they differ by '
                 'more than 10 %', signature=dict(kind='within-tolerance', all_ref_wavelengths_zero=True))
    m = common.model_batch([model_line(case)])
    if m is not None:
        run.lines_compared += 1
        if m[0] != rep:
            run.disagree(jsonable_case(case), model_line(case), m[0], rep)
