"""
C16 - a reference that does not cover the source is always rejected.

Placements of a source footprint relative to a reference footprint: inside, flush with each side, overhanging each
side by a fraction of a pixel / one pixel / many pixels; both resolution orders, dyadic and decimal geometry, large
coordinates, south-up storage of either image.  RasterFuse / RasterCompare construction must raise ImageContentError
exactly when the Lean model (`covers`, the repaired predicate = footprint containment by theorem covers_iff_contains)
says the footprint is not contained.  The orientation/CRS decision table is compared with utils.same_orientation_crs
through stub datasets for all 16 x 3 combinations.
"""
from fractions import Fraction

import warnings
import numpy as np
import common
import rasters


def gen_case(run, i):
    rng = run.rng(i)
    family = 'dyadic' if rng.random() < 0.6 else 'decimal'
    unit = Fraction(1, 8) if family == 'dyadic' else Fraction(1, 20)
    pr = rng.choice([8, 16, 24, 9, 20, 30, 72])
    ps = rng.choice([2, 4, 8, 9, 10, 16, 20, 45])
    big = rng.choice([8 * 20_000, 20 * 6_500_000 + 8, -20 * 3_000_000 - 6])
    rw, rh = rng.randint(6, 30), rng.randint(6, 30)
    rx0, rytop = big + rng.randrange(-30, 30) * pr + 3, big // 2 + rng.randrange(-30, 30) * pr + 5

    def place(r0, r1):
        """source interval [lo, hi) relative to the reference interval [r0, r1) (units)"""
        rel_hi = rng.choice(['inside', 'inside', 'flush', 'over', 'over'])
        rel_lo = rng.choice(['inside', 'inside', 'inside', 'flush', 'over'])
        amount = rng.choice([1, 2, ps // 2 or 1, ps, 3 * ps, pr, 5 * pr + 1])
        hi = r1 + (0 if rel_hi == 'flush' else amount if rel_hi == 'over' else -rng.choice([1, ps, pr, 2 * pr + 3]))
        amount = rng.choice([1, 2, ps // 2 or 1, ps, 3 * ps, pr, 5 * pr + 1])
        lo_t = r0 + (0 if rel_lo == 'flush' else -amount if rel_lo == 'over' else rng.choice([1, ps, pr, 2 * pr + 3]))
        n = max(1, round((hi - lo_t) / ps))
        if rel_lo == 'flush' and (hi - r0) % ps == 0 and hi > r0:
            n = (hi - r0) // ps
        return hi - n * ps, n

    sx0, sw = place(rx0, rx0 + rw * pr)
    # rows: work in the negated y coordinate (top = lo)
    nlo, sh = place(-rytop, -rytop + rh * pr)
    src = rasters.Grid(sx0, -nlo, ps, ps, sw, sh, unit)
    ref = rasters.Grid(rx0, rytop, pr, pr, rw, rh, unit)
    return dict(i=i, family=family, src=src.to_dict(), ref=ref.to_dict(),
                south_up=rng.choice(['none', 'none', 'none', 'src', 'ref', 'both']),
                cls=rng.choice(['fuse', 'compare']))


def relation(src, ref):
    sl, sb, sr, st = src.bounds_units
    rl, rb, rr, rt = ref.bounds_units
    sides = []
    if sl < rl: sides.append('left')
    if sr > rr: sides.append('right')
    if st > rt: sides.append('top')
    if sb < rb: sides.append('bottom')
    flush = [n for n, a, b in (('left', sl, rl), ('right', sr, rr), ('top', st, rt), ('bottom', sb, rb)) if a == b]
    return sides, flush


def run(run: common.Run):
    from homonim import RasterFuse, RasterCompare
    from homonim.errors import ImageContentError
    n = 300 if run.quick() else 6000
    run.rule = ('random placements of a source footprint against a reference footprint (inside / flush / overhang by '
                '1 unit .. many pixels on each of the four sides), both resolution orders, dyadic + decimal families, large '
                'coordinates, south-up storage; non-trivial = an overhang on some side or a flush side; distinct by '
                '(sides overhanging, flush sides, pixel sizes, storage)')
    tmp = run.tmpdir()
    cases, lines, impls = [], [], []
    for i in run.indices(n):
        case = gen_case(run, i)
        src, ref = rasters.Grid.from_dict(case['src']), rasters.Grid.from_dict(case['ref'])
        sp, rp = tmp / 'c16_s.tif', tmp / 'c16_r.tif'
        rasters.write_tif(sp, src, south_up=case['south_up'] in ('src', 'both'))
        rasters.write_tif(rp, ref, south_up=case['south_up'] in ('ref', 'both'))
        cls = RasterFuse if case['cls'] == 'fuse' else RasterCompare
        try:
            # file names as str or as Path, alternately (both are documented)
            cls(str(sp), str(rp)) if case['i'] % 2 else cls(sp, rp)
            got = 1
        except ImageContentError:
            got = 0
        except Exception as ex:
            got = f'other:{type(ex).__name__}:{str(ex)[:60]}'
        run.evaluations += 1
        sides, flush = relation(src, ref)
        run.hist['overhang:' + (','.join(sides) or 'none')] += 1
        run.hist[f'storage south-up={case["south_up"]}'] += 1
        if sides or flush:
            run.nontrivial.add((tuple(sides), tuple(flush), src.px, ref.px, case['south_up']))
        expect = 0 if sides else 1
        if got != expect:
            if got == 1:
                what = f'source overhanging the reference on {sides} was accepted'
                sig = dict(kind='accepted-overhang', sides=','.join(sides))
            elif got == 0:
                what = f'source contained in the reference (flush: {flush}) was rejected'
                sig = dict(kind='rejected-contained')
            else:
                what = f'construction raised {got}'
                sig = dict(kind='other-error')
            run.fail(case, what, signature=sig)
        cases.append(case)
        lines.append('covers %d %d %d %d %d %d %d %d %d %d %d %d' % (*ref.row_axis, *src.row_axis, *ref.col_axis,
                                                                     *src.col_axis))
        impls.append(got)
        run.sample(dict(case=case, sides=sides, flush=flush, impl_accepts=got), 4)
    failed = {f['case']['i'] for f in run.failures}
    replies = common.model_batch(lines)
    if replies is None:
        run.model_available = False
    else:
        for case, line, m, got in zip(cases, lines, replies, impls):
            run.lines_compared += 1
            if case['i'] in failed:
                continue
            if m.split()[0] != str(got):
                run.disagree(case, line, m, str(got))
    cross_crs(run)
    try:
        orientation_table(run)
    except Exception as ex:  # the stub datasets no longer satisfy what same_orientation_crs asks of a dataset
        import traceback
        run.disagree(dict(i=10**6), '(orientation table)', 'n/a', traceback.format_exc()[-800:],
                     what='same_orientation_crs could not be driven through the stub datasets')


class _StubIm:
    def __init__(self, north_up, crs):
        from rasterio.transform import Affine
        self.transform = Affine(1, 0, 10, 0, -1 if north_up else 1, 20)
        self.crs = crs


def orientation_table(run):
    """all 2 x 2 x 2 x 3 combinations through the real same_orientation_crs with WarpedVRT replaced by a recorder"""
    from homonim import utils
    from homonim.enums import ProcCrs
    lines, impls, cases = [], [], []
    orig = utils.WarpedVRT

    class Rec:
        def __init__(self, im, crs=None, resampling=None):
            self.crs = crs
            from rasterio.transform import Affine
            self.transform = Affine(1, 0, 10, 0, -1, 20)
    utils.WarpedVRT = Rec
    try:
        for sn in (0, 1):
            for rn in (0, 1):
                for rc in (0, 1):
                    for proc in (None, ProcCrs.auto, ProcCrs.src, ProcCrs.ref):
                        s, r = utils.same_orientation_crs(_StubIm(sn, 0), _StubIm(rn, rc), proc_crs=proc)
                        impls.append('%d %d %d %d' % (utils.north_up(s), s.crs, utils.north_up(r), r.crs))
                        lines.append(f'orient {sn} 0 {rn} {rc} {1 if proc == ProcCrs.src else 0}')
                        cases.append(dict(i=10**6 + len(cases), table=(sn, rn, rc, str(proc))))
                        run.evaluations += 1
                        if not (utils.north_up(s) and utils.north_up(r) and s.crs == r.crs):
                            run.fail(cases[-1], f'same_orientation_crs leaves images {impls[-1]} (not both north-up in one CRS)',
                                     signature=dict(kind='orientation'))
    finally:
        utils.WarpedVRT = orig
    run.compare_lines(cases, lines, impls)
    run.hist['orientation-table rows'] = len(lines)


def cross_crs(run):
    """
    Source and reference in different coordinate systems - EPSG/EPSG (neighbouring UTM zones), two custom transverse
    Mercator systems without EPSG codes (central meridians 25 / 27 and 25 / 25.1), EPSG vs custom: a small source placed,
    by transforming a point of the reference, well inside the reference or straddling one of its four edges.  Not modelled
    (the re-projection is PROJ's); the property's predicate is evaluated on the real constructors with the footprint
    relation decided by rasterio.warp.transform_bounds with a margin of several pixels.
    """
    import warnings
    import numpy as np
    import rasterio as rio
    from rasterio.crs import CRS
    from rasterio.transform import Affine
    from rasterio.warp import transform, transform_bounds
    from homonim import RasterFuse, RasterCompare
    from homonim.errors import ImageContentError
    tmp = run.tmpdir()
    def tm(lon0):
        return CRS.from_proj4(f'+proj=tmerc +lat_0=0 +lon_0={lon0} +k=1 +x_0=0 +y_0=0 +ellps=WGS84 +units=m +no_defs')
    pairs = [('utm34s/utm35s', CRS.from_epsg(32734), CRS.from_epsg(32735), (300_000.0, 6_200_000.0)),
             ('tmerc27/tmerc25', tm(27), tm(25), (150_000.0, -3_700_000.0)),
             ('tmerc25.1/tmerc25', tm(25.1), tm(25), (20_000.0, -3_700_000.0)),
             ('utm35s/tmerc25', CRS.from_epsg(32735), tm(25), (150_000.0, -3_700_000.0)),
             ('tmerc27/utm35s', tm(27), CRS.from_epsg(32735), (500_000.0, 6_250_000.0))]
    k = 0
    small_overhang(run, tmp)
    elongated_reference(run, tmp)
    rotated_reference_other_crs(run, tmp)
    shared_origin(run, tmp)
    flush_south_up(run, tmp)
    for name, scrs, rcrs, (rx0, rytop) in pairs:
        rres, rw, rh = 10.0, 400, 400
        rt = Affine(rres, 0, rx0, 0, -rres, rytop)
        rb = (rx0, rytop - rh * rres, rx0 + rw * rres, rytop)
        rp = tmp / 'c16x_r.tif'
        with rio.open(rp, 'w', driver='GTiff', width=rw, height=rh, count=1, dtype='float32', crs=rcrs, transform=rt,
                      nodata=float('nan')) as ds:
            ds.write(np.ones((1, rh, rw), dtype='float32'))
        cx, cy = (rb[0] + rb[2]) / 2, (rb[1] + rb[3]) / 2
        for place, (px, py) in (('inside', (cx, cy)), ('inside-offset', (cx + 1200.0, cy - 900.0)), ('left', (rb[0], cy)),
                                ('right', (rb[2], cy)), ('top', (cx, rb[3])), ('bottom', (cx, rb[1])),
                                ('far-right', (rb[2] + 30_000.0, cy))):
            for sres in (5.0, 20.0):
                k += 1
                rng = run.rng(f'xcrs{k}')
                (sx,), (sy,) = transform(rcrs, scrs, [px], [py])
                sw, sh = rng.randint(16, 24), rng.randint(16, 24)
                sx0, sy0 = round(sx - sw * sres / 2, 1), round(sy + sh * sres / 2, 1)
                st = Affine(sres, 0, sx0, 0, -sres, sy0)
                sp = tmp / 'c16x_s.tif'
                with rio.open(sp, 'w', driver='GTiff', width=sw, height=sh, count=1, dtype='float32', crs=scrs, transform=st,
                              nodata=float('nan')) as ds:
                    ds.write(np.ones((1, sh, sw), dtype='float32'))
                l, b, r_, t = transform_bounds(scrs, rcrs, sx0, sy0 - sh * sres, sx0 + sw * sres, sy0, densify_pts=21)
                m = 3 * rres
                inside = l >= rb[0] + m and r_ <= rb[2] - m and b >= rb[1] + m and t <= rb[3] - m
                over = l < rb[0] - m or r_ > rb[2] + m or b < rb[1] - m or t > rb[3] + m
                if inside == over:
                    continue  # too close to an edge to call
                cls = RasterFuse if k % 2 else RasterCompare
                case = dict(i=800_000 + k, op='cross-crs', crs=name, placement=place, src_res=sres, cls=cls.__name__)
                try:
                    with warnings.catch_warnings():
                        warnings.simplefilter('ignore')
                        cls(sp, rp)
                    got = 1
                except ImageContentError:
                    got = 0
                except Exception as ex:
                    got = f'other:{type(ex).__name__}:{str(ex)[:60]}'
                run.evaluations += 1
                run.hist[f'cross-CRS {name}'] += 1
                run.nontrivial.add(('xcrs', name, place, sres))
                if got != (1 if inside else 0):
                    # does the source lie inside the *bounding box* of the reference re-projected into the source CRS?
                    # (that box is what the code tests against; it is larger than the reference footprint - finding D15)
                    # (the box GDAL itself gives the re-projected reference: a WarpedVRT in the source CRS, as the code builds)
                    from rasterio.vrt import WarpedVRT
                    with rio.open(rp) as rds, WarpedVRT(rds, crs=scrs) as vrt:
                        wl, wb, wr, wt = vrt.bounds
                    tol = 1e-6 * max(sres, rres)
                    in_box = wl - tol <= sx0 and sx0 + sw * sres <= wr + tol and wb - tol <= sy0 - sh * sres and sy0 <= wt + tol
                    what = (f'source overhanging the reference ({place}) in another CRS ({name}) was accepted' if got == 1 else
                            f'source contained in the reference ({place}) in another CRS ({name}) was rejected' if got == 0 else
                            f'construction raised {got}')
                    run.fail(case, what, signature=dict(kind='cross-crs-accepted' if got == 1 else 'cross-crs', crs=name,
                                                        in_reprojected_bbox=bool(in_box)))


def flush_south_up(run, tmp):
    """
    Finding D14 (repaired), kept as a deterministic leg: a contained source stored south-up whose top edge is flush with the
    reference's top edge, in decimal coordinates - the file stores the source's *bottom* as origin, so its top is
    `bottom + h * py` in floating point and can come out a few 1e-13 pixels above the reference's top.  Such a pair is accepted.
    """
    import rasterio as rio
    from rasterio.transform import Affine
    from homonim import RasterFuse
    from homonim.errors import ImageContentError
    k = 0
    # (origins as a person would type them: bottom = round(top - h * pixel, 4); in each of these `bottom + h * pixel` exceeds `top` by
    # 1e-10 .. 2e-8 pixels in double precision)
    for top, ps, h, bottom in ((3997.25, 0.1, 109, 3986.35), (7654321.3, 0.1, 24, 7654318.9), (7654321.3, 0.3, 23, 7654314.4),
                               (7654321.3, 0.05, 23, 7654320.15), (123456.7, 0.1, 21, 123454.6), (123456.7, 0.45, 23, 123446.35)):
        for left_in in (0.0, 3.0):
            k += 1
            rp, sp = tmp / f'c16fs_r{k}.tif', tmp / f'c16fs_s{k}.tif'
            rt = Affine(1.0, 0, 1000.0, 0, -1.0, top)
            w = 37
            st = Affine(ps, 0, 1000.0 + left_in, 0, ps, bottom)       # south-up: origin at the bottom, positive row step
            for path, tr, ww, hh in ((rp, rt, 40, int(h * ps) + 12), (sp, st, w, h)):
                with rio.open(path, 'w', driver='GTiff', width=ww, height=hh, count=1, dtype='float32', crs='EPSG:32735', transform=tr,
                              nodata=float('nan')) as ds:
                    ds.write(np.ones((1, hh, ww), dtype='float32'))
            case = dict(i=900_000 + k, op='south-up source flush with the top of the reference', top=top, pixel=ps, rows=h, left_margin=left_in)
            try:
                with warnings.catch_warnings():
                    warnings.simplefilter('ignore')
                    RasterFuse(sp, rp)
                got = 'accepted'
            except ImageContentError:
                got = 'rejected'
            except Exception as ex:
                got = f'raised {type(ex).__name__}'
            run.evaluations += 1
            run.hist[f'south-up flush-top pairs: {got.split()[0]}'] += 1
            run.nontrivial.add(('flush-south-up', k))
            if got != 'accepted':
                run.fail(case, f'a source contained in the reference (top edges flush, {ps} m pixels, top at {top}) was {got}',
                         signature=dict(kind='contained-rejected', op='flush-south-up'))


def small_overhang(run, tmp):
    """
    A pair of CRSs without grid convergence at the site (UTM 35S on its central meridian against geographic coordinates): the
    re-projected footprints are axis-parallel, so an overhang of about one reference pixel on one side must be rejected whatever
    processing grid is requested (auto, src or ref), and a source one pixel inside must be accepted.
    """
    import warnings
    import numpy as np
    import rasterio as rio
    from rasterio.crs import CRS
    from rasterio.transform import Affine
    from rasterio.warp import transform, transform_bounds
    from homonim import RasterFuse, RasterCompare
    from homonim.enums import ProcCrs
    from homonim.errors import ImageContentError
    scrs, rcrs = CRS.from_epsg(32735), CRS.from_epsg(4326)
    rres, rw, rh = 1e-4, 300, 300
    rx0, rytop = 27.0 - rres * rw / 2, -30.0 + rres * rh / 2      # centred on the central meridian of zone 35
    rb = (rx0, rytop - rh * rres, rx0 + rw * rres, rytop)
    rp = tmp / 'c16so_r.tif'
    with rio.open(rp, 'w', driver='GTiff', width=rw, height=rh, count=1, dtype='float32', crs=rcrs, transform=Affine(rres, 0, rx0, 0, -rres, rytop),
                  nodata=float('nan')) as ds:
        ds.write(np.ones((1, rh, rw), dtype='float32'))
    sres = 30.0
    k = 0
    # the source size varies: how a re-projected footprint is rounded to whole pixels depends on it
    for side, amount, (sw, sh) in [(sd, am, sz) for sd in ('right', 'bottom', 'left', 'top') for am in (1.0, 1.25, -1.5)
                                   for sz in ((37, 40), (33, 36), (35, 38), (38, 41), (34, 39))]:
        if True:
            # place the source so that the named edge of its footprint (in the reference CRS) is `amount` pixels beyond the edge
            cx, cy = (rb[0] + rb[2]) / 2, (rb[1] + rb[3]) / 2
            (ux,), (uy,) = transform(rcrs, scrs, [cx], [cy])
            sx0, sy0 = ux - sw * sres / 2, uy + sh * sres / 2
            for _ in range(4):      # fixed point: shift in metres by the remaining error in degrees
                l, b, r_, t = transform_bounds(scrs, rcrs, sx0, sy0 - sh * sres, sx0 + sw * sres, sy0, densify_pts=21)
                if side == 'right':
                    err = (rb[2] + amount * rres) - r_
                    sx0 += err * 96_500.0
                elif side == 'left':
                    err = l - (rb[0] - amount * rres)
                    sx0 -= err * 96_500.0
                elif side == 'top':
                    err = (rb[3] + amount * rres) - t
                    sy0 += err * 110_900.0
                else:
                    err = b - (rb[1] - amount * rres)
                    sy0 -= err * 110_900.0
            l, b, r_, t = transform_bounds(scrs, rcrs, sx0, sy0 - sh * sres, sx0 + sw * sres, sy0, densify_pts=21)
            over = max(rb[0] - l, r_ - rb[2], rb[1] - b, t - rb[3]) / rres      # largest overhang in reference pixels
            if abs(over - amount) > 0.1:
                continue
            sp = tmp / 'c16so_s.tif'
            with rio.open(sp, 'w', driver='GTiff', width=sw, height=sh, count=1, dtype='float32', crs=scrs,
                          transform=Affine(sres, 0, sx0, 0, -sres, sy0), nodata=float('nan')) as ds:
                ds.write(np.ones((1, sh, sw), dtype='float32'))
            for proc in ('auto', 'src', 'ref'):
                for cls in (RasterFuse, RasterCompare):
                    k += 1
                    case = dict(i=850_000 + k, op='cross-crs small overhang', side=side, overhang_ref_px=round(over, 3), proc_crs=proc,
                                cls=cls.__name__)
                    try:
                        with warnings.catch_warnings():
                            warnings.simplefilter('ignore')
                            cls(sp, rp, proc_crs=ProcCrs(proc))
                        got = 1
                    except ImageContentError:
                        got = 0
                    except Exception as ex:
                        got = f'other:{type(ex).__name__}:{str(ex)[:60]}'
                    run.evaluations += 1
                    run.hist['cross-CRS small overhang / inside cases'] += 1
                    run.nontrivial.add(('xcrs-small', side, amount, proc, cls.__name__))
                    if got != (0 if over > 0 else 1):
                        what = (f'source overhanging the reference {side} edge by {over:.2f} reference pixels (UTM 35S on geographic '
                                f'coordinates, proc_crs={proc}) was accepted' if got == 1 else
                                f'source {-over:.2f} reference pixels inside the reference ({side}, proc_crs={proc}) was rejected'
                                if got == 0 else f'construction raised {got}')
                        run.fail(case, what, signature=dict(kind='cross-crs-small', proc=proc, accepted=got == 1))


def elongated_reference(run, tmp):
    """
    Very elongated references (a 4 x 2 000 000 pixel strip, and its transpose; sparse files): the tolerance of the coverage test
    is a small fraction of a pixel whatever the size of the reference - a source one pixel, half a pixel or a twentieth of a pixel
    over the far edge is rejected, a source flush with it or inside is accepted.
    """
    import warnings
    import numpy as np
    import rasterio as rio
    from rasterio.transform import Affine
    from homonim import RasterFuse, RasterCompare
    from homonim.errors import ImageContentError
    N = 2_000_000
    x0, ytop = 8_000.0, 3_000_000.0
    k = 0
    for (rw, rh) in ((N, 4), (4, N)):
        rp = tmp / f'c16el_r{rw}.tif'
        with rio.open(rp, 'w', driver='GTiff', width=rw, height=rh, count=1, dtype='uint8', crs=rasters.CRS3857,
                      transform=Affine(1.0, 0, x0, 0, -1.0, ytop), nodata=0, SPARSE_OK=True,
                      **(dict(tiled=True, blockxsize=512, blockysize=512) if rh > 16 else {})):
            pass
        for over in (1.0, 0.5, 0.05, 0.0, -1.0):
            sw = sh = 2
            if rw > rh:     # over the right edge
                sx0, sytop = x0 + rw - sw + over, ytop - 1
            else:           # over the bottom edge
                sx0, sytop = x0 + 1, ytop - rh + sh - over
            sp = tmp / 'c16el_s.tif'
            with rio.open(sp, 'w', driver='GTiff', width=sw, height=sh, count=1, dtype='uint8', crs=rasters.CRS3857,
                          transform=Affine(1.0, 0, sx0, 0, -1.0, sytop), nodata=0) as ds:
                ds.write(np.ones((1, sh, sw), dtype='uint8'))
            for cls in (RasterFuse, RasterCompare):
                k += 1
                case = dict(i=870_000 + k, op='elongated reference', ref_shape=(rh, rw), overhang_px=over, cls=cls.__name__)
                try:
                    with warnings.catch_warnings():
                        warnings.simplefilter('ignore')
                        with cls(sp, rp):
                            pass
                    got = 1
                except ImageContentError:
                    got = 0
                except Exception as ex:
                    got = f'other:{type(ex).__name__}:{str(ex)[:60]}'
                run.evaluations += 1
                run.hist['elongated reference cases'] += 1
                run.nontrivial.add(('elongated', rw, over, cls.__name__))
                if got != (0 if over > 0 else 1):
                    run.fail(case, (f'source {over} pixels over the far edge of a {rh} x {rw} reference was accepted' if got == 1 else
                                    f'source {"flush with" if over == 0 else "inside"} the far edge of a {rh} x {rw} reference was rejected'
                                    if got == 0 else f'construction raised {got}'),
                             signature=dict(kind='elongated', accepted=got == 1))


def rotated_reference_other_crs(run, tmp):
    """
    A *rotated* reference in a coordinate system other than the source's (neighbouring UTM zones): homonim sees the reference
    through one WarpedVRT in the source CRS; a source lying beyond the bounding box of that re-projected reference by a few
    reference pixels, on any side, lies beyond the reference footprint a fortiori and must be rejected; a small source at the
    centre of the footprint must be accepted.  Whatever processing grid is requested.
    """
    import warnings
    import numpy as np
    import rasterio as rio
    from rasterio.crs import CRS
    from rasterio.transform import Affine
    from rasterio.vrt import WarpedVRT
    from homonim import RasterFuse, RasterCompare
    from homonim.enums import ProcCrs
    from homonim.errors import ImageContentError
    scrs, rcrs = CRS.from_epsg(32734), CRS.from_epsg(32735)
    rres, rw, rh = 10.0, 300, 260
    k = 0
    for ang in (20.0, -30.0):
        rt = Affine.translation(300_000.0, 6_200_000.0) * Affine.rotation(ang) * Affine.scale(rres, -rres)
        rp = tmp / 'c16rr_r.tif'
        with rio.open(rp, 'w', driver='GTiff', width=rw, height=rh, count=1, dtype='float32', crs=rcrs, transform=rt, nodata=float('nan')) as ds:
            ds.write(np.ones((1, rh, rw), dtype='float32'))
        with rio.open(rp) as rds, WarpedVRT(rds, crs=scrs) as vrt:
            wl, wb, wr, wt = vrt.bounds
            vres = abs(vrt.transform.a)
        sres, sw, sh = 5.0, 20, 20
        cx, cy = (wl + wr) / 2, (wb + wt) / 2
        places = {'centre': (cx - sw * sres / 2, cy + sh * sres / 2, 1),
                  'right': (wr + 3 * vres - sw * sres, cy + sh * sres / 2, 0), 'left': (wl - 3 * vres, cy + sh * sres / 2, 0),
                  'top': (cx - sw * sres / 2, wt + 3 * vres, 0), 'bottom': (cx - sw * sres / 2, wb - 3 * vres + sh * sres, 0)}
        for place, (sx0, sy0, want) in places.items():
            sp = tmp / 'c16rr_s.tif'
            with rio.open(sp, 'w', driver='GTiff', width=sw, height=sh, count=1, dtype='float32', crs=scrs,
                          transform=Affine(sres, 0, sx0, 0, -sres, sy0), nodata=float('nan')) as ds:
                ds.write(np.ones((1, sh, sw), dtype='float32'))
            for proc in ('auto', 'ref'):
                for cls in (RasterFuse, RasterCompare):
                    k += 1
                    case = dict(i=880_000 + k, op='rotated reference in another CRS', angle=ang, placement=place, proc_crs=proc, cls=cls.__name__)
                    try:
                        with warnings.catch_warnings():
                            warnings.simplefilter('ignore')
                            cls(sp, rp, proc_crs=ProcCrs(proc))
                        got = 1
                    except ImageContentError:
                        got = 0
                    except Exception as ex:
                        got = f'other:{type(ex).__name__}:{str(ex)[:60]}'
                    run.evaluations += 1
                    run.hist['rotated reference in another CRS'] += 1
                    run.nontrivial.add(('rot-xcrs', ang, place, proc, cls.__name__))
                    if got != want:
                        run.fail(case, (f'source 3 reference pixels beyond the {place} side of the bounding box of the re-projected (rotated {ang} deg) '
                                        f'reference - hence beyond its footprint - was accepted' if got == 1 else
                                        f'source at the centre of the rotated reference was rejected' if got == 0 else f'construction raised {got}'),
                                 signature=dict(kind='rotated-cross-crs', accepted=got == 1))


def shared_origin(run, tmp):
    """
    Source and reference with the very same geo-transform (same CRS, upper-left corner and pixel size) and different sizes: the
    source is covered iff it has no more rows AND no more columns than the reference.
    """
    import warnings
    from homonim import RasterFuse, RasterCompare
    from homonim.errors import ImageContentError
    ref = rasters.Grid(8 * 7000, 8 * 2000, 16, 16, 30, 40)
    rp = tmp / 'c16so_ref.tif'
    rasters.write_tif(rp, ref)
    k = 0
    for (h, w) in ((20, 50), (39, 31), (50, 20), (41, 30), (40, 30), (20, 15), (40, 31), (1, 31), (40, 1)):
        src = rasters.Grid(ref.x0, ref.ytop, ref.px, ref.py, w, h)
        sp = tmp / 'c16so_src.tif'
        rasters.write_tif(sp, src)
        want = 1 if (h <= ref.h and w <= ref.w) else 0
        for cls in (RasterFuse, RasterCompare):
            k += 1
            case = dict(i=890_000 + k, op='same geo-transform', src_shape=(h, w), ref_shape=(ref.h, ref.w), cls=cls.__name__)
            try:
                with warnings.catch_warnings():
                    warnings.simplefilter('ignore')
                    cls(str(sp), str(rp)) if k % 2 else cls(sp, rp)
                got = 1
            except ImageContentError:
                got = 0
            except Exception as ex:
                got = f'other:{type(ex).__name__}:{str(ex)[:60]}'
            run.evaluations += 1
            run.hist['same geo-transform cases'] += 1
            run.nontrivial.add(('same-origin', h, w, cls.__name__))
            if got != want:
                run.fail(case, (f'a {h} x {w} source on the origin of a {ref.h} x {ref.w} reference with the same pixel size was accepted' if got == 1
                                else f'a {h} x {w} source contained in the {ref.h} x {ref.w} reference (same origin) was rejected' if got == 0
                                else f'construction raised {got}'), signature=dict(kind='same-origin', accepted=got == 1))
