"""
C17 - partial masking keeps exactly the fully supported pixels.

Real fusions with mask_partial=True over validity patterns x kernels (h != w) x both processing grids x models x
block partitions.  dataset_mask(corrected) must equal the definition evaluated by the Lean model on the whole
processing window:
   cover  = average-resampled other-image mask >= 1     (`resample average` of the 0/1 mask)
   pm     = jointly valid on the processing grid         (R1 / R2 validity of the resampled image AND the other mask)
   keep   = erode(cover AND pm, (kh+2) x (kw+2), false border)   (`erode`)
   corrected valid at a source pixel  <=>  keep at the processing pixel containing its centre (`resample nearest`)
and must be a strict subset of the source mask and independent of the block partition.
"""
import numpy as np

import common
import fusion
import rasters
import resamp

MODELS = ['gain', 'gain-blk-offset', 'gain-offset']


def gen_case(run, i):
    rng = run.rng(i)
    model = MODELS[i % 3]
    want_src_grid = (i // 3) % 2 == 1
    family = rng.choice(['dyadic', 'dyadic', 'decimal'])
    src, ref = rasters.pair_geometry(rng, family, 'auto', max_src=36, margin=(1, 3), avoid_aligned_edges=True)
    if want_src_grid and src.px < ref.px:
        ps, pr = ref.px, src.px
        sw, sh = rng.randint(10, 20), rng.randint(10, 20)
        rx0, rytop = ref.x0, ref.ytop
        noisy = rasters.noisy_edges(family, ps, pr) and pr > 1
        sx0, sytop = rx0 + 3 * pr + (rasters.offgrid_offset(rng, family, ps, pr) if noisy else rng.randrange(0, pr)), rytop - 2 * pr - (rasters.offgrid_offset(rng, family, ps, pr) if noisy else rng.randrange(0, pr))
        rw = -(-(sx0 + sw * ps - rx0) // pr) + 3
        rh = -(-(rytop - (sytop - sh * ps)) // pr) + 2
        src = rasters.Grid(sx0, sytop, ps, ps, sw, sh, src.unit)
        ref = rasters.Grid(rx0, rytop, pr, pr, rw, rh, src.unit)
    elif (not want_src_grid) and src.px > ref.px:
        src, ref = rasters.pair_geometry(rng, 'dyadic', 'auto', max_src=36, margin=(1, 3))
        if src.px > ref.px:
            ref = rasters.Grid(ref.x0, ref.ytop, src.px * 2, src.px * 2, ref.w, ref.h, ref.unit)
            ref.w = -(-(src.x0 + src.w * src.px - ref.x0) // ref.px) + 2
            ref.h = -(-(ref.ytop - (src.ytop - src.h * src.px)) // ref.px) + 2
    return dict(i=i, family=family, src=src.to_dict(), ref=ref.to_dict(), model=model,
                kernel=rng.choice([(1, 1), (1, 3), (3, 1), (3, 3), (3, 5), (5, 3)]) if model != 'gain-offset'
                else rng.choice([(3, 3), (3, 5), (5, 3)]),
                halvings=sorted(rng.sample([0, 1, 2, 3, 4], 2)), threads=rng.choice([1, 2]),
                pattern=rng.choice(['full', 'holes', 'border', 'single', 'ragged']), ref_holes=rng.random() < 0.4,
                upsampling=rng.choice(['cubic_spline', 'cubic_spline', 'bilinear', 'nearest']))


def tie_geometry(src, ref):
    """some source pixel centre lies exactly on a processing (here: coarser-grid) pixel edge along an axis"""
    for (so, sp, sn), (po, pp, pn) in ((src.col_axis, ref.col_axis), (src.row_axis, ref.row_axis)):
        if any((2 * (so - po) + sp * (2 * i + 1)) % (2 * pp) == 0 for i in range(sn)):
            return True
    return False


def bits_line(op, sg, dg, mask, pad=0):
    """resample a 0/1 mask as numbers; `pad` zero pixels are added around it (the code reads NaN-padded blocks, whose
    mask is 0 outside the image, so partially covered destination pixels average to < 1)"""
    if pad:
        m = np.zeros((sg.h + 2 * pad, sg.w + 2 * pad))
        m[pad:pad + sg.h, pad:pad + sg.w] = mask
        sg = rasters.Grid(sg.x0 - pad * sg.px, sg.ytop + pad * sg.py, sg.px, sg.py, sg.w + 2 * pad, sg.h + 2 * pad, sg.unit)
        mask = m
    return resamp.model_resample_line(op, sg, dg, mask.astype(float), np.ones(mask.shape, bool))


def run(run: common.Run):
    import c03
    from homonim.errors import BlockSizeError
    n = 24 if run.quick() else 400
    run.rule = ('real fusions with mask_partial=True: validity patterns (full, holes, border, single pixels, ragged) x reference '
                'holes x kernels incl. h != w x both processing grids x 3 models x 2 block partitions each; corrected dataset mask vs '
                'the model definition (average cover >= 1, joint mask, erosion by kernel+2, nearest back to the source grid); '
                'distinct by (geometry, pattern, kernel, grid, partition)')
    tmp = run.tmpdir()
    prepared, lines = [], []
    for i in run.indices(n):
        case = gen_case(run, i)
        rng = run.rng(f'{i}-data')
        src, ref = rasters.Grid.from_dict(case['src']), rasters.Grid.from_dict(case['ref'])
        s = np.array([[rng.randint(20, 200) for _ in range(src.w)] for _ in range(src.h)], float)[None]
        r = np.array([[rng.randint(30, 150) for _ in range(ref.w)] for _ in range(ref.h)], float)[None]
        sv = c03.pattern(rng, src.h, src.w, case['pattern']) if case['pattern'] != 'full' else np.ones((src.h, src.w), bool)
        rv = c03.pattern(rng, ref.h, ref.w, 'single') if case['ref_holes'] else np.ones((ref.h, ref.w), bool)
        proc_ref = src.px <= ref.px
        off = len(lines)
        if proc_ref:
            # cover and validity of the down-sampled source on the reference grid
            lines.append(bits_line('average', src, ref, sv, pad=ref.px // src.px + 2))
        else:
            # cover of the reference mask on the source grid (average), validity of the up-sampled reference (centre rule)
            lines.append(bits_line('average', ref, src, rv, pad=src.px // ref.px + 2))
            lines.append(resamp.model_resample_line('nearest', ref, src, np.ones(rv.shape), rv))
        prepared.append((case, src, ref, s, r, sv, rv, proc_ref, off))
    rep1 = common.model_batch(lines)
    if rep1 is None:
        run.model_available = False
        return
    # second round: erosion on the processing grid, then (reference grid) nearest back to the source grid
    lines2, meta = [], []
    for case, src, ref, s, r, sv, rv, proc_ref, off in prepared:
        kh, kw = case['kernel']
        if proc_ref:
            avg = resamp.parse_model_grid(rep1[off], ref.h, ref.w)
            cover = np.nan_to_num(avg, nan=0.0) >= 1
            ds_valid = np.nan_to_num(avg, nan=0.0) > 0
            pm = ds_valid & rv
            keep_in = cover & pm
            h, w = ref.h, ref.w
        else:
            avg = resamp.parse_model_grid(rep1[off], src.h, src.w)
            cover = np.nan_to_num(avg, nan=0.0) >= 1
            us_valid = np.isfinite(resamp.parse_model_grid(rep1[off + 1], src.h, src.w))
            pm = us_valid & sv
            keep_in = cover & pm
            h, w = src.h, src.w
        meta.append(len(lines2))
        lines2.append(f'erode {kh} {kw} {h} {w} ' + ' '.join('1' if b else '0' for b in keep_in.ravel()))
    rep2 = common.model_batch(lines2)
    lines3 = []
    keeps = []
    for (case, src, ref, s, r, sv, rv, proc_ref, off), k2 in zip(prepared, meta):
        h, w = (ref.h, ref.w) if proc_ref else (src.h, src.w)
        keep = np.array([t == '1' for t in rep2[k2].split()]).reshape(h, w)
        keeps.append(keep)
        if proc_ref:
            lines3.append(resamp.model_resample_line('nearest', ref, src, keep.astype(float), np.ones(keep.shape, bool)))
        else:
            lines3.append(None)
    rep3 = common.model_batch([l for l in lines3 if l is not None])
    it3 = iter(rep3)
    # the same definition as ONE function of the two images in the Lean model (Model/PartialMask.lean, `pmask` op) - the
    # object the block-invariance theorems of Props/E2EPartial.lean are about; one batch for all reference-grid cases
    pm_lines, wholes = {}, {}
    for (case, src, ref, s, r, sv, rv, proc_ref, off) in prepared:
        # (the model evaluates every kernel fit of every eroded window in exact rationals, without memoisation: ~3 s per
        #  image, so only the smaller images and a bounded number per run go through it)
        n_ref = sum(1 for v in pm_lines.values() if v.startswith('pmask '))
        n_src = len(pm_lines) - n_ref
        cap = 2 if run.quick() else 15
        if src.h * src.w <= 400 and ((proc_ref and n_ref < cap) or (not proc_ref and src.px > ref.px and n_src < cap)):
            st = [str(int(v)) if m else '_' for v, m in zip(s[0].ravel(), sv.ravel())]
            rt = [str(int(v)) if m else '_' for v, m in zip(r[0].ravel(), rv.ravel())]
            # source-grid processing with the source the coarser image: the reference reaches the source grid by `average`
            pm_lines[case['i']] = '%s %s %d %d %s 1 0 %d %d %d %d %d %d %d %d %d %d %d %d S %s R %s' % (
                'pmask' if proc_ref else 'pmasksrc', case['model'], case['kernel'][0], case['kernel'][1],
                'nearest' if proc_ref else 'average', *src.row_axis, *src.col_axis, *ref.row_axis, *ref.col_axis,
                ' '.join(st), ' '.join(rt))
    if pm_lines:
        keys = list(pm_lines)
        rep = common.model_batch([pm_lines[k] for k in keys])
        if rep is None:
            run.model_available = False
        else:
            for k, line in zip(keys, rep):
                sh = next(p_[1] for p_ in prepared if p_[0]['i'] == k)
                wholes[k] = np.array([t == '1' for t in line.split()]).reshape(sh.h, sh.w)
                run.lines_compared += 1
    run.lines_compared += len(lines) + len(lines2) + len(rep3)
    for (case, src, ref, s, r, sv, rv, proc_ref, off), keep, l3 in zip(prepared, keeps, lines3):
        if l3 is not None:
            g = resamp.parse_model_grid(next(it3), src.h, src.w)
            expect = np.nan_to_num(g, nan=0.0) >= 0.5
        else:
            expect = keep
        pair = fusion.write_pair(tmp, 'c17', src, ref, s, r, sv, rv)
        whole = wholes.get(case['i'])
        pm_line = pm_lines.get(case['i'], '')
        masks = []
        for hv in case['halvings']:
            sub = dict(case, halvings=hv)
            ph, pw = fusion.proc_window_shape(src, ref, proc_ref)
            try:
                res = fusion.run_fuse(pair.src_path, pair.ref_path, tmp / 'c17_out.tif', model=case['model'],
                                      kernel_shape=case['kernel'], proc_crs='auto', param=False, threads=case['threads'],
                                      max_block_mem=fusion.block_mem_for(hv, ph, pw, src.px, ref.px, proc_ref),
                                      # the down-sampling method of the *data* varies; complete coverage is a property of the masks
                                      model_config=dict(mask_partial=True, upsampling=case['upsampling'],
                                                        # in-painting (gain-offset) on and off: it does not change where parameters exist
                                                        r2_inpaint_thresh=0.25 if (case['i'] // 6) % 2 == 0 else None,
                                                        downsampling=['average', 'average', 'bilinear', 'average', 'cubic'][case['i'] % 5]),
                                      # every third case: validity carried by an internal mask band instead of a nodata value
                                      out_profile=dict(nodata=None) if case['i'] % 3 == 2 else None)
            except BlockSizeError:
                run.hist['block smaller than the overlap: skipped'] += 1
                continue
            except Exception as ex:
                run.fail(sub, f'fusion raised {type(ex).__name__}: {ex}', signature=dict(kind='raises'))
                continue
            run.evaluations += 1
            run.hist[f'proc={res.proc_crs}'] += 1
            run.hist[f"model={case['model']}"] += 1
            run.hist['blocks>1' if hv else 'blocks=1'] += 1
            run.nontrivial.add((str(case['src']), case['pattern'], tuple(case['kernel']), res.proc_crs, hv))
            cm = res.corr_mask
            masks.append(cm)
            if (cm & ~sv).any():
                run.fail(sub, 'partially masked result is not a subset of the source mask', signature=dict(kind='not-subset'))
                continue
            if sv.any() and np.array_equal(cm, sv):
                run.fail(sub, 'mask_partial removed nothing: the corrected mask equals the source mask',
                         signature=dict(kind='not-strict', proc=res.proc_crs))
                continue
            tie_free = np.ones(cm.shape, bool) if not proc_ref else ~resamp.centre_tie_mask(ref, src)
            if whole is not None and not np.array_equal(cm[tie_free], whole[tie_free]) and not (hv and tie_geometry(src, ref)):
                d = np.argwhere((cm != whole) & tie_free)
                run.disagree(sub, pm_line[:160], f'valid={bool(whole[tuple(d[0])])} at {d[0].tolist()}', f'valid={bool(cm[tuple(d[0])])}',
                             what=f'whole-image partial-mask model ({"reference" if proc_ref else "source"} grid) differs from the corrected mask at {len(d)} pixels')
            # source pixels whose centre sits exactly on a reference pixel edge "fall in" either neighbour: the definition does
            # not say which, GDAL's nearest picks one by float noise - such pixels are not compared with the definition
            decided = np.ones(cm.shape, bool) if not proc_ref else ~resamp.centre_tie_mask(ref, src)
            if not np.array_equal(cm[decided], expect[decided]):
                d = np.argwhere((cm != expect) & decided)
                rr, cc = d[0]
                run.fail(sub, f'corrected mask differs from the full-support definition at {len(d)} pixels, e.g. ({rr},{cc}): '
                         f'corrected valid={bool(cm[rr, cc])}, definition={bool(expect[rr, cc])} (valid in corrected {int(cm.sum())}, '
                         f'definition {int(expect.sum())}, source {int(sv.sum())})',
                         signature=dict(kind='mask-definition', proc=res.proc_crs, multi_block=bool(hv),
                                        tie_geometry=tie_geometry(src, ref), lost_only=bool(not (cm & ~expect).any())))
                continue
        if len(masks) == 2 and not np.array_equal(masks[0], masks[1]):
            run.fail(case, f'partial mask depends on the block partition (halvings {case["halvings"]})',
                     signature=dict(kind='partition-dependent', proc='ref' if proc_ref else 'src',
                                    tie_geometry=tie_geometry(src, ref)))
        run.sample(dict(case={k: case[k] for k in ('i', 'model', 'kernel', 'halvings', 'pattern', 'upsampling')},
                        proc_ref=proc_ref, kept=int(expect.sum()), source_valid=int(sv.sum())), 4)
    degenerate_leg(run, tmp)
    multiband_leg(run, tmp)


def multiband_leg(run, tmp):
    """
    Several bands whose validity patterns differ (numeric nodata, band-specific holes in source and reference): with
    mask_partial the mask of band k of a multi-band run is the mask of the single-band run on band k alone (which the main
    leg compares with the definition) - the partial mask is a per-band quantity.  Both processing grids, 1 and several blocks.
    """
    from homonim.errors import BlockSizeError
    n = 3 if run.quick() else 18
    for k in range(n):
        rng = run.rng(f'multiband{k}')
        want_ref = k % 3 != 2
        for _ in range(100):
            src, ref = rasters.pair_geometry(rng, 'dyadic', 'auto', max_src=30, margin=(1, 3), avoid_aligned_edges=True)
            if (src.px < ref.px) == want_ref and src.px != ref.px and src.w >= 12 and src.h >= 12:
                break
        else:
            continue
        if not want_ref:
            pass
        nb = 2 + k % 2
        s = np.array([[[rng.randint(20, 200) for _ in range(src.w)] for _ in range(src.h)] for _ in range(nb)], float)
        r = np.array([[[rng.randint(30, 150) for _ in range(ref.w)] for _ in range(ref.h)] for _ in range(nb)], float)
        # band-specific holes, written as a numeric nodata value
        for arr, g in ((s, src), (r, ref)):
            for b in range(nb):
                for _ in range(1 + b):
                    rr, cc = rng.randrange(1, g.h - 1), rng.randrange(1, g.w - 1)
                    arr[b, rr:rr + 1 + b % 2, cc:cc + 2] = -9999.0
        sp, rp = tmp / f'c17mb_s{k}.tif', tmp / f'c17mb_r{k}.tif'
        rasters.write_tif(sp, src, s, dtype='float32', nodata=-9999.0)
        rasters.write_tif(rp, ref, r, dtype='float32', nodata=-9999.0)
        model, kern = MODELS[k % 3], [(3, 3), (1, 3), (5, 3)][k % 3]
        proc_ref = src.px <= ref.px
        for hv in (0, 2):
            case = dict(i=900_000 + 10 * k + hv, op='multi-band partial mask', nb=nb, model=model, kernel=kern, halvings=hv,
                        src=src.to_dict(), ref=ref.to_dict(), proc='ref' if proc_ref else 'src')
            kw = dict(model=model, kernel_shape=kern, param=False, threads=1 + k % 2, model_config=dict(mask_partial=True))
            try:
                multi, hv2 = fusion.run_fuse_blocks(hv, src, ref, proc_ref, sp, rp, tmp / 'c17mb_multi.tif', **kw)
                ph, pw = fusion.proc_window_shape(src, ref, proc_ref)
                mbm = fusion.block_mem_for(hv2, ph, pw, src.px, ref.px, proc_ref)
                singles = [fusion.run_fuse(sp, rp, tmp / 'c17mb_single.tif', src_bands=(b + 1,), ref_bands=(b + 1,), force=True,
                                           max_block_mem=mbm, **kw) for b in range(nb)]
            except BlockSizeError:
                continue
            except Exception as ex:
                run.fail(case, f'fusion raised {type(ex).__name__}: {ex}', signature=dict(kind='raises'))
                continue
            run.evaluations += 1
            run.hist[f"multi-band partial masks: proc={'ref' if proc_ref else 'src'}"] += 1
            run.nontrivial.add(('multiband', k, hv))
            for b in range(nb):
                mm, sm = np.isfinite(multi.corr[b]), np.isfinite(singles[b].corr[0])
                if not np.array_equal(mm, sm):
                    d = np.argwhere(mm != sm)
                    run.fail(case, f'band {b + 1} of {nb}: the partial mask of the multi-band run differs from the single-band run on that '
                             f'band at {len(d)} pixels, e.g. {d[0].tolist()} (multi-band valid={bool(mm[tuple(d[0])])})',
                             signature=dict(kind='band-mask', band=b + 1))
                    break


def degenerate_leg(run, tmp):
    """
    Degenerate kernel windows (finding D16, from the counterexample `partial_mask_needs_total_fit` of Props/E2EPartial.lean):
    with the gain-offset model a window in which the source is constant has no least-squares solution, the pixel carries no
    parameters and partial masking erodes around it.  Whether such a window is constant can depend on where a block's input
    window cuts it, so the mask depends on the partition.  Same-grid pairs whose source is constant along rows with the row
    pattern 1 2 1 2 2 1 (period 6), kernel 3 x 1: one block vs several blocks.
    """
    from homonim.errors import BlockSizeError
    for k, (H, W, rows) in enumerate([(12, 6, [1, 2, 1, 2, 2, 1]), (18, 8, [5, 9, 5, 9, 9, 5]), (12, 7, [1, 2, 1, 2, 2, 1])]):
        g = rasters.Grid(8 * 1000 + 64 * k, 8 * 2000, 8, 8, W, H)
        s = np.array([[[float(rows[r % 6])] * W for r in range(H)]])
        r = np.full((1, H, W), 3.0)
        pair = fusion.write_pair(tmp, f'c17deg{k}', g, g, s, r, None, None)
        case = dict(i=900_000 + k, op='degenerate windows', shape=(H, W), rows=rows, model='gain-offset', kernel=(3, 1))
        masks = []
        for hv in (0, 1, 2):
            try:
                res = fusion.run_fuse(pair.src_path, pair.ref_path, tmp / 'c17deg_out.tif', model='gain-offset', kernel_shape=(3, 1),
                                      param=False, threads=1, max_block_mem=fusion.block_mem_for(hv, H, W, 8, 8, True),
                                      model_config=dict(mask_partial=True, r2_inpaint_thresh=None))
            except BlockSizeError:
                continue
            except Exception as ex:
                run.fail(dict(case, halvings=hv), f'fusion raised {type(ex).__name__}: {ex}', signature=dict(kind='raises'))
                continue
            run.evaluations += 1
            run.hist['degenerate-window cases'] += 1
            masks.append((hv, res.corr_mask))
        for hv, m in masks[1:]:
            if not np.array_equal(m, masks[0][1]):
                d = np.argwhere(m != masks[0][1])
                run.fail(dict(case, halvings=[masks[0][0], hv]),
                         f'partial mask depends on the block partition at {len(d)} pixels (e.g. {d[0].tolist()}) on a source with '
                         f'locally constant kernel windows (gain-offset model)',
                         signature=dict(kind='partition-dependent', proc='ref', degenerate_fit=True))
                break
