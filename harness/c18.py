"""
C18 - outputs sit on the right grid, in the right band order, and describe themselves.

Real fusions over geometry x storage orientation (source and/or reference stored south-up) x band selections x
processing-grid choices x output profiles:
  * corrected image: CRS, geo-transform and size of the north-up source, one band per matched source band in matched
    order, reference descriptions and wavelength tags of the *matched* reference bands;
  * parameter image on the processing grid, which under auto is the coarser image (model `procres`);
  * south-up storage of source and/or reference changes nothing (bit-identical to north-up storage);
  * FUSE_* tags record every effective setting (keys from the generated tables);
  * RasterCompare(corrected, reference) selects the same reference bands as the fusion did;
  * utils.combine_profiles against the model (`cprofile`) on generated profiles.
"""
import warnings

import numpy as np
import rasterio as rio

import common
import fusion
import gen_tables
import rasters


def gen_case(run, i):
    rng = run.rng(i)
    south = ['none', 'src', 'ref', 'both'][(i // 2) % 4]
    # south-up storage is only generated on dyadic geometry, where the flipped file's origin is exactly the same ground grid
    family = 'dyadic' if south != 'none' else rng.choice(['dyadic', 'decimal'])
    proc = ['auto', 'auto', 'ref', 'src'][i % 4]
    src, ref = rasters.pair_geometry(rng, family, 'auto', max_src=24, margin=(1, 3), avoid_aligned_edges=True)
    crs = 'metric'
    if i % 6 == 5:
        # geographic stratum: the same integer geometry in units of 2^-15 degree (EPSG:4326, pixels of 2^-13..2^-11 degree:
        # sizes that vanish when rounded to a few decimals), near 25 E 30 S; exact binary fractions
        crs, family = 'geographic', 'dyadic'
        src, ref = rasters.pair_geometry(rng, 'dyadic', 'auto', max_src=24, margin=(1, 3), avoid_aligned_edges=True)
        dx, dy = 25 * 2 ** 15 - ref.x0 + (ref.x0 % 64), -30 * 2 ** 15 - ref.ytop + (ref.ytop % 64)
        u = rasters.Fraction(1, 2 ** 15)
        src = rasters.Grid(src.x0 + dx, src.ytop + dy, src.px, src.py, src.w, src.h, u)
        ref = rasters.Grid(ref.x0 + dx, ref.ytop + dy, ref.px, ref.py, ref.w, ref.h, u)
        if i % 12 == 5 and src.px < ref.px:
            # make the source the coarser image (auto must then pick the source grid)
            ps, pr = ref.px, src.px
            sw, sh = max(5, src.w * src.px // ps), max(5, src.h * src.py // ps)
            rw = -(-(src.x0 + sw * ps - ref.x0) // pr) + 2
            rh = -(-(ref.ytop - (src.ytop - sh * ps)) // pr) + 2
            src, ref = rasters.Grid(src.x0, src.ytop, ps, ps, sw, sh, u), rasters.Grid(ref.x0, ref.ytop, pr, pr, rw, rh, u)
    nsb, nrb = rng.choice([(1, 1), (2, 3), (3, 3), (3, 4)])
    if i % 8 == 6:
        nsb, nrb = rng.choice([(4, 4), (4, 5), (3, 3)])   # byte outputs with 3 / 4 bands: layouts GDAL may take for RGB(A)
    sel = ['default', 'ref-order', 'subset', 'forced'][(i // 4) % 4] if nsb > 1 else 'default'
    # creation options left out, explicitly empty, or explicitly None: all three mean the documented defaults
    extra = [{}, dict(creation_options={}), dict(creation_options=None), {}][(i // 8) % 4] if i % 8 == 6 else \
        [{}, {}, dict(creation_options={})][(i // 3) % 3]
    return dict(profile_extra=extra, i=i, family=family, crs=crs, proc=proc, src=src.to_dict(), ref=ref.to_dict(), nsb=nsb, nrb=nrb, sel=sel,
                south=south, model=rng.choice(['gain', 'gain-blk-offset', 'gain-offset']),
                kernel=rng.choice([(3, 3), (3, 5), (5, 3)]), halvings=rng.choice([0, 2]),
                dtype='uint8' if i % 8 == 6 else rng.choice(['float32', 'int16']),
                threads=rng.choice([1, 2]))


def run(run: common.Run):
    from homonim import RasterFuse, RasterCompare, utils
    from homonim.enums import ProcCrs
    from homonim.errors import BlockSizeError
    gen_tables.write()
    import importlib
    n = 24 if run.quick() else 400
    run.rule = ('real fusions over dyadic/decimal geometry, processing grid auto/ref/src, 1-3 source and up to 4 reference bands with '
                'wavelength tags (reference band order shuffled / leading unmatched band / user subsets), south-up storage of '
                'source/reference/both, two output dtypes; non-trivial = south-up storage or a non-identity band matching; distinct '
                'by the case')
    tmp = run.tmpdir()
    plines, pimpl, pcases = [], [], []
    for i in run.indices(n):
        case = gen_case(run, i)
        rng = run.rng(f'{i}-data')
        src, ref = rasters.Grid.from_dict(case['src']), rasters.Grid.from_dict(case['ref'])
        nsb, nrb = case['nsb'], case['nrb']
        s = np.array([[[rng.randint(20, 200) for _ in range(src.w)] for _ in range(src.h)] for _ in range(nsb)], float)
        r = np.array([[[rng.randint(30, 150) for _ in range(ref.w)] for _ in range(ref.h)] for _ in range(nrb)], float)
        sv = np.ones((src.h, src.w), bool)
        sv[0, :] = False
        # wavelengths: source bands 0.45 + 0.1 k; reference bands hold the same wavelengths in a shuffled order (+ extras)
        swl = [0.45 + 0.1 * k for k in range(nsb)]
        order = list(range(nrb))
        if case['sel'] != 'default' or rng.random() < 0.5:
            rng.shuffle(order)
        rwl = [None] * nrb
        for pos, k in enumerate(order):
            rwl[pos] = (0.45 + 0.1 * k) * (1 + rng.choice([0, 0.01, -0.02])) if k < nsb else 2.0 + 0.3 * k
        sb = rb = None
        if case['sel'] == 'subset' and nsb > 1:
            kk = rng.randint(1, nsb - 1)
            sb = sorted(rng.sample(range(1, nsb + 1), kk))
        thr = [0.25, 1 / 3, None, 0.123456789, 0.7][i % 5]     # in-paint threshold: round, and with more digits than a short format keeps
        force = False
        if case['sel'] == 'forced' and nsb > 1:
            # the user pairs the bands by hand, against the wavelengths, and forces it: the outputs describe THAT pairing
            sb, force = list(range(1, nsb + 1)), True
            rb = rng.sample(range(1, nrb + 1), nsb)
            if rb == [order.index(k - 1) + 1 for k in sb]:
                rb = rb[1:] + rb[:1]
        stags = [{'center_wavelength': f'{w:.4f}'} for w in swl]
        rtags = [{'center_wavelength': f'{w:.4f}', 'name': f'REFB{p + 1}', 'scale': '0.0001'} for p, w in enumerate(rwl)]
        rdesc = [f'RD{p + 1}' for p in range(nrb)]
        outs = {}
        try:
            for variant in (['north'] + ([case['south']] if case['south'] != 'none' else [])):
                d = tmp / f'c18_{i}_{variant}'
                d.mkdir()
                the_crs = rasters.CRS3857 if case['crs'] == 'metric' else rasters.CRS4326
                pair = fusion.write_pair(d, 'in', src, ref, s, r, sv, None,
                                         src_kw=dict(band_tags=stags, south_up=variant in ('src', 'both'), crs=the_crs),
                                         ref_kw=dict(band_tags=rtags, descriptions=rdesc, south_up=variant in ('ref', 'both'),
                                                     crs=the_crs))
                proc_ref = (case['proc'] == 'ref') or (case['proc'] == 'auto' and src.px <= ref.px)
                res, hv = fusion.run_fuse_blocks(case['halvings'], src, ref, proc_ref, pair.src_path, pair.ref_path, d / 'out.tif',
                                                 model=case['model'], kernel_shape=case['kernel'], proc_crs=case['proc'], param=True,
                                                 threads=case['threads'], src_bands=sb, ref_bands=rb, force=force,
                                                 model_config=dict(r2_inpaint_thresh=thr),
                                                 out_profile=dict(dtype=case['dtype'], nodata={'float32': float('nan'), 'int16': -9999, 'uint8': 0}[case['dtype']],
                                                                  **case.get('profile_extra', {})))
                outs[variant] = (res, pair)
        except BlockSizeError:
            run.hist['processing window smaller than the overlap: skipped'] += 1
            continue
        except Exception as ex:
            run.fail(case, f'fusion raised {type(ex).__name__}: {ex}', signature=dict(kind='raises'))
            continue
        run.evaluations += 1
        res, pair = outs['north']
        run.hist[f"proc requested={case['proc']} used={res.proc_crs}"] += 1
        run.hist[f"south-up={case['south']}"] += 1
        run.hist[f"crs={case['crs']}"] += 1
        matched_r = list(res.ref_bands)
        if case['south'] != 'none' or matched_r != list(range(1, len(matched_r) + 1)):
            run.nontrivial.add((str(case['src']), case['south'], tuple(matched_r), case['proc']))
        bad = None
        prof = res.profile
        tr = tuple(prof['transform'])[:6]
        etr = tuple(src.transform)[:6]
        if (prof['width'], prof['height']) != (src.w, src.h) or any(abs(a - b) > 1e-9 for a, b in zip(tr, etr)) or prof['crs'] != the_crs:
            bad = f'corrected image grid {prof["width"]}x{prof["height"]} {tr} is not the north-up source grid {src.w}x{src.h} {etr}'
        elif 'alpha' in res.colorinterp:
            bad = f'corrected band {res.colorinterp.index("alpha") + 1} is flagged as an alpha band (colour interpretation {res.colorinterp})'
        elif prof['count'] != len(res.src_bands):
            bad = f'corrected image has {prof["count"]} bands for {len(res.src_bands)} matched source bands'
        # expected matching: source band k <-> reference position holding wavelength ~ k
        exp_src = sb or list(range(1, nsb + 1))
        exp_ref = [order.index(k - 1) + 1 for k in exp_src]
        if force:
            exp_ref = list(rb)
            run.hist['forced band pairing against the wavelengths'] += 1
        if not bad and (list(res.src_bands) != exp_src or matched_r != exp_ref):
            bad = f'matched bands {list(res.src_bands)}->{matched_r}, wavelengths imply {exp_src}->{exp_ref}'
        if not bad:
            for b, rbi in enumerate(matched_r):
                bt = res.band_tags[b]
                if bt.get('center_wavelength') != rtags[rbi - 1]['center_wavelength'] or bt.get('name') != rtags[rbi - 1]['name']:
                    bad = (f'corrected band {b + 1} carries tags {bt}, the matched reference band {rbi} has '
                           f'{rtags[rbi - 1]}')
                    break
                if res.descriptions[b] != rdesc[rbi - 1]:
                    bad = f'corrected band {b + 1} description {res.descriptions[b]}, matched reference band has {rdesc[rbi - 1]}'
                    break
        # the processing grid is the requested one, and under `auto` the coarser image (the reference when equal)
        if not bad:
            want = case['proc'] if case['proc'] != 'auto' else ('ref' if src.px * src.py <= ref.px * ref.py else 'src')
            if res.proc_crs != want:
                bad = (f'processing grid resolved to {res.proc_crs} for proc_crs={case["proc"]} with source pixels of {float(src.px * src.unit)} '
                       f'and reference pixels of {float(ref.px * ref.unit)} {"degree" if case["crs"] == "geographic" else "m"}')
        # parameter image grid = processing grid
        if not bad:
            pg = ref if res.proc_crs == 'ref' else src
            pp = res.param_profile
            if (pp['width'], pp['height']) != (pg.w, pg.h) or any(abs(a - b) > 1e-9 for a, b in zip(tuple(pp['transform'])[:6], tuple(pg.transform)[:6])):
                bad = f'parameter image grid {pp["width"]}x{pp["height"]} is not the {res.proc_crs} grid {pg.w}x{pg.h}'
            elif pp['count'] != 3 * len(res.src_bands) or pp['dtype'] != 'float32':
                bad = f'parameter image has {pp["count"]} bands of {pp["dtype"]}'
        # tags record every effective setting
        if not bad:
            from importlib import import_module
            need = {'FUSE_SRC_FILE', 'FUSE_REF_FILE', 'FUSE_PROC_CRS', 'FUSE_MODEL', 'FUSE_KERNEL_SHAPE'}
            from homonim import RasterFuse as RF
            need |= {'FUSE_' + k.upper() for k in list(RF.create_model_config()) + list(RF.create_block_config())}
            missing = need - set(res.tags)
            if missing:
                bad = f'corrected image tags lack {sorted(missing)}'
            elif res.tags['FUSE_PROC_CRS'] != res.proc_crs or res.tags['FUSE_MODEL'] != case['model'].replace('-', '_') or \
                    res.tags['FUSE_KERNEL_SHAPE'] != str(tuple(case['kernel'])) or res.tags['FUSE_THREADS'] != str(case['threads']):
                bad = f'tags do not record the effective settings: {res.tags}'
            else:
                # numeric settings are recorded exactly (a block memory like 0.0007324 MB, a threshold like 1/3): the text parses back
                # to the very number that was used, in both outputs
                for tg in (res.tags, res.param_tags):
                    try:
                        ok = float(tg['FUSE_MAX_BLOCK_MEM']) == float(res.max_block_mem) and \
                            (tg['FUSE_R2_INPAINT_THRESH'] == 'None' if thr is None else float(tg['FUSE_R2_INPAINT_THRESH']) == float(thr))
                    except (KeyError, ValueError):
                        ok = False
                    if not ok:
                        bad = (f"tags do not record the numeric settings exactly: FUSE_MAX_BLOCK_MEM={tg.get('FUSE_MAX_BLOCK_MEM')!r} for "
                               f"{res.max_block_mem!r}, FUSE_R2_INPAINT_THRESH={tg.get('FUSE_R2_INPAINT_THRESH')!r} for {thr!r}")
                        break
        # south-up storage changes nothing
        if not bad and case['south'] != 'none':
            res2 = outs[case['south']][0]
            for nm, a, b in (('corrected pixels', res.corr, res2.corr), ('corrected masks', res.corr_masks, res2.corr_masks),
                             ('parameter pixels', res.param, res2.param), ('parameter masks', res.param_masks, res2.param_masks)):
                if case['family'] == 'dyadic':
                    same = fusion.bytes_equal(a, b)
                else:
                    # decimal geometry: the south-up file's origin (bottom + h*py in floats) is an ulp off the north-up one,
                    # so the VRT interpolates at 1e-9 px offsets: compare to 1e-5 relative instead of bit for bit
                    fa, fb = np.isfinite(a.astype('float64')), np.isfinite(b.astype('float64'))
                    same = a.shape == b.shape and np.array_equal(fa, fb) and \
                        (not fa.any() or np.max(np.abs(a[fa].astype('float64') - b[fb].astype('float64')) /
                                                np.maximum(np.abs(a[fa].astype('float64')), 1.0)) < 1e-5)
                if not same:
                    bad = f'storing {case["south"]} south-up changes the {nm}'
                    break
            if not bad and any(abs(x - y) > 1e-6 for x, y in zip(tuple(res2.profile['transform'])[:6], tuple(res.profile['transform'])[:6])):
                bad = f'storing {case["south"]} south-up changes the corrected image geo-transform'
            # ... nor in what the outputs say about themselves: the same tags (the input files have the same names in both variants)
            if not bad:
                pair2 = outs[case['south']][1]
                for which, t1, t2 in (('corrected', res.tags, res2.tags), ('parameter', res.param_tags, res2.param_tags)):
                    if t2.get('FUSE_SRC_FILE') != pair2.src_path.name or t2.get('FUSE_REF_FILE') != pair2.ref_path.name:
                        bad = (f"storing {case['south']} south-up: the {which} image records source / reference file "
                               f"{t2.get('FUSE_SRC_FILE')!r} / {t2.get('FUSE_REF_FILE')!r}, the files are {pair2.src_path.name!r} / {pair2.ref_path.name!r}")
                        break
                    d_ = {k_ for k_ in set(t1) | set(t2) if t1.get(k_) != t2.get(k_)}
                    if d_:
                        bad = f"storing {case['south']} south-up changes the {which} image's tags {sorted(d_)}"
                        break
        # compare(corrected, reference) selects the same reference bands
        if not bad:
            try:
                with warnings.catch_warnings():
                    warnings.simplefilter('ignore')
                    cmp = RasterCompare(res.corr_path, pair.ref_path)
                if list(cmp.ref_bands) != matched_r:
                    bad = f'RasterCompare(corrected, reference) matched reference bands {list(cmp.ref_bands)}, the fusion used {matched_r}'
            except Exception as ex:
                bad = f'RasterCompare(corrected, reference) raised {type(ex).__name__}: {ex}'
        if bad:
            run.fail(case, bad, signature=dict(kind='output-description'))
            continue
        # model leg: processing grid resolution
        plines.append(f"procres {src.px * src.py} {ref.px * ref.py} {case['proc']}")
        pimpl.append(res.proc_crs)
        pcases.append(case)
        run.sample(dict(case={k: case[k] for k in ('i', 'proc', 'south', 'sel', 'nsb', 'nrb', 'model')}, matched=[list(res.src_bands), matched_r],
                        proc_used=res.proc_crs), 4)
    run.compare_lines(pcases, plines, pimpl)
    profiles(run)
    cli_several_sources(run)
    cross_crs_auto(run)


def cli_several_sources(run):
    """
    One `homonim fuse` call with several sources on different sides of the reference resolution (a finer and a coarser source,
    either order, processing grid left at auto / forced): each source's parameter image sits on the grid that is right *for that
    source* - the coarser of its own pair for auto - on the geometry of that image, and the FUSE_PROC_CRS tags and the file names
    say so.
    """
    import warnings
    from click.testing import CliRunner
    from homonim import cli
    tmp = run.tmpdir()
    u = 8
    ref = rasters.Grid(u * 5000, u * 9000, 4 * u, 4 * u, 16, 16)
    fine = rasters.Grid(ref.x0 + 8 * u, ref.ytop - 8 * u, 2 * u, 2 * u, 20, 20)
    coarse = rasters.Grid(ref.x0 + 8 * u, ref.ytop - 8 * u, 8 * u, 8 * u, 5, 5)
    rng = run.rng('cli-several')
    mk = lambda g: np.array([[[rng.randint(20, 200) for _ in range(g.w)] for _ in range(g.h)]], float)
    for k, (order, pc) in enumerate(((('fine', 'coarse'), None), (('coarse', 'fine'), None), (('fine', 'coarse'), 'ref'),
                                     (('coarse', 'fine'), 'src'))):
        d = tmp / f'c18_cli{k}'
        d.mkdir()
        rasters.write_tif(d / 'ref.tif', ref, mk(ref), dtype='float32', nodata=float('nan'))
        grids = dict(fine=fine, coarse=coarse)
        for nm, g in grids.items():
            rasters.write_tif(d / f'{nm}.tif', g, mk(g), dtype='float32', nodata=float('nan'))
        args = ['fuse'] + [str(d / f'{nm}.tif') for nm in order] + [str(d / 'ref.tif'), '-m', 'gain', '-k', '1', '1', '-pi', '-nbo', '-t', '1'] + \
            (['-pc', pc] if pc else [])
        with warnings.catch_warnings():
            warnings.simplefilter('ignore')
            res = CliRunner().invoke(cli.cli, args)
        case = dict(i=6_000_000 + k, op='cli, several sources', order=order, proc_crs=pc or 'auto')
        run.evaluations += 1
        run.hist['cli calls with a finer and a coarser source'] += 1
        run.nontrivial.add(('cli-several', k))
        if res.exit_code != 0:
            run.fail(case, f'exit code {res.exit_code}: {str(res.exception)[:100]}', signature=dict(kind='raises'))
            continue
        for nm, g in grids.items():
            want = pc or ('ref' if g.px <= ref.px else 'src')
            pg = ref if want == 'ref' else g
            pfiles = sorted(d.glob(f'{nm}_FUSE_*_PARAM.tif'))
            if len(pfiles) != 1:
                run.fail(case, f'{len(pfiles)} parameter images for source {nm}', signature=dict(kind='cli-several'))
                break
            with rio.open(pfiles[0]) as ds:
                tag = ds.tags().get('FUSE_PROC_CRS')
                res_px = (abs(ds.transform.a), abs(ds.transform.e))
            exp_px = (pg.px * float(pg.unit), pg.py * float(pg.unit))
            in_name = f'_c{want.upper()}_' in pfiles[0].name
            if res_px != exp_px or tag != want or not in_name:
                run.fail(case, f'source {nm} ({g.px * float(g.unit)} m, reference {ref.px * float(ref.unit)} m, --proc-crs {pc or "auto"}): '
                         f'parameter image has {res_px[0]} m pixels, tag FUSE_PROC_CRS={tag}, file {pfiles[0].name}; expected the '
                         f'{want} grid ({exp_px[0]} m)', signature=dict(kind='cli-several'))
                break


def cross_crs_auto(run):
    """
    Source and reference in coordinate systems with different units (UTM metres against geographic degrees): under `auto` the
    processing grid is still the coarser image *on the ground* - a 10 m source under a 0.001 degree (~100 m) reference is processed
    on the reference grid, a 100 m source over a 0.0001 degree (~10 m) reference on the source grid; the corrected image keeps the
    source's CRS, transform and size, and the tags say which grid was used.
    """
    import warnings
    from rasterio.crs import CRS
    from rasterio.transform import Affine
    from rasterio.warp import transform_bounds
    from homonim import RasterFuse
    from homonim.enums import Model
    tmp = run.tmpdir()
    utm, geo = CRS.from_epsg(32735), CRS.from_epsg(4326)
    rng = run.rng('cross-crs-auto')
    # (the fourth pair: the source stored south-up as well - it is flipped in its own CRS, the result stays on the north-up source grid)
    for k, (sres, rres_deg, want, south) in enumerate(((10.0, 0.001, 'ref', False), (100.0, 0.0001, 'src', False), (30.0, 0.001, 'ref', False),
                                                       (10.0, 0.001, 'ref', True))):
        sw = sh = 40 if want == 'ref' else 12
        sx0, sy0 = 500_000.0 + 40 * k, 6_500_000.0
        st = Affine(sres, 0, sx0, 0, -sres, sy0)
        l, b, r_, t = transform_bounds(utm, geo, sx0, sy0 - sh * sres, sx0 + sw * sres, sy0, densify_pts=21)
        m = 6 * rres_deg
        rx0, ry0 = l - m, t + m
        rw, rh = int(np.ceil((r_ + m - rx0) / rres_deg)) + 1, int(np.ceil((ry0 - (b - m)) / rres_deg)) + 1
        rt = Affine(rres_deg, 0, rx0, 0, -rres_deg, ry0)
        sp, rp = tmp / f'c18x_s{k}.tif', tmp / f'c18x_r{k}.tif'
        st_file = Affine(sres, 0, sx0, 0, sres, sy0 - sh * sres) if south else st
        for p_, tr, w_, h_, crs in ((sp, st_file, sw, sh, utm), (rp, rt, rw, rh, geo)):
            with rio.open(p_, 'w', driver='GTiff', width=w_, height=h_, count=1, dtype='float32', crs=crs, transform=tr, nodata=float('nan')) as ds:
                ds.write(np.array([[[rng.randint(20, 200) for _ in range(w_)] for _ in range(h_)]], dtype='float32'))
        case = dict(i=6_100_000 + k, op='auto grid across CRSs', src_res_m=sres, ref_res_deg=rres_deg, expected=want, source_south_up=south)
        try:
            with warnings.catch_warnings():
                warnings.simplefilter('ignore')
                with RasterFuse(sp, rp) as rf:
                    got = rf.proc_crs.name
                    rf.process(tmp / f'c18x_o{k}.tif', Model.gain, (1, 1), param_filename=tmp / f'c18x_o{k}_PARAM.tif', overwrite=True,
                               block_config=dict(threads=1))
        except Exception as ex:
            run.fail(case, f'raised {type(ex).__name__}: {ex}', signature=dict(kind='raises'))
            continue
        run.evaluations += 1
        run.hist['auto grid across CRSs'] += 1
        run.nontrivial.add(('cross-crs-auto', k))
        with rio.open(tmp / f'c18x_o{k}.tif') as ds, rio.open(tmp / f'c18x_o{k}_PARAM.tif') as pds:
            tag, ptag = ds.tags().get('FUSE_PROC_CRS'), pds.tags().get('FUSE_PROC_CRS')
            same_grid = ds.crs == utm and ds.transform == st and (ds.height, ds.width) == (sh, sw)
            pres = abs(pds.transform.a)
            pcrs = pds.crs
        # ground size of a parameter pixel in metres (degrees of longitude at 31.6 S: ~ 94.8 km)
        pres_m = pres if pcrs == utm else pres * 94_800.0
        coarser = pres_m > 0.9 * max(sres, rres_deg * 94_800.0)
        if got != want or tag != want or ptag != want or not coarser:
            run.fail(case, f'{sres} m source, {rres_deg} deg (~{rres_deg * 94800:.0f} m) reference: auto resolved to {got} (tags {tag} / {ptag}), expected '
                     f'{want}; parameter pixel ~{pres_m:.1f} m', signature=dict(kind='cross-crs-auto'))
        elif not same_grid:
            run.fail(case, f'{sres} m source (UTM 35S), {rres_deg} deg reference (geographic), processing grid {got}: the corrected image does not '
                     f'have the coordinate system, geo-transform and size of the source', signature=dict(kind='cross-crs-corrected-grid', proc=got))


def profiles(run):
    """utils.combine_profiles vs the model on generated profiles"""
    from homonim import utils
    lines, impls, cases = [], [], []
    for k in range(40 if run.quick() else 400):
        rng = run.rng(f'prof{k}')
        in_drv = rng.choice(['GTiff', 'PNG', 'gtiff'])
        cfg_drv = rng.choice(['GTiff', 'PNG', 'GTIFF', 'HFA'])
        inp = dict(driver=in_drv, width=str(rng.randint(1, 9)), height=str(rng.randint(1, 9)), count='3', dtype='uint8',
                   crs='EPSG:3857', transform='T', nodata=rng.choice(['0', 'nan']))
        for kk in rng.sample(['compress', 'tiled', 'blockxsize', 'interleave', 'photometric'], rng.randint(0, 4)):
            inp[kk] = rng.choice(['a', 'b'])
        co = {kk: rng.choice(['x', 'y']) for kk in rng.sample(['compress', 'tiled', 'quality', 'zlevel'], rng.randint(0, 3))}
        cfg = dict(driver=cfg_drv, dtype=rng.choice(['float32', 'int16']), nodata=rng.choice(['nan', '-9999']), creation_options=co)
        out = utils.combine_profiles(dict(inp), cfg)
        flat = [('driver', cfg_drv), ('dtype', cfg['dtype']), ('nodata', cfg['nodata'])] + list(co.items())
        lines.append(f'cprofile {cfg_drv} I ' + ' '.join(f'{a}={b}' for a, b in inp.items()) + ' C ' + ' '.join(f'{a}={b}' for a, b in flat))
        impls.append(' '.join(sorted(f'{a}={b}' for a, b in out.items())))
        cases.append(dict(i=10**6 + k, op='combine_profiles', inp=inp, cfg=cfg))
        run.evaluations += 1
    run.compare_lines(cases, lines, impls)
