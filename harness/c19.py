"""
C19 - the command line is a faithful front end to the API.

For generated option combinations (model x non-square kernel x bands x threads x block memory x resampling x masking x
in-paint threshold x dtype/nodata/creation options x proc grid; each option given by flag, by configuration file, by
both with different values - incl. falsy flag values - or left at its default) `homonim fuse` is run through click's
CliRunner and compared with the API call made with the *effective* settings, which are computed by the Lean model's
merge (`merge` op: command line > file > default): corrected and parameter images pixel-, mask-, description- and
tag-identical; output names from the model's `postfix`; unknown configuration keys rejected by both.  The key tables the
merge theorems quantify over are regenerated from the live code (gen_tables) before the proof leg.
"""
import json
import pathlib
import warnings

import numpy as np
import rasterio as rio
import yaml

import common
import fusion
import gen_tables
import rasters
import c04

# option -> (flag builder, candidate values, default); values as they appear in the API
OPTS = {
    'model': (lambda v: ['-m', v], ['gain', 'gain-blk-offset', 'gain-offset'], 'gain-blk-offset'),
    'kernel_shape': (lambda v: ['-k', str(v[0]), str(v[1])], [(3, 5), (5, 3), (1, 3), (7, 5), (3, 3)], (5, 5)),
    'param_image': (lambda v: ['-pi' if v else '-npi'], [True, False], False),
    'mask_partial': (lambda v: ['-mp' if v else '-nmp'], [True, False], False),
    'threads': (lambda v: ['-t', str(v)], [1, 2, 3], None),
    'max_block_mem': (lambda v: ['-mbm', repr(v)], [100.0, 0.002, 0.0005, 0.0], 100.0),
    'downsampling': (lambda v: ['-ds', v], ['average', 'bilinear', 'cubic'], 'average'),
    'upsampling': (lambda v: ['-us', v], ['cubic_spline', 'bilinear', 'nearest', 'cubic'], 'cubic_spline'),
    'r2_inpaint_thresh': (lambda v: ['-rit', repr(v)], [0.0, 0.25, 0.5, 0.9], 0.25),
    'proc_crs': (lambda v: ['-pc', v], ['auto', 'ref', 'src'], 'auto'),
    'dtype': (lambda v: ['--dtype', v], ['float32', 'int16', 'uint16', 'float64'], 'float32'),
    'nodata': (lambda v: ['--nodata', 'null' if v is None else repr(v)], [0.0, -9999.0, None, 1.0, 0.1], float('nan')),
    'build_ovw': (lambda v: ['-bo' if v else '-nbo'], [False], True),
    'overwrite': (lambda v: ['-o'] if v else [], [True], False),
    'creation_options': (lambda v: sum([['-co', f'{k}={val}'] for k, val in v.items()], []),
                         [dict(compress='lzw'), dict(compress='deflate', tiled=True, blockxsize=16, blockysize=16)], None),
}


def tokv(v):
    return '~' if v is None else json.dumps(v, sort_keys=True).replace(' ', '').replace('=', ':').replace('@', '_')


def gen_case(run, i):
    rng = run.rng(i)
    choice = {}
    for k, (_, vals, default) in OPTS.items():
        how = rng.choice(['default', 'default', 'flag', 'conf', 'both'])
        if k in ('build_ovw',):
            how = rng.choice(['flag', 'conf'])          # always switch overviews off (speed); they are not compared
        if k == 'overwrite':
            how = 'flag'
        if k == 'param_image':
            how = rng.choice(['flag', 'conf', 'both'])
        vf = rng.choice(vals)
        vc = rng.choice([v for v in vals if v != vf] or vals)
        if k == 'param_image' and how != 'both':
            vf = vc = True
        choice[k] = dict(how=how, flag=vf if how in ('flag', 'both') else None, conf=vc if how in ('conf', 'both') else None)
    if i % 8 == 5:
        # a nodata value that only a 64-bit output can hold (no float32 number), given on the command line
        choice['dtype'] = dict(how='flag', flag='float64', conf=None)
        choice['nodata'] = dict(how=rng.choice(['flag', 'both']), flag=rng.choice([0.1, -9999.9, 1e-300]), conf=None)
        if choice['nodata']['how'] == 'both':
            choice['nodata']['conf'] = 0.3
    if i % 5 == 1:
        # the kernel shape from the configuration file only: it reaches the command as a yaml list, not as click's tuple
        choice['kernel_shape'] = dict(how='conf', flag=None, conf=rng.choice([(3, 5), (5, 3), (7, 5)]))
    if i % 8 == 3:
        # an explicit null on the command line against a number in the file: the command line wins (finding D60, repaired)
        choice['nodata'] = dict(how='both', flag=None, conf=rng.choice([0.0, -9999.0]))
    nb = rng.choice([1, 2, 3])
    bands = None
    if nb > 1 and rng.random() < 0.4:
        k = rng.randint(1, nb)
        bands = (rng.sample(range(1, nb + 1), k), rng.sample(range(1, nb + 1), k))
    unknown = rng.random() < 0.1
    if i % 12 == 7:
        # the command-line spelling of a real option, with a value that is not the default: not a key of the file
        unknown = rng.choice(['kernel-shape=[5,3]', 'max-block-mem=0.001', 'r2-inpaint-thresh=0.5', 'proc-crs="src"', 'param-image=true'])
    return dict(i=i, choice=choice, nb=nb, bands=bands, unknown_key=unknown)


def effective(case, model_reply):
    """effective settings from the model's merged reply"""
    eff = {}
    for t in model_reply.split():
        k, rest = t.split('=', 1)
        v, src = rest.rsplit('@', 1)
        eff[k] = (None if v == '~' else json.loads(v.replace(':', ':')), src)
    return eff


def run(run: common.Run):
    from click.testing import CliRunner
    from homonim import cli, RasterFuse, utils
    from homonim.enums import Model, ProcCrs
    gen_tables.write()
    n = 24 if run.quick() else 400
    run.rule = ('option combinations for `homonim fuse` where every option is independently left default / given by flag / given in '
                'the configuration file / given in both with different values (falsy flag values included), 1-3 bands with optional '
                'band selections, unknown configuration keys; non-trivial = at least one option given in both places or only in the '
                'file; distinct by the full option assignment')
    tmp = run.tmpdir()
    rng0 = run.rng('pair')
    prepared, lines = [], []
    for i in run.indices(n):
        case = gen_case(run, i)
        ch = case['choice']
        # the parsed parameters as click sees them (value + source) and the file content
        ptoks, ctoks, conf = [], [], {}
        for k, (_, vals, default) in OPTS.items():
            c = ch[k]
            if c['how'] in ('flag', 'both'):
                ptoks.append(f"{k}={tokv(c['flag'])}@c")
            else:
                dv = default
                if k == 'threads':
                    dv = 0
                if k == 'creation_options':
                    dv = {}
                if k == 'nodata':
                    dv = 'nan'
                ptoks.append(f'{k}={tokv(dv)}@d')
            if c['how'] in ('conf', 'both'):
                ctoks.append(f"{k}={tokv(c['conf'])}")
                conf[k] = list(c['conf']) if isinstance(c['conf'], tuple) else c['conf']
        if case['unknown_key'] is True:
            ctoks.append('kernal_shape=[3,3]')
            conf['kernal_shape'] = [3, 3]
        elif case['unknown_key']:
            ctoks.append(case['unknown_key'])
            uk, uv = case['unknown_key'].split('=', 1)
            conf[uk] = json.loads(uv)
        lines.append('merge P ' + ' '.join(ptoks) + ' C ' + ' '.join(ctoks))
        prepared.append((case, conf))
    replies = common.model_batch(lines)
    if replies is None:
        run.model_available = False
        return
    post_lines, post_meta = [], []
    for (case, conf), line, rep in zip(prepared, lines, replies):
        ch = case['choice']
        rng = run.rng(f"{case['i']}-data")
        src, ref = rasters.pair_geometry(rng, 'dyadic', 'auto', max_src=22, margin=(1, 2))
        while src.w < 10 or src.h < 10:
            src, ref = rasters.pair_geometry(rng, 'dyadic', 'auto', max_src=22, margin=(1, 2))
        nb = case['nb']
        s = np.array([[[rng.randint(20, 200) for _ in range(src.w)] for _ in range(src.h)] for _ in range(nb)], float)
        r = np.array([[[rng.randint(30, 150) for _ in range(ref.w)] for _ in range(ref.h)] for _ in range(nb)], float)
        sv = np.ones((src.h, src.w), bool)
        sv[:, 0] = False
        d = tmp / f"c19_{case['i']}"
        (d / 'cli').mkdir(parents=True)
        (d / 'api').mkdir()
        pair = fusion.write_pair(d, 'in', src, ref, s, r, sv, None)
        args = ['fuse', str(pair.src_path), str(pair.ref_path), '-od', str(d / 'cli')]
        for k, (flag, _, _) in OPTS.items():
            if ch[k]['how'] in ('flag', 'both'):
                args += flag(ch[k]['flag'])
        if case['bands']:
            for b in case['bands'][0]:
                args += ['-sb', str(b)]
            for b in case['bands'][1]:
                args += ['-rb', str(b)]
            args += ['-f']
        if conf:
            cf = d / 'conf.yaml'
            cf.write_text(yaml.safe_dump(conf))
            args += ['-c', str(cf)]
        with warnings.catch_warnings():
            warnings.simplefilter('ignore')
            res = CliRunner().invoke(cli.cli, args)
        run.evaluations += 1
        run.lines_compared += 1
        hows = [ch[k]['how'] for k in OPTS]
        run.hist[f"options in file only={hows.count('conf')} both={hows.count('both')}"[:40]] += 1
        if 'both' in hows or 'conf' in hows:
            run.nontrivial.add(line)
        if rep == 'reject':
            if res.exit_code == 0:
                run.fail(case, 'an unknown configuration key was silently accepted by the command line', signature=dict(kind='unknown-key'))
            run.hist['unknown key rejected'] += 1
            continue
        eff = effective(case, rep)
        if res.exit_code != 0:
            from homonim.errors import BlockSizeError
            if isinstance(res.exception, SystemExit) or res.exit_code == 1:
                # find out whether the API refuses the same settings (e.g. block smaller than the overlap)
                api_err = run_api(case, eff, pair, d, src, ref)
                if isinstance(api_err, BaseException):
                    run.hist['refused by both CLI and API'] += 1
                    continue
            run.fail(case, f'CLI exited {res.exit_code} ({str(res.exception)[:100]}) for settings the API accepts: {args[3:]}',
                     signature=dict(kind='cli-error'))
            continue
        api = run_api(case, eff, pair, d, src, ref)
        if isinstance(api, BaseException):
            run.fail(case, f'the API call with the effective settings raised {type(api).__name__}: {api} although the CLI succeeded',
                     signature=dict(kind='api-error'))
            continue
        api_corr, api_param, proc_name = api
        outs = sorted((d / 'cli').glob('*.tif'))
        corr = [p for p in outs if 'PARAM' not in p.name]
        par = [p for p in outs if 'PARAM' in p.name]
        model_v, ks = eff['model'][0], eff['kernel_shape'][0]
        post_lines.append(f'postfix {proc_name.upper()} {model_v.upper()} {ks[0]} {ks[1]} tif')
        post_meta.append((case, corr[0].name if corr else None, pair.src_path.stem))
        bad = None
        if len(corr) != 1:
            bad = f'expected one corrected file, found {[p.name for p in outs]}'
        elif bool(eff['param_image'][0]) != (len(par) == 1):
            bad = f'param_image={eff["param_image"][0]} but parameter files: {[p.name for p in par]}'
        else:
            a, b = c04.read_result_any(corr[0]), c04.read_result_any(api_corr)
            if not c04.same(a, b):
                which = [nm for nm, x, y in zip(('pixels', 'masks', 'tags', 'descriptions', 'profile'), a, b) if not c04.same((x,), (y,))]
                extra = ''
                if 'tags' in which:
                    extra = '; tag differences: ' + str({k: (a[2].get(k), b[2].get(k)) for k in set(a[2]) | set(b[2]) if a[2].get(k) != b[2].get(k)})[:300]
                bad = f'corrected image of the CLI run differs from the API call with the merged settings in {which}{extra}'
            elif par:
                a, b = c04.read_result_any(par[0]), c04.read_result_any(api_param)
                if not c04.same(a, b):
                    bad = 'parameter image of the CLI run differs from the API call with the merged settings'
        if bad:
            run.fail(case, bad + f' | args {args[3:]} conf {conf}', signature=dict(kind='cli-api-mismatch'))
            continue
        run.sample(dict(args=args[3:], conf=conf, effective={k: v[0] for k, v in eff.items()}), 3)
    reps = common.model_batch(post_lines)
    if reps is not None:
        for (case, name, stem), line, rep in zip(post_meta, post_lines, reps):
            run.lines_compared += 1
            if name is not None and name != stem + rep:
                run.disagree(case, line, stem + rep, name, what='output file name')
    run.extra['generated_tables'] = str(common.LEAN / 'Homonim' / 'Generated.lean')
    compare_legs(run, tmp)


def run_api(case, eff, pair, d, src, ref):
    """the API call the CLI is meant to make with the effective settings; returns (corr path, param path, proc name) or the exception"""
    from homonim import RasterFuse, utils
    from homonim.enums import Model, ProcCrs
    e = {k: v[0] for k, v in eff.items()}
    srcs = {k: v[1] for k, v in eff.items()}
    co = e['creation_options']
    if srcs['creation_options'] == 'd' and 'driver' not in e:
        pass
    # default creation options iff neither driver nor creation_options were given (driver is never given here)
    if srcs['creation_options'] == 'd':
        co = RasterFuse.create_out_profile()['creation_options']
    nodata = e['nodata']
    if nodata == 'nan':
        nodata = float('nan')
    block_config = dict(threads=utils.validate_threads(e['threads']), max_block_mem=e['max_block_mem'])
    model_config = dict(r2_inpaint_thresh=e['r2_inpaint_thresh'], mask_partial=e['mask_partial'], downsampling=e['downsampling'],
                        upsampling=e['upsampling'])
    out_profile = dict(driver='GTiff', dtype=e['dtype'], nodata=nodata, creation_options=co)
    try:
        with warnings.catch_warnings():
            warnings.simplefilter('ignore')
            sb = tuple(case['bands'][0]) if case['bands'] else ()
            rb = tuple(case['bands'][1]) if case['bands'] else ()
            with RasterFuse(pair.src_path, pair.ref_path, proc_crs=ProcCrs(e['proc_crs']), src_bands=sb, ref_bands=rb,
                            force=bool(case['bands'])) as rf:
                # a kernel shape that comes from the YAML file reaches the API as a list, from click as a tuple
                ks = list(e['kernel_shape']) if case['choice']['kernel_shape']['how'] == 'conf' else tuple(e['kernel_shape'])
                # (the name of the API run's own output is the harness's business: computed from a tuple, so that a helper that
                # cannot cope with the list is not mistaken for the API refusing the settings)
                post = utils.create_out_postfix(rf.proc_crs, model=e['model'], kernel_shape=tuple(ks), driver='GTiff')
                corr = d / 'api' / (pair.src_path.stem + post)
                param = utils.create_param_filename(corr) if e['param_image'] else None
                rf.process(corr, Model(e['model']), ks, param_filename=param, build_ovw=e['build_ovw'], overwrite=e['overwrite'],
                           block_config=block_config, model_config=model_config, out_profile=out_profile)
                return corr, param, rf.proc_crs.name
    except Exception as ex:
        return ex


def compare_legs(run, tmp):
    """
    `homonim compare` with generated options, and the comparison chained to `homonim fuse --compare [FILE]` (whose settings
    may come from flags or the configuration file): every RasterCompare.process call the command makes is recorded (wrapper
    on the class, harness side) and must equal the API call with the effective settings on the same files: same constructor
    arguments, same process arguments, same statistics; `--output` JSON must hold the same numbers.
    """
    import json as _json
    from click.testing import CliRunner
    from homonim import cli, RasterCompare
    from homonim.enums import ProcCrs
    calls = []
    orig_process, orig_init = RasterCompare.process, RasterCompare.__init__

    def rec_init(self, src_filename, ref_filename, *a, **kw):
        self._verif_ctor = dict(src=str(src_filename), ref=str(ref_filename), args=a, kw=dict(kw))
        return orig_init(self, src_filename, ref_filename, *a, **kw)

    def rec_process(self, *a, **kw):
        res = orig_process(self, *a, **kw)
        calls.append(dict(ctor=self._verif_ctor, proc_crs=self.proc_crs.value, src_bands=tuple(self.src_bands),
                          ref_bands=tuple(self.ref_bands), args=a, kw=dict(kw), result=res))
        return res

    def close(x, y):
        if isinstance(x, dict):
            return isinstance(y, dict) and list(x) == list(y) and all(close(x[k], y[k]) for k in x)
        if isinstance(x, float) or isinstance(y, float):
            return (np.isnan(x) and np.isnan(y)) or abs(x - y) <= 1e-12 * max(1.0, abs(x))
        return x == y

    n = 10 if run.quick() else 120
    for i in run.indices(n):
        rng = run.rng(f'cmp{i}')
        src, ref = rasters.pair_geometry(rng, 'dyadic', 'auto', max_src=22, margin=(1, 2))
        while src.w < 10 or src.h < 10 or src.px == ref.px:
            src, ref = rasters.pair_geometry(rng, 'dyadic', 'auto', max_src=22, margin=(1, 2))
        nb = rng.choice([1, 2, 3])
        if i % 5 == 1:
            nb = rng.choice([2, 3, 4])      # fuse --compare with band selections needs several bands
        s = np.array([[[rng.randint(20, 200) for _ in range(src.w)] for _ in range(src.h)] for _ in range(nb)], float)
        r = np.array([[[rng.randint(30, 150) for _ in range(ref.w)] for _ in range(ref.h)] for _ in range(nb)], float)
        r2 = np.array([[[rng.randint(30, 150) for _ in range(ref.w)] for _ in range(ref.h)] for _ in range(nb)], float)
        d = tmp / f'c19cmp_{i}'
        (d / 'out').mkdir(parents=True)
        pair = fusion.write_pair(d, 'in', src, ref, s, r, None, None)
        other = fusion.write_pair(d, 'oth', src, ref, s, r2, None, None).ref_path
        opt = dict(threads=rng.choice([1, 2]), max_block_mem=rng.choice([100.0, 50.0]),
                   downsampling=rng.choice(['average', 'bilinear', 'cubic', 'average']),
                   upsampling=rng.choice(['cubic_spline', 'bilinear', 'nearest', 'cubic_spline']),
                   proc_crs=rng.choice(['auto', 'ref', 'src']))
        kind = ['compare', 'fuse-flag', 'fuse-file', 'fuse-conf', 'compare-multi'][i % 5]
        flags = ['-t', str(opt['threads']), '-mbm', repr(opt['max_block_mem']), '-ds', opt['downsampling'], '-us', opt['upsampling'],
                 '-pc', opt['proc_crs']]
        case = dict(i=500_000 + i, op=kind, options=opt, nb=nb)
        out_json = d / 'cmp.json'
        if kind == 'compare-multi':
            # several inputs in one call, one finer and one coarser than the reference: each is compared with the settings given,
            # whatever the inputs before it resolved them to
            coarse_px = ref.px * 2
            cw, ch = max(4, (src.w * src.px) // coarse_px), max(4, (src.h * src.py) // coarse_px)
            cg = rasters.Grid(src.x0, src.ytop, coarse_px, coarse_px, cw, ch, src.unit)
            need_w = -(-(cg.x0 + cw * coarse_px - ref.x0) // ref.px) + 1
            need_h = -(-(ref.ytop - (cg.ytop - ch * coarse_px)) // ref.py) + 1
            if need_w > ref.w or need_h > ref.h:
                ref2 = rasters.Grid(ref.x0, ref.ytop, ref.px, ref.py, max(ref.w, need_w), max(ref.h, need_h), ref.unit)
                r_big = np.array([[[rng.randint(30, 150) for _ in range(ref2.w)] for _ in range(ref2.h)] for _ in range(nb)], float)
                pair = fusion.write_pair(d, 'in', src, ref2, s, r_big, None, None)
            cs = np.array([[[rng.randint(20, 200) for _ in range(cw)] for _ in range(ch)] for _ in range(nb)], float)
            coarse_path = d / 'coarse_src.tif'
            rasters.write_tif(coarse_path, cg, cs, dtype='float32', nodata=float('nan'))
            order = [pair.src_path, coarse_path] if rng.random() < 0.5 else [coarse_path, pair.src_path]
            opt['proc_crs'] = 'auto'
            flags = ['-t', str(opt['threads']), '-mbm', repr(opt['max_block_mem']), '-ds', opt['downsampling'], '-us', opt['upsampling'],
                     '-pc', 'auto']
            args = ['compare', str(order[0]), str(order[1]), str(pair.ref_path), '--output', str(out_json)] + flags
            expect = [dict(src=str(p_), ref=str(pair.ref_path), sb=None, rb=None, force=False) for p_ in order]
        elif kind == 'compare':
            bands = []
            sb = rb = None
            if nb > 1 and rng.random() < 0.5:
                kk = rng.randint(1, nb)
                sb, rb = rng.sample(range(1, nb + 1), kk), rng.sample(range(1, nb + 1), kk)
                for b in sb:
                    bands += ['-sb', str(b)]
                for b in rb:
                    bands += ['-rb', str(b)]
                bands += ['-f']
            args = ['compare', str(pair.src_path), str(pair.ref_path), '--output', str(out_json)] + flags + bands
            expect = [dict(src=str(pair.src_path), ref=str(pair.ref_path), sb=sb, rb=rb, force=bool(sb))]
        else:
            cmp_ref = pair.ref_path if kind != 'fuse-file' else other
            args = ['fuse', str(pair.src_path), str(pair.ref_path), '-od', str(d / 'out'), '-m', 'gain', '-k', '3', '3', '-nbo']
            if kind == 'fuse-conf':
                cf = d / 'conf.yaml'
                cf.write_text(yaml.safe_dump({k: v for k, v in opt.items()}))
                args += ['-c', str(cf)]
            else:
                args += flags
            fsb = frb = fcb = None
            if kind == 'fuse-flag' and nb > 1 and (i // 5) % 2 == 0:
                # band selections: the fusion's source / reference bands, and *other* reference bands for the comparison
                kk = rng.randint(1, nb - 1) if nb > 2 else 1
                fsb, frb = rng.sample(range(1, nb + 1), kk), rng.sample(range(1, nb + 1), kk)
                fcb = rng.sample(range(1, nb + 1), kk)
                while fcb == frb:
                    fcb = rng.sample(range(1, nb + 1), kk)
                for b in fsb:
                    args += ['-sb', str(b)]
                for b in frb:
                    args += ['-rb', str(b)]
                for b in fcb:
                    args += ['-cb', str(b)]
                args += ['-f']
                case['bands'] = dict(src=fsb, ref=frb, cmp=fcb)
            second = None
            if kind == 'fuse-flag' and nb > 1 and (i // 5) % 2 == 1:
                # two sources in one call, a source band selection, and the chained comparison: every source is compared over the
                # selected bands, every corrected image over all of its bands
                import shutil as _sh
                second = d / 'second_src.tif'
                _sh.copy(pair.src_path, second)
                kk = rng.randint(1, nb - 1)
                fsb = sorted(rng.sample(range(1, nb + 1), kk))
                frb = fsb
                args = args[:2] + [str(second)] + args[2:]
                for b in fsb:
                    args += ['-sb', str(b)]
                for b in frb:
                    args += ['-rb', str(b)]
                args += ['-f']
                fcb = frb
                case['bands'] = dict(src=fsb, ref=frb, two_sources=True)
            args += ['--compare'] + ([str(other)] if kind == 'fuse-file' else [])
            if kind != 'fuse-file':
                # `--compare` without a value must not swallow the next token: keep it last
                pass
            expect = [dict(src=str(pair.src_path), ref=str(cmp_ref), sb=fsb, rb=fcb, force=bool(fsb)), None]
            if second is not None:
                expect += [dict(src=str(second), ref=str(cmp_ref), sb=fsb, rb=fcb, force=True), None]
        del calls[:]
        RasterCompare.process, RasterCompare.__init__ = rec_process, rec_init
        try:
            with warnings.catch_warnings():
                warnings.simplefilter('ignore')
                res = CliRunner().invoke(cli.cli, args)
        finally:
            RasterCompare.process, RasterCompare.__init__ = orig_process, orig_init
        run.evaluations += 1
        run.lines_compared += 1
        run.hist[f'compare leg: {kind}'] += 1
        run.nontrivial.add(('cmp', i))
        if res.exit_code != 0:
            run.fail(case, f'`homonim {" ".join(args[:1])}` exited {res.exit_code}: {str(res.exception)[:120]} | args {args}',
                     signature=dict(kind='cli-error'))
            continue
        if kind.startswith('fuse'):
            corr = sorted(p_ for p_ in (d / 'out').glob('*.tif') if 'PARAM' not in p_.name)
            by_stem = {p_.name.split('_FUSE_')[0]: p_ for p_ in corr}
            for q in range(0, len(expect), 2):
                cp = by_stem.get(pathlib.Path(expect[q]['src']).stem)
                expect[q + 1] = dict(src=str(cp) if cp else None, ref=expect[q]['ref'], sb=None, rb=expect[q]['rb'], force=expect[q]['force'])
        if len(calls) != len(expect):
            run.fail(case, f'the command made {len(calls)} comparisons, expected {len(expect)}', signature=dict(kind='cli-compare'))
            continue
        bad = None
        recorded = [dict(c) for c in calls]
        for c, e in zip(recorded, expect):
            if pathlib.Path(c['ctor']['src']).name != pathlib.Path(e['src']).name or pathlib.Path(c['ctor']['ref']).name != pathlib.Path(e['ref']).name:
                bad = f"compared {c['ctor']['src']} with {c['ctor']['ref']}, expected {e['src']} with {e['ref']}"
                break
            # the API call with the same settings
            with warnings.catch_warnings():
                warnings.simplefilter('ignore')
                with RasterCompare(e['src'], e['ref'], proc_crs=ProcCrs(opt['proc_crs']), src_bands=e['sb'], ref_bands=e['rb'],
                                   force=e['force']) as rc:
                    api = rc.process(threads=opt['threads'], max_block_mem=opt['max_block_mem'], downsampling=opt['downsampling'],
                                     upsampling=opt['upsampling'])
                    api_meta = (rc.proc_crs.value, tuple(rc.src_bands), tuple(rc.ref_bands))
            if (c['proc_crs'], c['src_bands'], c['ref_bands']) != api_meta:
                bad = f"the command compared on grid/bands {(c['proc_crs'], c['src_bands'], c['ref_bands'])}, the API call with the same settings on {api_meta}"
                break
            if not close(c['result'], api):
                bad = (f"statistics of the command-line comparison of {pathlib.Path(e['src']).name} differ from the API call with "
                       f"the same settings: Mean {c['result'].get('Mean')} vs {api.get('Mean')} (process kwargs seen: {c['kw']})")
                break
            if kind in ('compare', 'compare-multi'):
                js = _json.loads(out_json.read_text())
                got = js.get(str(e['src']))
                if not close(_json.loads(_json.dumps(api)), got):
                    bad = '--output JSON does not hold the API statistics'
                    break
        if bad:
            run.fail(case, bad + f' | args {args[1:]}', signature=dict(kind='cli-compare'))
