"""
C20 - windowed image I/O is total and places data where it belongs.

Reads : RasterArray.from_rio_dataset(ds, window=W) for every integer window offset in [-N-3, N+3] and size 0..N+3
        per axis (exhaustive per axis against three fixed windows on the other axis, plus random 2-D windows), on
        images N x M in 1..6, several dtypes / nodata encodings / band selections.  Result pixels, mask and
        geo-transform are compared with the Lean model (`read2`); leg 3: the read must not raise and every pixel must
        be the image pixel at its own location or nodata.
Writes: RasterArray.to_rio_dataset(ds, window=W) of blocks at all offsets, read back and compared with `write2`.
"""
import itertools

import numpy as np
import rasterio as rio
from rasterio.windows import Window

import common
import rasters

VARIANTS = [
    dict(name='f32-nan', dtype='float32', nodata=float('nan'), mask=False, bands=1),
    dict(name='u8-nodata0', dtype='uint8', nodata=0, mask=False, bands=1),
    dict(name='i16-internal-mask', dtype='int16', nodata=None, mask=True, bands=1),
    dict(name='f32-3band-sel', dtype='float32', nodata=-9999.0, mask=False, bands=3),
]


def img_value(r, c, b=0):
    return (r * 8 + c + 1) + 64 * b  # small positive integers, exact in every dtype used


def make_image(run, n, m, var, k):
    g = rasters.Grid(8 * 1000 + 16 * k, 8 * 2000 + 8 * k, 16, 16, m, n)
    arr = np.zeros((var['bands'], n, m), dtype='float64')
    for b in range(var['bands']):
        for r in range(n):
            for c in range(m):
                arr[b, r, c] = img_value(r, c, b)
    valid = np.ones((n, m), dtype=bool)
    if n * m > 2:
        valid[(n - 1) // 2, (m - 1) // 2] = False  # one invalid pixel inside
    nod = var['nodata']
    if var['mask']:
        mask = valid
    else:
        mask = None
        arr[:, ~valid] = nod
    p = run.tmpdir() / f"c20_{var['name']}_{n}_{m}.tif"
    rasters.write_tif(p, g, arr, dtype=var['dtype'], nodata=nod, mask=mask)
    return p, g, valid


def windows_for(n, m, rng, quick):
    """(rlo, rhi, clo, chi) windows"""
    def axis_all(k):
        return [(lo, lo + sz) for lo in range(-k - 3, k + 4) for sz in range(0, k + 4)]
    rows, cols = axis_all(n), axis_all(m)
    fixed_r = [(0, n), (-1, max(n - 1, 0)), (n + 1, n + 3)]
    fixed_c = [(0, m), (1, m + 2), (-4, -2)]
    ws = set()
    for rw in rows:
        for cw in fixed_c[:2 if quick else 3]:
            ws.add((*rw, *cw))
    for cw in cols:
        for rw in fixed_r[:2 if quick else 3]:
            ws.add((*rw, *cw))
    for _ in range(60 if quick else 600):
        ws.add((*rng.choice(rows), *rng.choice(cols)))
    return sorted(ws)


def impl_read(ds, var, sel, w, g, verbose=False):
    from homonim.raster_array import RasterArray
    import logging
    rlo, rhi, clo, chi = w
    # (verbose: the package's logger at DEBUG, as under `homonim -v`; what is logged is no business of the result)
    lg = logging.getLogger('homonim')
    old_level = lg.level
    if verbose:
        lg.setLevel(logging.DEBUG)
    try:
        ra = RasterArray.from_rio_dataset(ds, indexes=sel, window=Window(clo, rlo, chi - clo, rhi - rlo))
    except Exception as ex:
        return 'err', f'{type(ex).__name__}: {str(ex)[:100]}', None
    finally:
        lg.setLevel(old_level)
    a = ra.array if ra.array.ndim == 3 else ra.array[None]
    mask = ra.mask
    rows = []
    for i in range(a.shape[1]):
        row = []
        for j in range(a.shape[2]):
            if not mask[i, j]:
                row.append('_')
            else:
                # decode (r, c) from the first selected band; other bands must agree
                v = a[0, i, j]
                if not np.isfinite(v):
                    row.append(f'?{v}')
                    continue
                b0 = (sel[0] - 1) if isinstance(sel, list) else (sel - 1)
                code = int(v) - 64 * b0 - 1
                r, c = divmod(code, 8)
                okb = all(np.isfinite(a[bi, i, j]) and
                          int(a[bi, i, j]) == img_value(r, c, (sel[bi] - 1) if isinstance(sel, list) else b0)
                          for bi in range(a.shape[0]))
                row.append(f'{r}.{c}' if okb and v == int(v) else f'?{v}')
        rows.append(' '.join(row))
    geo = (ra.transform.c, ra.transform.f, ra.transform.a, ra.transform.e, ra.shape)
    return 'ok ' + ';'.join(rows), None, geo


def run(run: common.Run):
    run.rule = ('reads: every integer window offset in [-N-3,N+3] x size 0..N+3 along one axis against fixed windows on the '
                'other axis (exhaustive per axis) + random 2-D windows, images N,M in 1..6, 4 dtype/nodata/mask/band '
                'variants; writes: blocks at all offsets through windows of all overlap relations; non-trivial = window '
                'partly or wholly outside the image or zero-sized; distinct by (N, M, variant, window)')
    rng = run.rng(0)
    quick = run.quick()
    sizes = [(1, 1), (2, 5), (4, 3), (6, 6)] if quick else [(n, m) for n in range(1, 7) for m in (1, 3, 6)]
    cases, lines, impls, geos = [], [], [], []
    idx = 0
    with rio.Env(GDAL_TIFF_INTERNAL_MASK=True, GTIFF_FORCE_RGBA=False):
        for k, (n, m) in enumerate(sizes):
            for var in (VARIANTS if not quick else [VARIANTS[k % 4], VARIANTS[(k + 1) % 4]]):
                p, g, valid = make_image(run, n, m, var, k)
                sel = [3, 1] if var['bands'] == 3 else 1
                with rio.open(p) as ds:
                    for w in windows_for(n, m, rng, quick):
                        idx += 1
                        if run.only is not None and idx not in run.only:
                            continue
                        case = dict(i=idx, n=n, m=m, variant=var['name'], window=w, verbose=idx % 3 == 0)
                        rlo, rhi, clo, chi = w
                        rep, err, geo = impl_read(ds, var, sel, w, g, verbose=case['verbose'])
                        run.evaluations += 1
                        inside = rlo >= 0 and clo >= 0 and rhi <= n and chi <= m and rhi > rlo and chi > clo
                        disjoint = rhi <= 0 or chi <= 0 or rlo >= n or clo >= m
                        run.hist['read:' + ('inside' if inside else 'disjoint' if disjoint else 'partial')] += 1
                        if not inside:
                            run.nontrivial.add(('r', n, m, var['name'], w))
                        if rep == 'err':
                            run.fail(case, f'read of window rows [{rlo},{rhi}) cols [{clo},{chi}) of a {n}x{m} image '
                                     f'raised {err}', signature=dict(kind='read-raises', disjoint=disjoint))
                        else:
                            # leg 3: every valid pixel is the image pixel at its own location; validity as the image's
                            rows = rep[3:].split(';') if rep[3:] else []
                            bad = None
                            for i, row in enumerate(rows):
                                for j, tok in enumerate(row.split(' ') if row else []):
                                    r, c = rlo + i, clo + j
                                    exp = f'{r}.{c}' if (0 <= r < n and 0 <= c < m and valid[r, c]) else '_'
                                    if tok != exp:
                                        bad = (i, j, tok, exp)
                            if (len(rows) != rhi - rlo) and (chi - clo) > 0:
                                bad = ('shape', len(rows), rhi - rlo)
                            if bad:
                                run.fail(case, f'read places data wrongly: {bad}', signature=dict(kind='read-misplaced'))
                            x0 = (g.x0 + clo * g.px) * float(g.unit)
                            y0 = (g.ytop - rlo * g.py) * float(g.unit)
                            if geo and (geo[0] != x0 or geo[1] != y0 or geo[4] != (rhi - rlo, chi - clo)):
                                run.fail(case, f'geo-transform/shape of the result is not the window\'s: {geo} vs origin '
                                         f'({x0},{y0})', signature=dict(kind='read-transform'))
                        # canonical model request: masked pixel is encoded by asking the model and patching validity
                        cases.append(case)
                        lines.append(f'read2 {n} {m} {rlo} {rhi} {clo} {chi} 0')
                        # the model image has no invalid pixel: patch the impl reply's known-invalid pixel for comparison
                        impls.append((rep, (n, m, valid, w)))
                        run.sample(dict(case=case, impl=rep[:120]), 4)
    replies = common.model_batch(lines)
    if replies is None:
        run.model_available = False
    else:
        failed = {f['case']['i'] for f in run.failures}
        for case, line, mrep, (irep, (n, m, valid, w)) in zip(cases, lines, replies, impls):
            run.lines_compared += 1
            if case['i'] in failed:
                continue
            # apply the image's validity to the model reply (the model reads an all-valid image)
            if mrep.startswith('ok'):
                rows = mrep[3:].split(';') if mrep[3:] else []
                out = []
                for row in rows:
                    toks = []
                    for tok in (row.split(' ') if row else []):
                        if tok != '_':
                            r, c = map(int, tok.split('.'))
                            if not valid[r, c]:
                                tok = '_'
                        toks.append(tok)
                    out.append(' '.join(toks))
                mrep = 'ok ' + ';'.join(out)
            if mrep.strip() != irep.strip():
                run.disagree(case, line, mrep, irep)
    run_writes(run, rng, quick, idx)


def typed_writes(run):
    """
    Blocks of one integer type written into datasets of another: reading the window back returns the block's values clipped into
    the dataset's range (never wrapped), each at its own location, inside window ∩ dataset only.
    """
    from homonim.raster_array import RasterArray
    n, m = 5, 6
    g = rasters.Grid(8 * 3000, 8 * 5000, 16, 16, m, n)
    k = 0
    for sdt, ddt in (('uint16', 'int16'), ('uint16', 'uint8'), ('uint8', 'int8'), ('int16', 'uint16'), ('int8', 'uint8'),
                     ('int32', 'int16'), ('int16', 'int8'), ('uint8', 'uint16')):
        si, di = np.iinfo(sdt), np.iinfo(ddt)
        pool = [v for v in (si.min, si.min + 1, -200, -54, -1, 1, 2, 100, 127, 128, 200, 255, 256, 300, 32767, 32768, 33465, 65535,
                            si.max - 1, si.max) if si.min <= v <= si.max and v != 0]
        for (r0, c0, rl, cl), w in (((0, 0, n, m), None), ((-1, -2, n + 2, m + 3), None), ((1, 1, 3, 4), (1, 3, 2, 5)),
                                    ((2, 3, 4, 4), (2, 6, 3, 7))):
            k += 1
            case = dict(i=7_000_000 + k, op='typed write', block_dtype=sdt, dataset_dtype=ddt, block=(r0, c0, rl, cl), window=w)
            barr = np.array([[pool[(r * cl + c) % len(pool)] for c in range(cl)] for r in range(rl)], dtype=sdt)
            bg = rasters.Grid(g.x0 + c0 * g.px, g.ytop - r0 * g.py, g.px, g.py, cl, rl)
            ra = RasterArray(barr, rasters.CRS3857, bg.transform, nodata=0)
            p = run.tmpdir() / 'c20_tw.tif'
            fill = 7
            with rio.open(p, 'w', driver='GTiff', width=m, height=n, count=1, dtype=ddt, crs=rasters.CRS3857, transform=g.transform,
                          nodata=0) as ds:
                ds.write(np.full((n, m), fill, dtype=ddt), 1)
                try:
                    ra.to_rio_dataset(ds, indexes=1, window=None if w is None else Window(w[2], w[0], w[3] - w[2], w[1] - w[0]))
                except Exception as ex:
                    run.fail(case, f'write raised {type(ex).__name__}: {str(ex)[:80]}', signature=dict(kind='write-raises'))
                    continue
            with rio.open(p) as ds:
                back = ds.read(1).astype('int64')
            run.evaluations += 1
            run.hist['typed writes'] += 1
            ww = w if w is not None else (r0, r0 + rl, c0, c0 + cl)
            for r in range(n):
                for c in range(m):
                    inwin = ww[0] <= r < ww[1] and ww[2] <= c < ww[3] and 0 <= r - r0 < rl and 0 <= c - c0 < cl
                    exp = int(np.clip(int(barr[r - r0, c - c0]), di.min, di.max)) if inwin else fill
                    if back[r, c] != exp:
                        run.fail(case, f'pixel ({r},{c}) reads back {int(back[r, c])}, expected {exp} (block value '
                                 f'{int(barr[r - r0, c - c0]) if inwin else None} clipped to {ddt})', signature=dict(kind='typed-write'))
                        break
                else:
                    continue
                break


def multiband_and_decimal_writes(run):
    """
    (a) Multi-band blocks written into datasets of another data type / nodata value (findings D22): every band of every pixel of
    window ∩ dataset reads back the block's value (rounded, clipped) or nodata.  (b) Blocks lying exactly on the grid of a dataset
    with decimal coordinates, written without a window (`window=None`: the block's own extent) - finding D23: the write succeeds and
    every pixel lands at its own location.
    """
    from homonim.raster_array import RasterArray
    from rasterio.transform import Affine
    from rasterio.windows import transform as win_transform
    n, m = 5, 6
    g = rasters.Grid(8 * 3000, 8 * 5000, 16, 16, m, n)
    k = 0
    for ddt, dnd in (('float32', float('nan')), ('float32', -9999.0), ('int16', -32768), ('uint8', 0), ('float64', float('nan')), ('uint16', None)):
        for (r0, c0, rl, cl), w in (((0, 0, n, m), None), ((-1, -2, n + 2, m + 3), None), ((1, 1, 3, 4), (1, 3, 2, 5))):
            k += 1
            case = dict(i=7_800_000 + k, op='multi-band write', dataset_dtype=ddt, dataset_nodata=None if dnd is None else repr(dnd),
                        block=(r0, c0, rl, cl), window=w)
            barr = np.array([[[10 * b + r * 8 + c + 1 for c in range(cl)] for r in range(rl)] for b in range(3)], dtype='float32')
            bvalid = np.ones((rl, cl), bool)
            bvalid[rl // 2, cl // 2] = False
            barr[:, ~bvalid] = np.nan
            # one pixel that is invalid in the middle band only: the other two bands of it are data like any other
            pr, pc = (rl // 2 + 1) % rl, (cl // 2 + 1) % cl
            partial = bvalid[pr, pc]
            if partial:
                barr[1, pr, pc] = np.nan
            bg = rasters.Grid(g.x0 + c0 * g.px, g.ytop - r0 * g.py, g.px, g.py, cl, rl)
            ra = RasterArray(barr.copy(), rasters.CRS3857, bg.transform, nodata=float('nan'))
            p = run.tmpdir() / 'c20_mb.tif'
            try:
                with rio.Env(GDAL_TIFF_INTERNAL_MASK=True):
                    with rio.open(p, 'w', driver='GTiff', width=m, height=n, count=3, dtype=ddt, crs=rasters.CRS3857, transform=g.transform,
                                  nodata=dnd) as ds:
                        ds.write(np.full((3, n, m), 7, dtype=ddt))
                        ra.to_rio_dataset(ds, indexes=[1, 2, 3], window=None if w is None else Window(w[2], w[0], w[3] - w[2], w[1] - w[0]))
                    with rio.open(p) as ds:
                        back = ds.read().astype('float64')
                        mk = ds.read_masks().astype(bool)
            except Exception as ex:
                run.fail(case, f'write of a 3-band block raised {type(ex).__name__}: {str(ex)[:100]}', signature=dict(kind='write-raises', bands=3))
                continue
            run.evaluations += 1
            run.hist['multi-band writes'] += 1
            run.nontrivial.add(('mbw', k))
            ww = w if w is not None else (r0, r0 + rl, c0, c0 + cl)
            bad = None
            for b in range(3):
                for r in range(n):
                    for c in range(m):
                        inwin = ww[0] <= r < ww[1] and ww[2] <= c < ww[3] and 0 <= r - r0 < rl and 0 <= c - c0 < cl
                        if not inwin:
                            if back[b, r, c] != 7:
                                bad = (b, r, c, 'outside the window', float(back[b, r, c]))
                            continue
                        if partial and (r - r0, c - c0) == (pr, pc) and b == 1:
                            continue        # the invalid band of the partly valid pixel: nothing is claimed about it
                        if bvalid[r - r0, c - c0]:
                            if back[b, r, c] != barr[b, r - r0, c - c0] or not mk[b, r, c]:
                                bad = (b, r, c, 'valid block pixel', float(back[b, r, c]), float(barr[b, r - r0, c - c0]))
                        elif mk[b, r, c] and not (dnd is not None and np.isnan(dnd) and np.isnan(back[b, r, c])):
                            bad = (b, r, c, 'invalid block pixel reads back valid', float(back[b, r, c]))
            if bad:
                run.fail(case, f'multi-band write: band/row/col {bad[:3]}: {bad[3:]}', signature=dict(kind='write-misplaced', bands=3))
    # (b) decimal grids, window=None
    for j, (x0, y0, res) in enumerate(((123456.7, 7654321.3, 0.3), (500000.05, 7000000.15, 0.45), (1e6 + 0.1, 8e6 + 0.7, 0.1), (25.000137, -33.000291, 1e-5))):
        tr = Affine(res, 0, x0, 0, -res, y0)
        N, M = 37, 41
        p = run.tmpdir() / 'c20_dec.tif'
        with rio.open(p, 'w', driver='GTiff', width=M, height=N, count=1, dtype='float32', crs=rasters.CRS3857, transform=tr, nodata=float('nan')) as ds:
            ds.write(np.zeros((1, N, M), 'float32'))
            blocks = ((5, 7, 9, 11), (0, 0, N, M), (20, 30, 17, 11), (1, 1, 1, 1), (N - 3, 0, 3, M))
            for (r0, c0, rl, cl) in blocks:
                k += 1
                case = dict(i=7_800_000 + k, op='write without a window, decimal grid', origin=(x0, y0), res=res, block=(r0, c0, rl, cl))
                blk = RasterArray(np.array([[r * 100 + c + 1 for c in range(c0, c0 + cl)] for r in range(r0, r0 + rl)], 'float32'), rasters.CRS3857,
                                  win_transform(Window(c0, r0, cl, rl), tr), nodata=float('nan'))
                try:
                    blk.to_rio_dataset(ds, indexes=1)
                except Exception as ex:
                    run.fail(case, f'a block lying exactly on the dataset grid could not be written without a window: {type(ex).__name__}: '
                             f'{str(ex)[:80]}', signature=dict(kind='write-raises', decimal_grid=True))
                    continue
                run.evaluations += 1
                run.hist['writes without a window on decimal grids'] += 1
                run.nontrivial.add(('decw', k))
        with rio.open(p) as ds:
            back = ds.read(1)
        exp = np.zeros((N, M), 'float32')
        for (r0, c0, rl, cl) in blocks:
            exp[r0:r0 + rl, c0:c0 + cl] = np.array([[r * 100 + c + 1 for c in range(c0, c0 + cl)] for r in range(r0, r0 + rl)], 'float32')
        if not np.array_equal(back, exp):
            d = np.argwhere(back != exp)[0].tolist()
            run.fail(dict(i=7_800_900 + j, op='write without a window, decimal grid', origin=(x0, y0), res=res),
                     f'pixel {d} holds {float(back[tuple(d)])}, expected {float(exp[tuple(d)])}', signature=dict(kind='write-misplaced', decimal_grid=True))


def rotated_reads(run):
    """
    Windows of datasets whose geo-transform has rotation / shear terms (and of south-up ones): the block read through a window -
    inside, across an edge, wholly outside - carries the geo-transform of that window (`rasterio.windows.transform`), so that
    every pixel keeps its geographic location; values where the window meets the image, nodata elsewhere.
    """
    from affine import Affine
    from rasterio.windows import transform as win_transform
    from homonim.raster_array import RasterArray
    n, m = 7, 9
    k = 0
    for name, tr in (('rotated 20 deg', Affine.translation(500_000, 6_000_000) * Affine.rotation(20) * Affine.scale(2.0, -2.0)),
                     ('rotated -35 deg', Affine.translation(500_000, 6_000_000) * Affine.rotation(-35) * Affine.scale(0.5, -0.5)),
                     ('sheared', Affine(2.0, 0.5, 500_000, 0.25, -2.0, 6_000_000)),
                     ('south-up', Affine(2.0, 0, 500_000, 0, 2.0, 6_000_000))):
        p = run.tmpdir() / 'c20_rot.tif'
        data = np.arange(1, n * m + 1, dtype='float32').reshape(n, m)
        with rio.open(p, 'w', driver='GTiff', width=m, height=n, count=1, dtype='float32', crs=rasters.CRS3857, transform=tr,
                      nodata=float('nan')) as ds:
            ds.write(data, 1)
        with rio.open(p) as ds:
            for (r0, c0, rl, cl) in ((0, 0, n, m), (2, 3, 3, 4), (-2, -1, 5, 4), (5, 7, 4, 5), (n + 1, 2, 3, 3), (1, 0, 2, m)):
                k += 1
                w = Window(c0, r0, cl, rl)
                case = dict(i=7_700_000 + k, op='read, non-north-up transform', transform=name, window=(r0, c0, rl, cl))
                try:
                    ra = RasterArray.from_rio_dataset(ds, window=w)
                except Exception as ex:
                    run.fail(case, f'read raised {type(ex).__name__}: {str(ex)[:80]}', signature=dict(kind='read-raises'))
                    continue
                run.evaluations += 1
                run.hist['reads of rotated / sheared / south-up datasets'] += 1
                run.nontrivial.add(('rot', k))
                exp_t = win_transform(w, ds.transform)
                if not all(abs(a - b) <= 1e-9 * max(1.0, abs(b)) for a, b in zip(ra.transform, exp_t)):
                    run.fail(case, f'the block read through window {(r0, c0, rl, cl)} of a {name} dataset has transform {tuple(ra.transform)[:6]}, '
                             f'the window\'s transform is {tuple(exp_t)[:6]}', signature=dict(kind='window-transform'))
                    continue
                exp = np.full((rl, cl), np.nan, dtype='float32')
                for r in range(rl):
                    for c in range(cl):
                        if 0 <= r0 + r < n and 0 <= c0 + c < m:
                            exp[r, c] = data[r0 + r, c0 + c]
                if ra.array.shape != exp.shape or not np.array_equal(np.nan_to_num(ra.array, nan=-1), np.nan_to_num(exp, nan=-1)):
                    run.fail(case, f'pixels read through window {(r0, c0, rl, cl)} of a {name} dataset are not the image pixels / nodata',
                             signature=dict(kind='read-misplaced'))


def edited_block_writes(run):
    """
    A block whose mask was looked at, then edited in place through `ra.array[...] = ...` (the idiom of the package's own kernel
    code; only the setters refresh the cached mask), then written: what is written is the block as it is NOW - window ∩ dataset reads
    back the edited values, and pixels set to the nodata value read back invalid.  Datasets with the same nodata (NaN), an internal
    mask (nodata None, integer type) and another numeric nodata.
    """
    from homonim.raster_array import RasterArray
    n, m = 7, 9
    g = rasters.Grid(8 * 3000, 8 * 5000, 16, 16, m, n)
    k = 0
    for look in (False, True):
        for dtype, dnd in (('float32', float('nan')), ('uint16', None), ('int32', -1), ('float32', -9999.0)):
            for w in (None, (1, 6, 2, 8)):
                k += 1
                case = dict(i=7_700_000 + k, op='write of a block edited in place', mask_read_before_edit=look, dataset_dtype=dtype,
                            dataset_nodata=None if dnd is None else repr(dnd), window=w)
                arr = np.array([[r * 10 + c + 1 for c in range(m)] for r in range(n)], dtype='float32')
                arr[0, :] = np.nan
                arr[3, 4] = np.nan
                ra = RasterArray(arr.copy(), rasters.CRS3857, g.transform, nodata=float('nan'))
                if look:
                    _ = ra.mask.sum()
                # the edit: some nodata pixels get values, some valid pixels become nodata
                ra.array[0, 2:6] = 500.0
                ra.array[3, 4] = 77.0
                ra.array[5, 1:4] = np.nan
                ra.array[2, 7] = np.nan
                want_valid = np.isfinite(ra.array)
                want = ra.array.copy()
                p = run.tmpdir() / 'c20_edit.tif'
                with rio.Env(GDAL_TIFF_INTERNAL_MASK=True):
                    with rio.open(p, 'w', driver='GTiff', width=m, height=n, count=1, dtype=dtype, crs=rasters.CRS3857,
                                  transform=g.transform, nodata=dnd) as ds:
                        ds.write(np.full((n, m), 9, dtype=dtype), 1)
                        try:
                            ra.to_rio_dataset(ds, indexes=1, window=None if w is None else Window(w[2], w[0], w[3] - w[2], w[1] - w[0]))
                        except Exception as ex:
                            run.fail(case, f'write raised {type(ex).__name__}: {str(ex)[:80]}', signature=dict(kind='write-raises'))
                            continue
                    with rio.open(p) as ds:
                        back = ds.read(1)
                        mk = ds.read_masks(1).astype(bool)
                run.evaluations += 1
                run.hist['writes of blocks edited in place'] += 1
                run.nontrivial.add(('edited', k))
                ww = w if w is not None else (0, n, 0, m)
                bad = [(r, c) for r in range(ww[0], ww[1]) for c in range(ww[2], ww[3])
                       if bool(mk[r, c]) != bool(want_valid[r, c]) or (want_valid[r, c] and float(back[r, c]) != float(want[r, c]))]
                if bad:
                    r, c = bad[0]
                    run.fail(case, f'{len(bad)} pixels of the window do not read back as the block holds them, e.g. ({r},{c}): block '
                             f'{"valid " + str(float(want[r, c])) if want_valid[r, c] else "nodata"}, dataset '
                             f'{"valid " + str(float(back[r, c])) if mk[r, c] else "invalid"}', signature=dict(kind='edited-block-write'))


def near_nodata_io(run):
    """
    Values that are close to, but not equal to, a nodata value are data: a block whose nodata is a number (0, -9999, 3e38) and
    that holds valid pixels within 1e-5 relative (or 1e-8 absolute) of it is written into datasets with another nodata value
    (NaN, a number, none = internal mask) through whole and partial windows: every pixel of window ∩ dataset reads back the
    block's value and validity.  And reading a dataset with such a nodata value returns those pixels as valid.
    """
    from homonim.raster_array import RasterArray
    n, m = 5, 6
    g = rasters.Grid(8 * 3000, 8 * 5000, 16, 16, m, n)
    k = 0
    f32 = lambda v: float(np.float32(v))
    for bnd, near in ((0.0, [4e-9, -2e-9, 9e-9, 1e-30]), (-9999.0, [-9999.05, -9998.95, -9999.002]), (3.0e38, [2.9999e38, 3.0001e38])):
        for dnd in (float('nan'), -9999.0, None, 0.0, 3.0e38):
            if dnd is not None and dnd == bnd:
                continue
            for (r0, c0, rl, cl), w in (((0, 0, n, m), None), ((-1, -2, n + 2, m + 3), None), ((1, 1, 3, 4), (1, 3, 2, 5))):
                k += 1
                case = dict(i=7_500_000 + k, op='near-nodata write', block_nodata=bnd, dataset_nodata=None if dnd is None else repr(dnd),
                            block=(r0, c0, rl, cl), window=w)
                barr = np.array([[r * 8 + c + 1 for c in range(cl)] for r in range(rl)], dtype='float32')
                bvalid = np.ones((rl, cl), bool)
                bvalid[rl // 2, cl // 2] = False
                cells = [(r, c) for r in range(rl) for c in range(cl) if bvalid[r, c]]
                for j, v in enumerate(near):
                    barr[cells[(3 * j + 1) % len(cells)]] = v
                barr[~bvalid] = bnd
                bg = rasters.Grid(g.x0 + c0 * g.px, g.ytop - r0 * g.py, g.px, g.py, cl, rl)
                ra = RasterArray(barr.copy(), rasters.CRS3857, bg.transform, nodata=bnd)
                if not np.array_equal(ra.mask, bvalid):
                    run.fail(case, f'RasterArray.mask with nodata {bnd}: a value near the nodata value is masked '
                             f'({barr[ra.mask != bvalid].tolist()})', signature=dict(kind='near-nodata'))
                    continue
                p = run.tmpdir() / 'c20_nn.tif'
                fill = 7.0
                with rio.Env(GDAL_TIFF_INTERNAL_MASK=True):
                    with rio.open(p, 'w', driver='GTiff', width=m, height=n, count=1, dtype='float32', crs=rasters.CRS3857,
                                  transform=g.transform, nodata=dnd) as ds:
                        ds.write(np.full((n, m), fill, dtype='float32'), 1)
                        try:
                            ra.to_rio_dataset(ds, indexes=1, window=None if w is None else Window(w[2], w[0], w[3] - w[2], w[1] - w[0]))
                        except Exception as ex:
                            run.fail(case, f'write raised {type(ex).__name__}: {str(ex)[:80]}', signature=dict(kind='write-raises'))
                            continue
                    with rio.open(p) as ds:
                        back = ds.read(1)
                        mk = ds.read_masks(1).astype(bool)
                        rd = RasterArray.from_rio_dataset(ds)
                run.evaluations += 1
                run.hist['near-nodata writes'] += 1
                run.nontrivial.add(('nn', k))
                ww = w if w is not None else (r0, r0 + rl, c0, c0 + cl)
                for r in range(n):
                    for c in range(m):
                        inwin = ww[0] <= r < ww[1] and ww[2] <= c < ww[3] and 0 <= r - r0 < rl and 0 <= c - c0 < cl
                        if not inwin:
                            continue
                        bv, bval = bool(bvalid[r - r0, c - c0]), f32(barr[r - r0, c - c0])
                        got_valid = bool(mk[r, c])
                        if got_valid != bv or (bv and f32(back[r, c]) != bval) or bool(rd.mask[r, c]) != bv or \
                                (bv and f32(rd.array[r, c]) != bval):
                            run.fail(case, f'pixel ({r},{c}): block holds {"valid " + repr(bval) if bv else "an invalid pixel"}; the dataset '
                                     f'reads back {"valid" if got_valid else "invalid"} {float(back[r, c])!r}, from_rio_dataset '
                                     f'{"valid" if rd.mask[r, c] else "invalid"} {float(rd.array[r, c])!r}',
                                     signature=dict(kind='near-nodata'))
                            break
                    else:
                        continue
                    break


def mask_writes(run, rng, quick, idx, cases, lines, impls):
    """
    Writes of blocks that hold invalid pixels, into datasets whose validity is an internal mask (nodata None) or a numeric
    nodata value, through windows smaller than / equal to / larger than the block: after the write every pixel of
    window ∩ dataset holds the block's pixel *and its validity* at its own location.  Model: `write2` with the block's
    validity applied to the reply ('x' = written as invalid).
    """
    from homonim.raster_array import RasterArray
    combos = []
    for (n, m) in ([(4, 5)] if quick else [(4, 5), (3, 3), (6, 7)]):
        for (r0, c0, rl, cl) in [(-1, -1, n + 2, m + 2), (0, 0, n, m), (1, 1, 3, 3), (-2, 2, 4, 4), (n - 2, m - 2, 4, 4)]:
            wins = [None, (r0 + 1, r0 + rl - 1, c0 + 1, c0 + cl - 1), (r0, r0 + rl, c0 + 1, c0 + cl), (r0 + 1, r0 + rl, c0, c0 + cl - 1),
                    (r0 - 2, r0 + rl + 2, c0 - 2, c0 + cl + 2)]
            for w in wins:
                for nd in (None, -9999.0):
                    combos.append((n, m, (r0, c0, rl, cl), w, nd))
    with rio.Env(GDAL_TIFF_INTERNAL_MASK=True, GTIFF_FORCE_RGBA=False):
        for k, (n, m, blk, w, nd) in enumerate(combos):
            idx += 1
            if run.only is not None and idx not in run.only:
                continue
            r0, c0, rl, cl = blk
            g = rasters.Grid(8 * 3000, 8 * 5000, 16, 16, m, n)
            case = dict(i=idx, op='write-validity', n=n, m=m, block=blk, window=w, ds_nodata=nd)
            p = run.tmpdir() / 'c20_wm.tif'
            barr = np.array([[r * 8 + c + 1 for c in range(cl)] for r in range(rl)], dtype='float32')
            bvalid = np.ones((rl, cl), bool)
            # an irregular invalid pattern: one corner-ish pixel, one interior pixel, part of a row
            bvalid[0, (k % cl)] = False
            bvalid[rl // 2, cl // 2] = False
            bvalid[rl - 1, : 1 + k % 2] = False
            barr[~bvalid] = np.nan
            bg = rasters.Grid(g.x0 + c0 * g.px, g.ytop - r0 * g.py, g.px, g.py, cl, rl)
            ra = RasterArray(barr, rasters.CRS3857, bg.transform, nodata=float('nan'))
            prof = dict(driver='GTiff', width=m, height=n, count=1, dtype='float32', crs=rasters.CRS3857,
                        transform=g.transform, nodata=nd)
            err = None
            with rio.open(p, 'w', **prof) as ds:
                ds.write(np.full((n, m), -1, dtype='float32'), 1)
                try:
                    win = None if w is None else Window(w[2], w[0], w[3] - w[2], w[1] - w[0])
                    ra.to_rio_dataset(ds, indexes=1, window=win)
                except Exception as ex:
                    err = f'{type(ex).__name__}: {str(ex)[:80]}'
            run.evaluations += 1
            ww = w if w is not None else (r0, r0 + rl, c0, c0 + cl)
            run.hist[f'write-validity: dataset nodata={nd}'] += 1
            if err:
                irep = 'err'
                if r0 <= ww[0] and ww[1] <= r0 + rl and c0 <= ww[2] and ww[3] <= c0 + cl:
                    run.fail(case, f'write of a block that contains the window raised {err}', signature=dict(kind='write-raises'))
            else:
                with rio.open(p) as ds:
                    back = ds.read(1)
                    mk = ds.read_masks(1).astype(bool)
                rows, bad = [], None
                for r in range(n):
                    toks = []
                    for c in range(m):
                        v = back[r, c]
                        if v == -1:
                            toks.append('_')
                            continue
                        invalid = (not mk[r, c]) if nd is None else (v == nd)
                        toks.append('x' if invalid else ('nan' if np.isnan(v) else '%d.%d' % divmod(int(v) - 1, 8)))
                        # leg 3: validity of a written pixel = validity of the block pixel at the same location
                        br, bc = r - r0, c - c0
                        if 0 <= br < rl and 0 <= bc < cl and invalid == bool(bvalid[br, bc]):
                            bad = (r, c, 'valid' if not invalid else 'invalid', 'block pixel is ' + ('valid' if bvalid[br, bc] else 'invalid'))
                    rows.append(' '.join(toks))
                irep = 'ok ' + ';'.join(rows)
                if bad:
                    run.fail(case, f'after the write the validity of a pixel is not that of the block pixel written there: {bad}',
                             signature=dict(kind='write-validity'))
            run.nontrivial.add(('wm', n, m, blk, w, nd))
            case['_bvalid'] = bvalid.tolist()
            cases.append(case)
            lines.append(f'write2 {n} {m} {r0} {rl} {c0} {cl} {ww[0]} {ww[1]} {ww[2]} {ww[3]}')
            impls.append(irep)
    return idx


def run_writes(run, rng, quick, idx0):
    from homonim.raster_array import RasterArray
    cases, lines, impls = [], [], []
    idx = idx0
    combos = []
    for (n, m) in ([(3, 4), (5, 5)] if quick else [(1, 1), (2, 5), (3, 4), (5, 5), (6, 2)]):
        blocks = [(r0, c0, rl, cl) for r0 in (-2, 0, 1, n - 1, n + 1) for c0 in (-1, 0, 2) for rl in (1, 2, n + 3)
                  for cl in (1, m, m + 2)]
        rng.shuffle(blocks)
        for blk in blocks[:25 if quick else 90]:
            r0, c0, rl, cl = blk
            # (the fourth: a window of the block's own size that starts inside the block and ends beyond it - the block holds its
            # top-left corner but not all of it: to be refused, never stretched over the window)
            wins = [None, (r0, r0 + rl, c0, c0 + cl), (r0 - 1, r0 + rl + 1, c0 - 1, c0 + cl + 1),
                    (r0 + 1, r0 + rl + 1, c0 + 1, c0 + cl + 1),
                    (r0 + 1, r0 + rl, c0, c0 + max(cl - 1, 0)), (0, n, 0, m), (-3, -1, 0, m), (n, n + 2, 0, 1)]
            for w in wins[:5 if quick else 8]:
                combos.append((n, m, blk, w))
    with rio.Env(GDAL_TIFF_INTERNAL_MASK=True, GTIFF_FORCE_RGBA=False):
        for (n, m, blk, w) in combos:
            idx += 1
            if run.only is not None and idx not in run.only:
                continue
            r0, c0, rl, cl = blk
            g = rasters.Grid(8 * 3000, 8 * 5000, 16, 16, m, n)
            case = dict(i=idx, op='write', n=n, m=m, block=blk, window=w)
            p = run.tmpdir() / 'c20_w.tif'
            barr = np.array([[r * 8 + c + 1 for c in range(cl)] for r in range(rl)], dtype='float32')
            bg = rasters.Grid(g.x0 + c0 * g.px, g.ytop - r0 * g.py, g.px, g.py, cl, rl)
            ra = RasterArray(barr, rasters.CRS3857, bg.transform, nodata=float('nan'))
            prof = dict(driver='GTiff', width=m, height=n, count=1, dtype='float32', crs=rasters.CRS3857,
                        transform=g.transform, nodata=float('nan'))
            err = None
            with rio.open(p, 'w', **prof) as ds:
                ds.write(np.full((n, m), -1, dtype='float32'), 1)
                try:
                    win = None if w is None else Window(w[2], w[0], w[3] - w[2], w[1] - w[0])
                    ra.to_rio_dataset(ds, indexes=1, window=win)
                except Exception as ex:
                    err = f'{type(ex).__name__}: {str(ex)[:80]}'
            run.evaluations += 1
            ww = w if w is not None else (r0, r0 + rl, c0, c0 + cl)
            if err:
                irep = 'err'
                run.hist['write:error'] += 1
                # leg 3: a block that holds every pixel of the window must be written (cropped to the dataset) without
                # error, wherever the window lies relative to the dataset - inside, across an edge or wholly outside
                if r0 <= ww[0] and ww[1] <= r0 + rl and c0 <= ww[2] and ww[3] <= c0 + cl:
                    run.fail(case, f'write of a block that contains the window raised {err}',
                             signature=dict(kind='write-raises'))
            else:
                with rio.open(p) as ds:
                    back = ds.read(1)
                rows = []
                for r in range(n):
                    rows.append(' '.join('_' if back[r, c] == -1 else '%d.%d' % divmod(int(back[r, c]) - 1, 8)
                                         for c in range(m)))
                irep = 'ok ' + ';'.join(rows)
                run.hist['write:ok'] += 1
                # leg 3: every written pixel sits at its geographic location, inside window ∩ dataset; others untouched
                bad = None
                for r in range(n):
                    for c in range(m):
                        inwin = ww[0] <= r < ww[1] and ww[2] <= c < ww[3]
                        exp = -1 if not inwin else (r - r0) * 8 + (c - c0) + 1
                        if inwin and not (0 <= r - r0 < rl and 0 <= c - c0 < cl):
                            # the block does not hold this pixel (the model expects a refusal): whatever the call does, it has
                            # no value to put there
                            if back[r, c] != -1:
                                bad = (r, c, float(back[r, c]), 'nothing: the block does not hold this pixel')
                            continue
                        if back[r, c] != exp:
                            bad = (r, c, float(back[r, c]), exp)
                if bad:
                    run.fail(case, f'write stores a pixel at the wrong place / outside the window: {bad}',
                             signature=dict(kind='write-misplaced'))
            run.nontrivial.add(('w', n, m, blk, w))
            cases.append(case)
            lines.append(f'write2 {n} {m} {r0} {rl} {c0} {cl} {ww[0]} {ww[1]} {ww[2]} {ww[3]}')
            impls.append(irep)
            if len(run.samples) < 8:
                run.samples.append(dict(case=case, impl=irep[:100]))
    idx = mask_writes(run, rng, quick, idx, cases, lines, impls)
    typed_writes(run)
    near_nodata_io(run)
    edited_block_writes(run)
    rotated_reads(run)
    multiband_and_decimal_writes(run)
    failed = {f['case']['i'] for f in run.failures}
    replies = common.model_batch(lines)
    if replies is None:
        run.model_available = False
        return
    for case, line, mrep, irep in zip(cases, lines, replies, impls):
        run.lines_compared += 1
        if case['i'] in failed:
            continue
        if case.get('_bvalid') is not None and mrep.startswith('ok'):
            bv = case['_bvalid']
            mrep = 'ok ' + ';'.join(' '.join(
                t if t == '_' else ('x' if not bv[int(t.split('.')[0])][int(t.split('.')[1])] else t)
                for t in (row.split(' ') if row else [])) for row in mrep[3:].split(';'))
        if mrep.strip() != irep.strip():
            run.disagree(case, line, mrep, irep)
    run.extra['exhaustive_slice'] = ('reads: all per-axis integer windows with offset in [-N-3,N+3] and size 0..N+3 '
                                     'for the listed image sizes')
