"""
Shared machinery for every check: Lean build + axiom audit (proof leg), line-protocol driver I/O (correspondence
leg), failure bookkeeping, known findings, replay files, evidence files and the VIOLATION protocol.

Every random choice of case number `i` of property `pid` under seed `s` derives from random.Random(f"{s}:{pid}:{i}")
so that a single case can be regenerated from (seed, index) alone - that pair is what a replay file stores.
"""
import collections
import contextlib
import fcntl
import json
import os
import pathlib
import random
import re
import shutil
import subprocess
import sys
import tempfile
import time
import traceback

VERIF = pathlib.Path(__file__).resolve().parents[1]
LEAN = VERIF / 'lean'
REPO = pathlib.Path(os.environ.get('VERIF_REPO', '/repo'))
if str(REPO) not in sys.path:
    sys.path.insert(0, str(REPO))
os.environ.setdefault('HOMONIM_VERIF', '1')
os.environ.setdefault('TQDM_DISABLE', '1')

ALLOWED_AXIOMS = {'propext', 'Classical.choice', 'Quot.sound'}
FORBIDDEN = re.compile(
    r'\b(sorry|admit|native_decide|bv_decide|implemented_by|unsafe)\b|^\s*axiom\s|maxHeartbeats\s+0\b', re.M
)
TRUSTED_BASE = [
    "Lean 4.33.0 kernel and elaborator (thorough tier: compiled .olean files re-checked with leanchecker)",
    "axioms: propext, Classical.choice, Quot.sound only (audited by #print axioms on every property theorem; "
    "no sorry/admit/native_decide/bv_decide/added axioms - grep on every run)",
    "the statements of the property theorems in lean/Homonim/Props (reviewed against properties.jsonl)",
    "the hand-written model in lean/Homonim/Model, tied to /repo by this run's correspondence leg (differential "
    "run of the model's executable definitions and the real code on generated inputs)",
    "harness: generators, canonicalisation, line protocol parsing (harness/*.py)",
    "modelled, not verified: GDAL/rasterio I/O and warping, OpenCV filters, numpy, IEEE-754 floats, CPython runtime",
]


def strip_lean_comments(src: str) -> str:
    """remove /- -/ (nested) and -- comments"""
    out, i, depth = [], 0, 0
    while i < len(src):
        if src.startswith('/-', i):
            depth += 1
            i += 2
        elif depth and src.startswith('-/', i):
            depth -= 1
            i += 2
        elif depth:
            i += 1
        elif src.startswith('--', i):
            while i < len(src) and src[i] != '\n':
                i += 1
        else:
            out.append(src[i])
            i += 1
    return ''.join(out)


@contextlib.contextmanager
def build_lock():
    lock = open(LEAN / '.build.lock', 'w')
    try:
        fcntl.flock(lock, fcntl.LOCK_EX)
        yield
    finally:
        fcntl.flock(lock, fcntl.LOCK_UN)
        lock.close()


def lake(args, timeout=3600, input=None):
    return subprocess.run(['lake'] + args, cwd=LEAN, capture_output=True, text=True, timeout=timeout, input=input)


class Proof:
    """result of the proof leg"""

    def __init__(self):
        self.theorems = []
        self.axioms = {}
        self.build_ok = False
        self.errors = []
        self.forbidden = []

    @property
    def obligations(self):
        return len(self.theorems)

    @property
    def discharged(self):
        if not self.build_ok or self.forbidden:
            return 0
        return sum(1 for t in self.theorems if t in self.axioms and set(self.axioms[t]) <= ALLOWED_AXIOMS)

    @property
    def ok(self):
        return self.build_ok and not self.forbidden and self.obligations > 0 and self.discharged == self.obligations


def theorem_names(path: pathlib.Path):
    src = strip_lean_comments(path.read_text())
    ns = re.search(r'^namespace\s+(\S+)', src, re.M)
    prefix = (ns.group(1) + '.') if ns else ''
    return [prefix + m.group(1) for m in re.finditer(r'^\s*theorem\s+([^\s:({\[]+)', src, re.M)]


def proof_leg(pid: str, extra_modules=(), leanchecker=False) -> Proof:
    """build the property's theorem file and audit the axioms of every theorem in it"""
    pr = Proof()
    prop_file = LEAN / 'Homonim' / 'Props' / f'{pid}.lean'
    if not prop_file.exists():
        pr.errors.append(f'missing {prop_file}')
        return pr
    pr.theorems = theorem_names(prop_file)
    # tie theorems (model definition = closed form re-derived from the source text by harness/py2lean.py)
    tie_modules = []
    try:
        import py2lean
        for module, prefix in py2lean.TIE.get(pid, []):
            names = [t for t in theorem_names(LEAN / 'Homonim' / 'Props' / f'{module}.lean') if t.split('.')[-1].startswith(prefix)]
            pr.theorems += [t for t in names if t not in pr.theorems]
            if f'Homonim.Props.{module}' not in tie_modules:
                tie_modules.append(f'Homonim.Props.{module}')
    except Exception as ex:  # pragma: no cover
        pr.errors.append(f'tie theorems: {ex}')
    # forbidden tokens anywhere in the Lean sources (comments stripped)
    for f in sorted(LEAN.glob('Homonim/**/*.lean')) + [LEAN / 'Main.lean']:
        if f.exists():
            for m in FORBIDDEN.finditer(strip_lean_comments(f.read_text())):
                pr.forbidden.append(f'{f.relative_to(LEAN)}: {m.group(0).strip()}')
    targets = [f'Homonim.Props.{pid}'] + tie_modules + list(extra_modules)
    with build_lock():
        r = lake(['build'] + targets)
    if r.returncode != 0:
        pr.errors.append((r.stdout + r.stderr)[-6000:])
        return pr
    pr.build_ok = True
    audit_dir = LEAN / '.lake' / 'audit'
    audit_dir.mkdir(parents=True, exist_ok=True)
    audit = audit_dir / f'{pid}.lean'
    audit.write_text(f'import Homonim.Props.{pid}\n' + ''.join(f'import {m}\n' for m in tie_modules) +
                     ''.join(f'#print axioms {t}\n' for t in pr.theorems))
    r = lake(['env', 'lean', str(audit)])
    out = r.stdout + r.stderr
    for m in re.finditer(r"^'(.+?)' depends on axioms: \[([^\]]*)\]", out, re.M):
        pr.axioms[m.group(1)] = [a.strip() for a in m.group(2).replace('\n', ' ').split(',') if a.strip()]
    for m in re.finditer(r"^'(.+?)' does not depend on any axioms", out, re.M):
        pr.axioms[m.group(1)] = []
    if r.returncode != 0:
        pr.errors.append(out[-3000:])
    for t in pr.theorems:
        if t not in pr.axioms:
            pr.errors.append(f'no axiom report for {t}')
        elif not set(pr.axioms[t]) <= ALLOWED_AXIOMS:
            pr.errors.append(f'{t} depends on {pr.axioms[t]}')
    if leanchecker and pr.build_ok:
        # the property's own module and every tie / end-to-end module audited with it
        r = lake(['env', 'leanchecker', f'Homonim.Props.{pid}'] + tie_modules, timeout=3600)
        if r.returncode != 0:
            pr.errors.append('leanchecker: ' + (r.stdout + r.stderr)[-2000:])
            pr.build_ok = False
    return pr


def model_batch(lines, timeout=1800):
    """send request lines to the Lean driver, return reply lines (None if the driver is unavailable)"""
    if not lines:
        return []
    with build_lock():
        b = lake(['build', 'Homonim', 'driver'])
    exe = LEAN / '.lake' / 'build' / 'bin' / 'driver'
    if b.returncode == 0 and exe.exists():
        # compiled driver (the model files import nothing outside Lean core)
        r = subprocess.run([str(exe)], cwd=LEAN, input='\n'.join(lines) + '\n', capture_output=True, text=True, timeout=timeout)
    else:
        b2 = lake(['build', 'Homonim']) if b.returncode != 0 else b
        if b2.returncode != 0:
            return None
        r = subprocess.run(
            ['lake', 'env', 'lean', '--run', 'Main.lean'], cwd=LEAN, input='\n'.join(lines) + '\n', capture_output=True,
            text=True, timeout=timeout
        )
    out = r.stdout.split('\n')
    if out and out[-1] == '':
        out.pop()
    if r.returncode != 0 or len(out) != len(lines):
        sys.stderr.write(f'[model driver] rc={r.returncode} replies={len(out)} of {len(lines)}\n{r.stderr[-2000:]}\n')
        return None
    return out


class Run:
    """one run of one check"""

    def __init__(self, pid, tier, seed, only=None):
        self.pid, self.tier, self.seed, self.only = pid, tier, seed, only
        self.t0 = time.time()
        self.evaluations = 0
        self.nontrivial = set()
        self.hist = collections.Counter()
        self.samples = []
        self.failures = []  # property fails on the real code: dict(case=..., what=..., signature=...)
        self.disagreements = []  # model vs code: dict(case=..., line=..., model=..., impl=...)
        self.lines_compared = 0
        self.notes = []
        self.extra = {}
        self.rule = ''
        self.assumptions = []
        self.tmp = None
        self.model_available = True

    # ---- helpers for harnesses
    def rng(self, i):
        return random.Random(f'{self.seed}:{self.pid}:{i}')

    def indices(self, n):
        """case indices to run (all, or the one requested by --replay/--only)"""
        return [i for i in range(n) if self.only is None or i in self.only]

    def tmpdir(self):
        if self.tmp is None:
            self.tmp = pathlib.Path(tempfile.mkdtemp(prefix=f'verif_{self.pid}_'))
        return self.tmp

    def quick(self):
        return self.tier == 'quick'

    def sample(self, s, limit=6):
        if len(self.samples) < limit:
            self.samples.append(s)

    def fail(self, case, what, signature=None, **kw):
        self.failures.append(dict(case=case, what=what, signature=signature or {}, **kw))

    def disagree(self, case, line, model, impl, what=''):
        self.disagreements.append(dict(case=case, line=line, model=model, impl=impl, what=what))

    def compare_lines(self, cases, lines, impl_replies, canon=lambda s: s, tolerate=None):
        """run `lines` through the model and compare with impl_replies; returns model replies (or None)"""
        replies = model_batch(lines)
        if replies is None:
            self.model_available = False
            return None
        for case, line, m, im in zip(cases, lines, replies, impl_replies):
            self.lines_compared += 1
            if im is None:
                continue
            if canon(m) != canon(im) and not (tolerate and tolerate(case, m, im)):
                self.disagree(case, line, m, im)
        return replies


def load_corpus(pid):
    """minimised past failures (cases with negative indices), run first on every run"""
    p = VERIF / 'corpus' / f'{pid}.json'
    return json.loads(p.read_text()) if p.exists() else []


def load_known(pid):
    p = VERIF / 'known_findings.json'
    if not p.exists():
        return []
    return [k for k in json.loads(p.read_text()).get('findings', []) if k.get('property') == pid]


def matches(finding, failure):
    if finding.get('status') != 'open':
        return False
    sig = failure.get('signature') or {}
    return all(sig.get(k) == v for k, v in finding.get('match', {}).items())


def jsonable(o):
    try:
        import numpy as np
        if isinstance(o, np.ndarray):
            return o.tolist()
        if isinstance(o, np.generic):
            return o.item()
    except Exception:
        pass
    if isinstance(o, (set, frozenset, tuple)):
        return list(o)
    if isinstance(o, pathlib.Path):
        return str(o)
    if isinstance(o, float) and o != o:
        return 'nan'
    from fractions import Fraction
    if isinstance(o, Fraction):
        return f'{o.numerator}/{o.denominator}'
    return repr(o)


def out_dir(proof):
    """where evidence and replays go: /verif for a real run (proof leg included, against /repo itself); a scratch directory
    for debugging runs (--no-proof) and for runs against another tree (VERIF_REPO = a seeded change), so that the committed
    evidence always describes /verif run against /repo"""
    if os.environ.get('VERIF_OUT'):
        return pathlib.Path(os.environ['VERIF_OUT'])
    if proof.theorems == ['(skipped)'] or REPO != pathlib.Path('/repo'):
        return pathlib.Path(tempfile.gettempdir()) / f'verif_scratch_out_{os.getpid()}'
    return VERIF


def finish(run: Run, proof: Proof, level='proof', note_partial=None) -> int:
    """decide, write evidence (+ replay on violation), print the protocol lines, return the exit status"""
    pid = run.pid
    known = load_known(pid)
    listed, unlisted = [], []
    for f in run.failures:
        hit = next((k for k in known if matches(k, f)), None)
        (listed if hit else unlisted).append((f, hit))
    printed = set()
    for f, k in listed:
        if k['id'] not in printed:
            printed.add(k['id'])
            print(f"KNOWN-FINDING: property={pid} {k['what']}")
    broken = []
    if not proof.ok:
        broken.append('proof')
    if run.disagreements:
        broken.append('correspondence')
    if not run.model_available:
        broken.append('model-driver')
    status = 0
    replay_path = None
    out = out_dir(proof)
    rdir0 = out / 'replays' / pid
    if rdir0.exists() and run.only is None:
        for old in rdir0.glob('*.json'):
            old.unlink()  # replays describe the latest run only
    if unlisted or broken:
        status = 1
        rdir = out / 'replays' / pid
        rdir.mkdir(parents=True, exist_ok=True)
        if unlisted:
            f = unlisted[0][0]
            kind = 'failing-input'
            body = dict(failure=f, other_failures=len(unlisted) - 1)
            name = f"fail_s{run.seed}_{run.tier}_{abs(hash(json.dumps(f['case'], default=jsonable, sort_keys=True))) % 10**8}"
        else:
            kind = 'broken-' + '+'.join(broken)
            body = dict(
                broken=broken, proof_errors=proof.errors[:5], forbidden=proof.forbidden[:10],
                theorems_not_discharged=[
                    t for t in proof.theorems if t not in proof.axioms or not set(proof.axioms[t]) <= ALLOWED_AXIOMS
                ] if proof.build_ok else proof.theorems,
                first_disagreements=run.disagreements[:5], disagreements=len(run.disagreements),
                searched=f'{run.evaluations} cases evaluated against the property predicate on the real code: none failed',
            )
            name = f"{kind}_s{run.seed}_{run.tier}"
        case = (unlisted[0][0]['case'] if unlisted else (run.disagreements[0]['case'] if run.disagreements else None))
        idx = case.get('i') if isinstance(case, dict) else None
        replay = dict(
            property=pid, kind=kind, seed=run.seed, tier=run.tier, case_index=idx,
            command=f"./check {pid} --replay replays/{pid}/{name}.json", **body
        )
        replay_path = rdir / f'{name}.json'
        replay_path.write_text(json.dumps(replay, indent=1, default=jsonable))
        tail = '' if unlisted else ' no-failing-input-found'
        shown = replay_path.relative_to(VERIF) if out == VERIF else replay_path
        print(f'VIOLATION property={pid} replay={shown}{tail}')
    coverage = dict(
        obligations=proof.obligations, discharged=proof.discharged,
        checker_cmd=f'cd lean && lake build Homonim.Props.{pid} && lake env lean .lake/audit/{pid}.lean  '
        f'(#print axioms of every theorem)' + ('; lake env leanchecker' if run.tier == 'thorough' else ''),
        trusted_base=TRUSTED_BASE, theorems={t: proof.axioms.get(t) for t in proof.theorems},
        evaluations=run.evaluations, distinct_nontrivial=len(run.nontrivial), rule=run.rule,
        samples=run.samples[:8] or ['(no cases generated)'], histogram=dict(run.hist),
        model_lines_compared=run.lines_compared, disagreements_checked=run.lines_compared,
        disagreements=len(run.disagreements), failing_inputs=len(run.failures),
        known_findings_reproduced=sorted(printed), proof_errors=proof.errors[:3], notes=run.notes, **run.extra
    )
    ev = dict(
        property_id=pid, tier=run.tier, seed=run.seed, level=level, coverage=coverage,
        assumptions=run.assumptions or TRUSTED_BASE[3:], wall_s=round(time.time() - run.t0, 2),
        violations=len(unlisted) + (1 if (broken and not unlisted) else 0)
    )
    (out / 'evidence').mkdir(parents=True, exist_ok=True)
    (out / 'evidence' / f'{pid}.json').write_text(json.dumps(ev, indent=1, default=jsonable))
    if run.tmp is not None:
        shutil.rmtree(run.tmp, ignore_errors=True)
    print(
        f'[{pid}] tier={run.tier} seed={run.seed} theorems={proof.discharged}/{proof.obligations} '
        f'cases={run.evaluations} nontrivial={len(run.nontrivial)} model-lines={run.lines_compared} '
        f'disagreements={len(run.disagreements)} failing-inputs={len(run.failures)} '
        f'(listed {len(listed)}) wall={ev["wall_s"]}s -> exit {status}'
    )
    return status
