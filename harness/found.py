"""
Inputs found by bug-hunting sub-agents (and kept as regression inputs): harness/found/<property>_demoN.py.

Each script builds its own small rasters in a temporary directory, exercises the real code through its public API or command
line from the current working directory (it puts os.getcwd() first on sys.path), prints what the property demands and what
happened, and exits 1 when the property is violated on that input, 0 when it holds.  `replay` runs every script of a property in
a child process whose working directory is the tree under test.  Exit status 1 is a failing input of the property (signature
`found-input` + the script's name: the genuine defects among them are listed in known_findings.json by that name; the repaired
ones exit 0 and are reported again if they ever return); any other non-zero status means the script itself broke - reported as a
failing input too, with its own signature, because the input is then no longer shown to be handled.
"""
import os
import pathlib
import subprocess
import sys

import common

DIR = pathlib.Path(__file__).resolve().parent / 'found'
BASE = 9_000_000


def scripts(pid):
    return sorted(DIR.glob(f'{pid}_demo*.py'))


def replay(run, pid):
    for k, path in enumerate(scripts(pid)):
        idx = BASE + k
        if run.only is not None and idx not in run.only:
            continue
        case = dict(i=idx, op='found input', script=path.name)
        # (the scripts make their rasters with `tempfile`: give each a directory inside the run's own, removed with it)
        tdir = run.tmpdir() / f'found_{k}'
        tdir.mkdir(exist_ok=True)
        env = dict(os.environ, TMPDIR=str(tdir))
        try:
            r = subprocess.run([sys.executable, '-W', 'ignore', str(path)], cwd=str(common.REPO), capture_output=True, text=True, timeout=600,
                               env=env)
            rc, out = r.returncode, (r.stdout + '\n' + r.stderr)
        except subprocess.TimeoutExpired:
            rc, out = -999, 'timed out after 600 s'
        run.evaluations += 1
        run.hist[f'found inputs replayed ({"violating" if rc == 1 else "holding" if rc == 0 else "broken"})'] += 1
        run.nontrivial.add(('found', path.name))
        lines = [l.strip() for l in out.splitlines() if l.strip() and 'WARNING' not in l and 'blocks [' not in l and 'Warning' not in l]
        tail = ' | '.join(lines[-4:])[-700:]
        if rc == 1:
            run.fail(case, f'{path.name}: {tail}', signature=dict(kind='found-input', script=path.stem))
        elif rc != 0:
            run.fail(case, f'{path.name} ended with status {rc}: {tail}', signature=dict(kind='found-input-broken', script=path.stem))
