"""
C01 demo 1: gain-offset parameters and R2 are far from the least-squares definition for ordinary 16 bit imagery
with high digital numbers and low local contrast (float32 cancellation in the N*Sxy - Sx*Sy kernel-sum formulae).

The source is a uint16 image (DN ~ 20000, +-40), the reference is *exactly* 0.5 * source + 1000 (also uint16).
In every window the data lie exactly on one line, so the definition gives gain == 0.5, offset == 1000, R2 == 1
at every pixel (and a float64 OLS confirms that).  All values are integers < 2**24, i.e. exactly representable in
float32, and the least-squares problem is well conditioned when centred.
"""
import os, sys, tempfile, warnings
sys.path.insert(0, os.getcwd())
import numpy as np
import rasterio as rio
from rasterio.crs import CRS
from rasterio.transform import from_origin

import homonim
from homonim import RasterFuse, KernelModel, Model
from homonim.raster_array import RasterArray

warnings.simplefilter('ignore')
print('homonim from', homonim.__file__)
KS = (5, 5)
rng = np.random.default_rng(1)
H = W = 48
src = (20000 + 2 * rng.integers(-20, 21, (H, W))).astype('uint16')      # even numbers 19960..20040
ref = (src // 2 + 1000).astype('uint16')                               # exactly 0.5 * src + 1000


def ols_definition(x, y, ks):
    """ float64 OLS + R2 over the (h x w) window centred on each pixel (all pixels valid). """
    x = x.astype('float64'); y = y.astype('float64')
    g = np.zeros(x.shape); c = np.zeros(x.shape); r2 = np.zeros(x.shape)
    for i in range(x.shape[0]):
        for j in range(x.shape[1]):
            sl = (slice(max(0, i - ks[0] // 2), i + ks[0] // 2 + 1), slice(max(0, j - ks[1] // 2), j + ks[1] // 2 + 1))
            xw, yw = x[sl].ravel(), y[sl].ravel()
            g[i, j] = ((xw - xw.mean()) * (yw - yw.mean())).sum() / ((xw - xw.mean()) ** 2).sum()
            c[i, j] = yw.mean() - g[i, j] * xw.mean()
            r2[i, j] = 1 - ((yw - g[i, j] * xw - c[i, j]) ** 2).sum() / ((yw - yw.mean()) ** 2).sum()
    return g, c, r2


g_def, c_def, r2_def = ols_definition(src, ref, KS)
print(f'definition (float64 OLS): gain in [{g_def.min():.6f}, {g_def.max():.6f}], offset in [{c_def.min():.3f}, '
      f'{c_def.max():.3f}], R2 in [{r2_def.min():.6f}, {r2_def.max():.6f}]')

# --- (a) directly through KernelModel.fit ---------------------------------------------------------------------
crs = CRS.from_epsg(32735)
tr = from_origin(500000, 7000000, 30, 30)
km = KernelModel(model=Model.gain_offset, kernel_shape=KS, find_r2=True, r2_inpaint_thresh=None)
p = km.fit(
    RasterArray(src.astype('float32'), crs, tr, nodata=float('nan')),
    RasterArray(ref.astype('float32'), crs, tr, nodata=float('nan')),
).array
print(f'KernelModel.fit         : gain in [{p[0].min():.6f}, {p[0].max():.6f}], offset in [{p[1].min():.3f}, '
      f'{p[1].max():.3f}], R2 in [{p[2].min():.6f}, {p[2].max():.6f}]')
gain_err_api = np.max(np.abs(p[0] - g_def) / np.abs(g_def))
r2_err_api = np.max(np.abs(p[2] - r2_def))

# --- (b) through the documented API: RasterFuse.process() with a parameter image --------------------------------
with tempfile.TemporaryDirectory() as tmp:
    prof = dict(driver='GTiff', width=W, height=H, count=1, dtype='uint16', crs=crs, transform=tr)
    src_file, ref_file = os.path.join(tmp, 'src.tif'), os.path.join(tmp, 'ref.tif')
    with rio.open(src_file, 'w', **prof) as ds:
        ds.write(src, 1)
    with rio.open(ref_file, 'w', **prof) as ds:
        ds.write(ref, 1)
    corr_file, param_file = os.path.join(tmp, 'corr.tif'), os.path.join(tmp, 'param.tif')
    with RasterFuse(src_file, ref_file) as fuse:
        fuse.process(
            corr_file, model=Model.gain_offset, kernel_shape=KS, param_filename=param_file, build_ovw=False,
            model_config=dict(r2_inpaint_thresh=None), block_config=dict(threads=1),
        )
    with rio.open(param_file) as ds:
        q = ds.read()
    with rio.open(corr_file) as ds:
        corr = ds.read(1)
print(f'RasterFuse param image  : gain in [{np.nanmin(q[0]):.6f}, {np.nanmax(q[0]):.6f}], offset in '
      f'[{np.nanmin(q[1]):.3f}, {np.nanmax(q[1]):.3f}], R2 in [{np.nanmin(q[2]):.6f}, {np.nanmax(q[2]):.6f}]')
gain_err_fuse = np.nanmax(np.abs(q[0] - g_def) / np.abs(g_def))
r2_err_fuse = np.nanmax(np.abs(q[2] - r2_def))

print(f'max relative gain error: KernelModel.fit {gain_err_api:.3g}, RasterFuse {gain_err_fuse:.3g}   '
      f'(float32 eps is 1.2e-7)')
print(f'max absolute R2 error  : KernelModel.fit {r2_err_api:.3g}, RasterFuse {r2_err_fuse:.3g};  '
      f'pixels with R2 > 1.01 (impossible for OLS): {int((p[2] > 1.01).sum())} of {p[2].size}')

violated = (gain_err_api > 0.01) or (r2_err_api > 0.01) or (gain_err_fuse > 0.01) or (r2_err_fuse > 0.01)
print('VIOLATION' if violated else 'no violation')
sys.exit(1 if violated else 0)
