"""
C01 demo 2: one non-finite (inf / NaN) but *valid* pixel corrupts the parameters of pixels whose kernel window does
not contain it.

The reference is a float32 image with nodata=-9999 that holds a single +inf (or NaN) pixel (e.g. a division by zero in
the product that was not flagged as nodata).  GDAL, rasterio and homonim's RasterArray.mask all treat that pixel as
valid.  By the definition, only the kernel windows that contain the pixel (at most kernel_h x kernel_w of them) can be
affected: every other jointly valid pixel has a window of finite values, and so a finite ratio-of-sums / OLS solution.
The real code returns NaN gains / offsets / R2 for large parts of the block (everything to the right of and below the
bad pixel), which RasterFuse writes as nodata holes in the corrected image.
"""
import os, sys, tempfile, warnings
sys.path.insert(0, os.getcwd())
import numpy as np
import rasterio as rio
from rasterio.crs import CRS
from rasterio.transform import from_origin

import homonim
from homonim import RasterFuse, KernelModel, Model
from homonim.raster_array import RasterArray

warnings.simplefilter('ignore')
print('homonim from', homonim.__file__)
KS = (3, 5)     # (height, width)
H, W = 20, 24
BAD_RC = (4, 6)
rng = np.random.default_rng(3)
src0 = rng.uniform(20, 200, (H, W)).astype('float32')
ref0 = (0.004 * src0 + 0.05 + rng.normal(0, 0.01, (H, W))).astype('float32')
crs = CRS.from_epsg(32735)
tr = from_origin(500000, 7000000, 30, 30)
ii, jj = np.mgrid[:H, :W]
# pixels whose (h x w) window contains the bad pixel
in_win = (np.abs(ii - BAD_RC[0]) <= KS[0] // 2) & (np.abs(jj - BAD_RC[1]) <= KS[1] // 2)


def definition(x, y, ks, model):
    """ float64 definition over the window centred on each pixel (all pixels are valid here). """
    x = x.astype('float64'); y = y.astype('float64')
    g = np.full(x.shape, np.nan); c = np.full(x.shape, np.nan); r2 = np.full(x.shape, np.nan)
    with np.errstate(all='ignore'):
        for i in range(x.shape[0]):
            for j in range(x.shape[1]):
                sl = (slice(max(0, i - ks[0] // 2), i + ks[0] // 2 + 1), slice(max(0, j - ks[1] // 2), j + ks[1] // 2 + 1))
                xw, yw = x[sl].ravel(), y[sl].ravel()
                if model == Model.gain:
                    g[i, j], c[i, j] = yw.sum() / xw.sum(), 0
                else:
                    g[i, j] = ((xw - xw.mean()) * (yw - yw.mean())).sum() / ((xw - xw.mean()) ** 2).sum()
                    c[i, j] = yw.mean() - g[i, j] * xw.mean()
                r2[i, j] = 1 - ((yw - g[i, j] * xw - c[i, j]) ** 2).sum() / ((yw - yw.mean()) ** 2).sum()
    return np.stack((g, c, r2))


violated = False
for bad in (np.inf, np.nan):
    ref = ref0.copy()
    ref[BAD_RC] = bad
    for model in (Model.gain, Model.gain_offset):
        d = definition(src0, ref, KS, model)
        assert np.isfinite(d[:, ~in_win]).all()     # the definition is finite outside the windows of the bad pixel
        km = KernelModel(model=model, kernel_shape=KS, find_r2=True, r2_inpaint_thresh=None)
        ref_ra = RasterArray(ref.copy(), crs, tr, nodata=-9999.)
        assert ref_ra.mask.all()                    # the bad pixel is a valid pixel for homonim
        p = km.fit(RasterArray(src0.copy(), crs, tr, nodata=-9999.), ref_ra).array.astype('float64')
        with np.errstate(all='ignore'):
            wrong = ~in_win & (~np.isfinite(p).all(axis=0) | (np.abs(p[0] - d[0]) > 1e-3 * np.abs(d[0])))
            wrong_gain = ~in_win & (~np.isfinite(p[0]) | (np.abs(p[0] - d[0]) > 1e-3 * np.abs(d[0])))
        print(f'KernelModel.fit, ref[{BAD_RC}]={bad}, {model.value}, kernel {KS}: windows containing the bad pixel: '
              f'{int(in_win.sum())};  pixels OUTSIDE those windows with wrong / non-finite gain: {int(wrong_gain.sum())}, '
              f'with any wrong / non-finite parameter (gain, offset, R2): {int(wrong.sum())}, of {int((~in_win).sum())}  '
              f'(property demands 0)')
        if wrong.any():
            r, c_ = np.argwhere(wrong_gain if wrong_gain.any() else wrong)[-1]
            print(f'    e.g. pixel ({r},{c_}), {abs(r - BAD_RC[0])} rows / {abs(c_ - BAD_RC[1])} cols away: '
                  f'definition gain={d[0, r, c_]:.6f} R2={d[2, r, c_]:.4f};  fitted gain={p[0, r, c_]} R2={p[2, r, c_]}')
        violated |= bool(wrong.any())

# the same through the documented API (RasterFuse.process), with the +inf pixel in the reference file
with tempfile.TemporaryDirectory() as tmp:
    prof = dict(driver='GTiff', width=W, height=H, count=1, dtype='float32', crs=crs, transform=tr, nodata=-9999.)
    src_file, ref_file = os.path.join(tmp, 'src.tif'), os.path.join(tmp, 'ref.tif')
    ref = ref0.copy()
    ref[BAD_RC] = np.inf
    with rio.open(src_file, 'w', **prof) as ds:
        ds.write(src0, 1)
    with rio.open(ref_file, 'w', **prof) as ds:
        ds.write(ref, 1)
    corr_file, param_file = os.path.join(tmp, 'corr.tif'), os.path.join(tmp, 'param.tif')
    with RasterFuse(src_file, ref_file) as fuse:
        fuse.process(
            corr_file, model=Model.gain, kernel_shape=KS, param_filename=param_file, build_ovw=False,
            block_config=dict(threads=1),
        )
    with rio.open(param_file) as ds:
        q = ds.read()
    with rio.open(corr_file) as ds:
        corr_mask = ds.dataset_mask().astype(bool)
d = definition(src0, ref, KS, Model.gain)
with np.errstate(all='ignore'):
    wrong = ~in_win & (~np.isfinite(q[0]) | (np.abs(q[0] - d[0]) > 1e-3 * np.abs(d[0])))
print(f'RasterFuse.process (gain, ref has one +inf pixel): parameter image pixels outside the bad pixel\'s windows with '
      f'wrong / NaN gain: {int(wrong.sum())} of {int((~in_win).sum())};  nodata pixels in the corrected image: '
      f'{int((~corr_mask).sum())} of {corr_mask.size} (source has none)')
violated |= bool(wrong.any())

print('VIOLATION' if violated else 'no violation')
sys.exit(1 if violated else 0)
