"""
C01 demo 3: blocks held in integer arrays give silently wrong parameters.

RasterArray accepts an array of any dtype (it has a `dtype` property, and its own reproject(dtype=...) produces non
float32 RasterArrays), and KernelModel.fit() documents no dtype restriction.  A user that wraps the arrays returned by
rasterio's `dataset.read()` of 8 / 16 bit files (instead of using RasterArray.from_rio_dataset(), which converts to
float32) gets gains / offsets / R2 that have nothing to do with the definition, without any error or warning: the
kernel sums are found with cv.boxFilter(..., ddepth=-1), i.e. in the dtype of the input, and saturate (and the
src * ref product wraps around).
"""
import os, sys, tempfile, warnings
sys.path.insert(0, os.getcwd())
import numpy as np
import rasterio as rio
from rasterio.crs import CRS
from rasterio.transform import from_origin

import homonim
from homonim import KernelModel, Model
from homonim.raster_array import RasterArray

warnings.simplefilter('ignore')
print('homonim from', homonim.__file__)
KS = (3, 5)
H, W = 16, 20
rng = np.random.default_rng(5)
crs = CRS.from_epsg(32735)
tr = from_origin(500000, 7000000, 30, 30)


def definition(x, y, mask, ks, model):
    """ float64 definition over the jointly valid pixels of the window centred on each jointly valid pixel. """
    x = x.astype('float64'); y = y.astype('float64')
    out = np.full((3, *x.shape), np.nan)
    for i, j in np.argwhere(mask):
        sl = (slice(max(0, i - ks[0] // 2), i + ks[0] // 2 + 1), slice(max(0, j - ks[1] // 2), j + ks[1] // 2 + 1))
        xw, yw = x[sl][mask[sl]], y[sl][mask[sl]]
        if model == Model.gain:
            g, c = yw.sum() / xw.sum(), 0
        else:
            g = ((xw - xw.mean()) * (yw - yw.mean())).sum() / ((xw - xw.mean()) ** 2).sum()
            c = yw.mean() - g * xw.mean()
        out[:, i, j] = g, c, 1 - ((yw - g * xw - c) ** 2).sum() / ((yw - yw.mean()) ** 2).sum()
    return out


violated = False
with tempfile.TemporaryDirectory() as tmp:
    for dtype, lo, hi in (('uint8', 30, 220), ('uint16', 500, 9000)):
        src = rng.integers(lo, hi, (H, W)).astype(dtype)
        ref = np.clip(0.6 * src + 0.05 * hi + rng.normal(0, 0.02 * hi, (H, W)), 1, None).astype(dtype)
        src[5:7, 8:11] = 0        # a nodata hole
        prof = dict(driver='GTiff', width=W, height=H, count=1, dtype=dtype, crs=crs, transform=tr, nodata=0)
        for name, a in (('src', src), ('ref', ref)):
            with rio.open(os.path.join(tmp, f'{name}_{dtype}.tif'), 'w', **prof) as ds:
                ds.write(a, 1)

        for model in (Model.gain, Model.gain_offset):
            def blocks(as_float):
                ras = []
                for name in ('src', 'ref'):
                    with rio.open(os.path.join(tmp, f'{name}_{dtype}.tif')) as ds:
                        a = ds.read(1)                                          # dtype of the file
                        a = a.astype('float32') if as_float else a
                        ras.append(RasterArray(a, ds.crs, ds.transform, nodata=ds.nodata))
                return ras

            km = KernelModel(model=model, kernel_shape=KS, find_r2=True, r2_inpaint_thresh=None)
            src_ra, ref_ra = blocks(as_float=False)
            mask = src_ra.mask & ref_ra.mask
            d = definition(src, ref, mask, KS, model)
            p_int = km.fit(src_ra, ref_ra).array.astype('float64')
            p_flt = km.fit(*blocks(as_float=True)).array.astype('float64')
            with np.errstate(all='ignore'):
                err_int = np.nanmax(np.abs(p_int[0] - d[0])[mask] / np.abs(d[0][mask]))
                err_flt = np.nanmax(np.abs(p_flt[0] - d[0])[mask] / np.abs(d[0][mask]))
                r2_int = np.nanmax(np.abs(p_int[2] - d[2])[mask])
                r2_flt = np.nanmax(np.abs(p_flt[2] - d[2])[mask])
            print(f'{dtype:6s} {model.value:11s}: definition gain in [{np.nanmin(d[0]):.4f}, {np.nanmax(d[0]):.4f}];  '
                  f'fit on {dtype} blocks: gain in [{np.nanmin(p_int[0]):.4f}, {np.nanmax(p_int[0]):.4f}], max rel. gain '
                  f'error {err_int:.3g}, max R2 error {r2_int:.3g};  same data as float32 blocks: max rel. gain error '
                  f'{err_flt:.3g}, max R2 error {r2_flt:.3g}')
            violated |= bool(err_int > 0.01 or r2_int > 0.01)

print('VIOLATION' if violated else 'no violation')
sys.exit(1 if violated else 0)
