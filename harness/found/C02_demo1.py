"""
C02 demo 1: a patch of valid, zero-valued source pixels is written as nodata.

Input: a uint8 source (nodata given by an internal mask, so 0 is a VALID value) that holds a dark patch of
zeros (deep shadow / water) larger than the kernel.  The reference is exactly a*x + b, where x is the source on the
reference grid (grids aligned, 2x2 source pixels per reference pixel, so x is the plain 2x2 block mean).

Property C02 demands: corrected == a*source + b at EVERY valid source pixel (== b inside the zero patch).
What happens: all three models write nodata (nan) at the valid source pixels in the interior of the patch.

Run with cwd = the homonim checkout.  Exit code 1 when the violation occurs, 0 otherwise.
"""
import os
import sys
import tempfile
import warnings

sys.path.insert(0, os.getcwd())
import numpy as np
import rasterio as rio
from rasterio.transform import Affine

import homonim
from homonim import RasterFuse, Model

warnings.simplefilter('ignore')
print('homonim from', homonim.__file__)

CRS = 'EPSG:32735'
H, W, RATIO, PAD = 60, 60, 2, 3


def write(path, arr, transform, dtype, nodata=None, mask=None):
    with rio.Env(GDAL_TIFF_INTERNAL_MASK=True):
        with rio.open(
            path, 'w', driver='GTiff', width=arr.shape[1], height=arr.shape[0], count=1, dtype=dtype, crs=CRS,
            transform=transform, nodata=nodata
        ) as ds:
            ds.write(arr.astype(dtype), 1)
            if mask is not None:
                ds.write_mask(mask)


def main():
    rng = np.random.default_rng(1)
    tmp = tempfile.mkdtemp(prefix='c02_demo1_')
    src = rng.integers(1, 255, (H, W)).astype('float64')
    src[10:40, 10:40] = 0  # valid, zero-valued (dark) patch of 30 x 30 source = 15 x 15 reference pixels
    src_tf = Affine(1, 0, 1000, 0, -1, 6000)
    src_file = os.path.join(tmp, 'src.tif')
    # every source pixel is valid: the validity is given by an (all-valid) internal mask, there is no nodata value
    write(src_file, src, src_tf, 'uint8', mask=np.ones((H, W), 'uint8') * 255)

    # x = source on the (aligned) reference grid = 2 x 2 block mean
    x = src.reshape(H // RATIO, RATIO, W // RATIO, RATIO).mean(axis=(1, 3))
    ref_tf = Affine(RATIO, 0, 1000 - PAD * RATIO, 0, -RATIO, 6000 + PAD * RATIO)

    violated = False
    for model, a, b in [(Model.gain, 1.5, 0.), (Model.gain_blk_offset, 1.5, 0.), (Model.gain_offset, 1.5, 3.)]:
        ref = np.full((H // RATIO + 2 * PAD, W // RATIO + 2 * PAD), np.nan, 'float32')
        ref[PAD:-PAD, PAD:-PAD] = a * x + b  # the reference is exactly a*x + b wherever the source exists
        ref_file = os.path.join(tmp, f'ref_{model.name}.tif')
        write(ref_file, ref, ref_tf, 'float32', nodata=float('nan'))
        corr_file = os.path.join(tmp, f'corr_{model.name}.tif')
        with RasterFuse(src_file, ref_file) as fuse:
            fuse.process(
                corr_file, model=model, kernel_shape=(5, 5), overwrite=True, block_config=dict(threads=1)
            )
        with rio.open(corr_file) as ds:
            corr = ds.read(1).astype('float64')
            valid = ds.dataset_mask().astype(bool) & np.isfinite(corr)
        exp = a * src + b
        n_missing = int((~valid).sum())
        max_err = float(np.abs(corr[valid] - exp[valid]).max())
        print(
            f'model={model.value:16s} a={a} b={b}: demanded {H * W} valid output pixels == a*src+b '
            f'(== {b} in the zero patch); got {n_missing} valid source pixels written as nodata '
            f'(rows {np.where(~valid)[0].min() if n_missing else "-"}..{np.where(~valid)[0].max() if n_missing else "-"}),'
            f' max abs error elsewhere {max_err:.2e}'
        )
        violated |= n_missing > 0 or max_err > 1e-2
    print('VIOLATION' if violated else 'no violation')
    return 1 if violated else 0


if __name__ == '__main__':
    sys.exit(main())
