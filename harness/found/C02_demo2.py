"""
C02 demo 2: gain-offset model - the interior of a large constant (saturated / flat) source patch is written as nodata.

Input: a uint16 source, all pixels valid, with a flat patch (all pixels == 1000, e.g. a saturated or masked-and-filled
area) of 280 x 280 pixels.  Source and reference have the same pixel grid (resolution ratio 1, no offset) so that x,
the source on the processing grid, is the source itself; the reference is exactly a*x + b.

Property C02 demands: corrected == a*source + b at every valid source pixel (== a*1000 + b in the flat patch).
What happens with model=gain-offset (default model configuration): pixels of the patch further than ~100 pixels from
its border are written as nodata (nan).  With r2_inpaint_thresh=None (in-painting off) the same pixels are nodata too
(0/0 gain), i.e. there is no configuration of this model that recovers the relation there.

Run with cwd = the homonim checkout.  Exit code 1 when the violation occurs, 0 otherwise.
"""
import os
import sys
import tempfile
import warnings

sys.path.insert(0, os.getcwd())
import numpy as np
import rasterio as rio
from rasterio.transform import Affine

import homonim
from homonim import RasterFuse, Model

warnings.simplefilter('ignore')
print('homonim from', homonim.__file__)

CRS = 'EPSG:32735'
N, PAD = 320, 4


def write(path, arr, transform, dtype, nodata=None):
    with rio.open(
        path, 'w', driver='GTiff', width=arr.shape[1], height=arr.shape[0], count=1, dtype=dtype, crs=CRS,
        transform=transform, nodata=nodata
    ) as ds:
        ds.write(arr.astype(dtype), 1)


def main():
    rng = np.random.default_rng(2)
    tmp = tempfile.mkdtemp(prefix='c02_demo2_')
    a, b = 1.5, 3.
    src = rng.integers(1, 2000, (N, N)).astype('float64')
    src[20:300, 20:300] = 1000  # flat patch, 280 x 280 pixels
    src_tf = Affine(10, 0, 1000, 0, -10, 9000)
    src_file = os.path.join(tmp, 'src.tif')
    write(src_file, src, src_tf, 'uint16')  # no nodata, no mask: every pixel is valid

    ref = np.full((N + 2 * PAD, N + 2 * PAD), np.nan, 'float32')
    ref[PAD:-PAD, PAD:-PAD] = a * src + b  # same grid: x == source, the reference is exactly a*x + b
    ref_tf = Affine(10, 0, 1000 - PAD * 10, 0, -10, 9000 + PAD * 10)
    ref_file = os.path.join(tmp, 'ref.tif')
    write(ref_file, ref, ref_tf, 'float32', nodata=float('nan'))

    exp = a * src + b
    violated = False
    for model_config in [None, dict(r2_inpaint_thresh=None)]:
        corr_file = os.path.join(tmp, 'corr.tif')
        with RasterFuse(src_file, ref_file) as fuse:
            fuse.process(
                corr_file, model=Model.gain_offset, kernel_shape=(5, 5), overwrite=True, model_config=model_config,
                block_config=dict(threads=1)
            )
        with rio.open(corr_file) as ds:
            corr = ds.read(1).astype('float64')
            valid = ds.dataset_mask().astype(bool) & np.isfinite(corr)
        n_missing = int((~valid).sum())
        max_err = float(np.abs(corr[valid] - exp[valid]).max())
        rows = np.where((~valid).any(axis=1))[0]
        print(
            f'model=gain-offset model_config={model_config}: demanded {N * N} valid output pixels == {a}*src+{b} '
            f'(== {a * 1000 + b} in the flat patch); got {n_missing} valid source pixels written as nodata '
            f'(rows/cols {rows.min() if n_missing else "-"}..{rows.max() if n_missing else "-"}), '
            f'max abs error elsewhere {max_err:.2e}'
        )
        if model_config is None:
            violated |= n_missing > 0 or max_err > 1e-1
    print('VIOLATION' if violated else 'no violation')
    return 1 if violated else 0


if __name__ == '__main__':
    sys.exit(main())
