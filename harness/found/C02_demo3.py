"""
C02 demo 3: a non-default `downsampling` method (a documented model_config / CLI option) breaks the property in two ways.

The source (1 m pixels, all valid) is 4x finer than the reference (4 m pixels), proc_crs is the default (auto -> ref).
x, "the source as seen on the processing grid", is found exactly as the package finds it for a one block image: the
source is read through homonim.raster_array.RasterArray and re-projected to the reference grid with the configured
`downsampling` method.  The reference is a*x + b wherever x exists (nodata elsewhere).

Part A (downsampling=bilinear, sub-pixel grid offset, ONE block):
  C02 demands corrected == a*source + b at every valid source pixel.  Border reference pixels that are only partly
  covered by the source get no x (GDAL's kernel resamplers want the pixel centre inside valid source data), so no
  parameters, and the valid source pixels in the first row / column(s) are written as nodata.  (With the default
  downsampling=average, the same geometry loses no pixel.)

Part B (downsampling=cubic, grids aligned so that part A does not occur, 1 block vs many blocks):
  C02 demands the same corrected image for every block size.  With one block the relation is recovered to ~1e-5; with a
  small max_block_mem the very same files give errors of ~1% of the data range: the source block that is read for a
  reference block is not padded for the footprint of the resampling kernel, so x near the block edges differs from x of
  the whole image.

Run with cwd = the homonim checkout.  Exit code 1 when a violation occurs, 0 otherwise.
"""
import os
import sys
import tempfile
import warnings

sys.path.insert(0, os.getcwd())
import numpy as np
import rasterio as rio
from rasterio.enums import Resampling
from rasterio.transform import Affine

import homonim
from homonim import RasterFuse, Model, utils
from homonim.raster_array import RasterArray

warnings.simplefilter('ignore')
print('homonim from', homonim.__file__)

CRS = rio.crs.CRS.from_epsg(32735)


def write(path, arr, transform, dtype, nodata=None):
    with rio.open(
        path, 'w', driver='GTiff', width=arr.shape[1], height=arr.shape[0], count=1, dtype=dtype, crs=CRS,
        transform=transform, nodata=nodata
    ) as ds:
        ds.write(arr.astype(dtype), 1)


def make_ref(src_file, ref_file, ref_tf, ref_shape, a, b, downsampling):
    """ reference = a*x + b, with x the source re-projected to the reference grid as homonim does it. """
    with rio.Env(GDAL_NUM_THREADS=1), rio.open(src_file) as ds:
        ref_bounds = rio.transform.array_bounds(*ref_shape, ref_tf)
        win = utils.expand_window_to_grid(ds.window(*ref_bounds))  # boundless source window covering the reference
        src_ra = RasterArray.from_rio_dataset(ds, indexes=1, window=win)
        x_ra = src_ra.reproject(crs=CRS, transform=ref_tf, shape=ref_shape, resampling=downsampling)
    ref = (a * x_ra.array.astype('float64') + b).astype('float32')
    ref[~x_ra.mask] = np.nan
    write(ref_file, ref, ref_tf, 'float32', nodata=float('nan'))


def fuse(src_file, ref_file, corr_file, downsampling, max_block_mem, model=Model.gain_offset):
    with RasterFuse(src_file, ref_file) as f:
        n_blocks = len(list(f.block_pairs(overlap=utils.overlap_for_kernel((5, 5)), max_block_mem=max_block_mem)))
        f.process(
            corr_file, model=model, kernel_shape=(5, 5), overwrite=True, model_config=dict(downsampling=downsampling),
            block_config=dict(threads=2, max_block_mem=max_block_mem)
        )
    with rio.open(corr_file) as ds:
        corr = ds.read(1).astype('float64')
        valid = ds.dataset_mask().astype(bool) & np.isfinite(corr)
    return corr, valid, n_blocks


def main():
    rng = np.random.default_rng(3)
    tmp = tempfile.mkdtemp(prefix='c02_demo3_')
    a, b = 1.5, 3.
    h, w = 120, 160
    src = rng.integers(50, 200, (h, w)).astype('float64')
    src_tf = Affine(1, 0, 1000, 0, -1, 6000)
    src_file = os.path.join(tmp, 'src.tif')
    write(src_file, src, src_tf, 'uint8')  # no nodata / mask: every pixel is valid
    exp = a * src + b
    rng_exp = exp.max() - exp.min()
    violated = False

    # ---- part A: bilinear down-sampling, reference grid offset by (1.5, 2.5) source pixels, one block
    print('Part A: sub-pixel grid offset, one block')
    ref_tf = Affine(4, 0, 1000 - 8 - 1.5, 0, -4, 6000 + 8 + 2.5)
    ref_shape = (h // 4 + 5, w // 4 + 5)
    for ds_method in [Resampling.average, Resampling.bilinear]:
        ref_file = os.path.join(tmp, f'refA_{ds_method.name}.tif')
        make_ref(src_file, ref_file, ref_tf, ref_shape, a, b, ds_method)
        corr, valid, n_blocks = fuse(src_file, ref_file, os.path.join(tmp, 'corrA.tif'), ds_method, 100)
        n_missing = int((~valid).sum())
        err = float(np.abs(corr[valid] - exp[valid]).max() / rng_exp)
        lost_rows = np.where(~valid.any(axis=1))[0].tolist()
        lost_cols = np.where(~valid.any(axis=0))[0].tolist()
        print(
            f'  downsampling={ds_method.name:9s} blocks={n_blocks}: demanded {h * w} valid pixels == a*src+b; got '
            f'{n_missing} valid source pixels written as nodata (whole rows {lost_rows}, whole cols {lost_cols}), '
            f'max error elsewhere {err:.1e} of range'
        )
        if ds_method != Resampling.average:
            violated |= n_missing > 0

    # ---- part B: cubic down-sampling, aligned grids, one block vs many blocks
    print('Part B: aligned grids, one block vs many blocks on the same files')
    ref_tf = Affine(4, 0, 1000 - 8, 0, -4, 6000 + 8)
    ref_shape = (h // 4 + 4, w // 4 + 4)
    for ds_method in [Resampling.average, Resampling.cubic]:
        ref_file = os.path.join(tmp, f'refB_{ds_method.name}.tif')
        make_ref(src_file, ref_file, ref_tf, ref_shape, a, b, ds_method)
        errs = []
        for max_block_mem in [100, 5e-3]:
            corr, valid, n_blocks = fuse(src_file, ref_file, os.path.join(tmp, 'corrB.tif'), ds_method, max_block_mem)
            n_missing = int((~valid).sum())
            err = float(np.abs(corr[valid] - exp[valid]).max() / rng_exp)
            errs.append(err)
            print(
                f'  downsampling={ds_method.name:9s} max_block_mem={max_block_mem:<6} blocks={n_blocks:3d}: '
                f'demanded corrected == a*src+b; got max error {err:.1e} of range '
                f'({err * rng_exp:.3f} DN), {n_missing} pixels missing'
            )
        if ds_method != Resampling.average:
            violated |= (errs[0] < 1e-3) and (errs[1] > 3e-3)
    print('VIOLATION' if violated else 'no violation')
    return 1 if violated else 0


if __name__ == '__main__':
    sys.exit(main())
