"""
C03 demo 1: valid source pixels are LOST along nodata borders when the source is brought to the reference grid with a
non-averaging kernel (downsampling='bilinear' or 'nearest' - both non-negative kernels the property names explicitly;
or the default cubic_spline when proc_crs='ref' is combined with source pixels that are finer than the reference along
one axis and coarser along the other).

Run with cwd = the homonim checkout:  /venv/bin/python /tmp/hunt_C03_out/demo1.py
Exit code 1 = the property is violated, 0 = it holds.
"""
import os
import sys
import tempfile
import warnings
import logging
import io
import contextlib

sys.path.insert(0, os.getcwd())
import numpy as np
import rasterio as rio
from rasterio import Affine
import homonim
from homonim import RasterFuse, Model, ProcCrs

warnings.simplefilter('ignore')
logging.getLogger('homonim').setLevel(logging.ERROR)
print('homonim from', homonim.__file__)


def write(path, array, transform, nodata):
    profile = dict(
        driver='GTiff', width=array.shape[1], height=array.shape[0], count=1, dtype=array.dtype.name,
        crs='EPSG:32735', transform=transform, nodata=nodata
    )
    with rio.open(path, 'w', **profile) as ds:
        ds.write(array, 1)


def fuse(src, ref, out, **kwargs):
    model_config = kwargs.pop('model_config', None)
    proc_crs = kwargs.pop('proc_crs', ProcCrs.auto)
    with contextlib.redirect_stderr(io.StringIO()):  # hide the progress bar
        with RasterFuse(src, ref, proc_crs=proc_crs) as raster_fuse:
            raster_fuse.process(
                out, model=Model.gain_blk_offset, kernel_shape=(5, 5), build_ovw=False, overwrite=True,
                model_config=model_config, block_config=dict(threads=1)
            )


def masks(src, out):
    with rio.open(src) as s, rio.open(out) as o:
        assert s.shape == o.shape and s.transform == o.transform
        return s.dataset_mask().astype(bool), o.dataset_mask().astype(bool)


tmp = tempfile.mkdtemp()
rng = np.random.default_rng(0)
violated = False

# ----------------------------------------------------------------------------------------------------------------------
# Case A/B: 1 m source with a nodata border inside a 10 m reference that is valid everywhere.  All data positive.
ref_file, src_file, out_file = f'{tmp}/ref.tif', f'{tmp}/src.tif', f'{tmp}/out.tif'
write(ref_file, rng.uniform(100, 200, (30, 30)).astype('float32'), Affine(10, 0, 0, 0, -10, 300), nodata=None)
src = rng.uniform(50, 100, (200, 200)).astype('float32')
src[:13] = 0; src[-17:] = 0; src[:, :23] = 0; src[:, -8:] = 0  # nodata border, not aligned with the 10 m grid
write(src_file, src, Affine(1, 0, 50, 0, -1, 250), nodata=0)

print('\nProperty: every valid source pixel must be valid in the corrected image (reference valid everywhere, positive '
      'data, non-negative resampling kernels: the defaults, nearest, bilinear).')
for downsampling in ['average', 'bilinear', 'nearest']:
    fuse(src_file, ref_file, out_file, model_config=dict(downsampling=downsampling))
    sm, om = masks(src_file, out_file)
    lost, invented = sm & ~om, om & ~sm
    rows, cols = np.where(lost)
    where = f' (rows {rows.min()}..{rows.max()}, cols {cols.min()}..{cols.max()})' if lost.any() else ''
    print(f'downsampling={downsampling:9s}: valid source pixels {sm.sum()}, valid corrected pixels {om.sum()}, '
          f'LOST {lost.sum()}{where}, invented {invented.sum()}')
    if downsampling != 'average' and lost.any():
        violated = True
        full_cols = [int(c) for c in np.unique(cols) if lost[:, c].sum() == sm[:, c].sum()]
        full_rows = [int(r) for r in np.unique(rows) if lost[r].sum() == sm[r].sum()]
        print(f'   source columns lost entirely: {full_cols}, source rows lost entirely: {full_rows} (the valid slivers '
              f'of the 10 m reference pixels whose centre falls on source nodata)')

# ----------------------------------------------------------------------------------------------------------------------
# Case C: all resampling at the DEFAULTS (average / cubic_spline).  Source pixels are 13 m x 101 m (e.g. radar like
# geometry): finer than the 33 m reference in x, coarser in y, larger in area.  proc_crs='ref' is requested explicitly.
ref_file2, src_file2 = f'{tmp}/ref2.tif', f'{tmp}/src2.tif'
write(ref_file2, rng.uniform(100, 200, (74, 24)).astype('float32'), Affine(33, 0, 6000000, 0, -33, 6033198), nodata=None)
src = rng.integers(50, 100, (20, 26)).astype('int16')
src[:5] = -32768; src[-1:] = -32768; src[:, :4] = -32768; src[:, -3:] = -32768
write(src_file2, src, Affine(13.05, 0, 6000229.02, 0, -101.09, 6032987.31), nodata=-32768)
fuse(src_file2, ref_file2, out_file, proc_crs=ProcCrs.ref)
sm, om = masks(src_file2, out_file)
lost, invented = sm & ~om, om & ~sm
print(f'\ndefault resampling, proc_crs=ref, 13 m x 101 m source pixels on a 33 m reference: valid source pixels '
      f'{sm.sum()}, valid corrected pixels {om.sum()}, LOST {lost.sum()} (source columns '
      f'{sorted(set(np.where(lost)[1].tolist()))}), invented {invented.sum()}')
if lost.any():
    violated = True

print('\nVIOLATION: valid source pixels next to nodata are nodata in the corrected image.' if violated
      else '\nNo violation.')
sys.exit(1 if violated else 0)
