"""
C03 demo 2: valid source pixels are LOST when the valid source data of a processing block have zero variance
(constant / saturated source), with the DEFAULT model (gain-blk-offset) and all other settings at their defaults.
The gain-offset model loses pixels on constant data too.

Run with cwd = the homonim checkout:  /venv/bin/python /tmp/hunt_C03_out/demo2.py
Exit code 1 = the property is violated, 0 = it holds.
"""
import os
import sys
import tempfile
import warnings
import logging
import io
import contextlib

sys.path.insert(0, os.getcwd())
import numpy as np
import rasterio as rio
from rasterio import Affine
import homonim
from homonim import RasterFuse, Model

warnings.simplefilter('ignore')
logging.getLogger('homonim').setLevel(logging.ERROR)
print('homonim from', homonim.__file__)


def write(path, array, transform, nodata):
    profile = dict(
        driver='GTiff', width=array.shape[1], height=array.shape[0], count=1, dtype=array.dtype.name,
        crs='EPSG:32735', transform=transform, nodata=nodata
    )
    with rio.open(path, 'w', **profile) as ds:
        ds.write(array, 1)


def fuse(src, ref, out, model=Model.gain_blk_offset, block_config=None):
    with contextlib.redirect_stderr(io.StringIO()):  # hide the progress bar
        with RasterFuse(src, ref) as raster_fuse:
            n_blocks = len(list(raster_fuse.block_pairs(
                overlap=(3, 3), max_block_mem=RasterFuse.create_block_config(**(block_config or {}))['max_block_mem']
            )))
            raster_fuse.process(
                out, model=model, kernel_shape=(5, 5), build_ovw=False, overwrite=True, block_config=block_config
            )
    return n_blocks


def masks(src, out):
    with rio.open(src) as s, rio.open(out) as o:
        assert s.shape == o.shape and s.transform == o.transform
        return s.dataset_mask().astype(bool), o.dataset_mask().astype(bool)


tmp = tempfile.mkdtemp()
rng = np.random.default_rng(0)
violated = False
ref_file, src_file, out_file = f'{tmp}/ref.tif', f'{tmp}/src.tif', f'{tmp}/out.tif'
# 10 m reference, valid everywhere, positive
write(ref_file, rng.uniform(100, 200, (50, 50)).astype('float32'), Affine(10, 0, 0, 0, -10, 500), nodata=None)

print('\nProperty: every valid source pixel must be valid in the corrected image (reference valid everywhere, positive '
      'data, default resampling).')

# ----------------------------------------------------------------------------------------------------------------------
# Case A: 8 bit 1 m source (nodata=0) whose upper half is saturated at 255 (cloud / snow / over-exposure).  Processed in
# small blocks (max_block_mem), so that some blocks see saturated pixels only.
src = rng.integers(40, 200, (400, 400)).astype('uint8')
src[:200] = 255
write(src_file, src, Affine(1, 0, 50, 0, -1, 450), nodata=0)
for block_config in [dict(threads=1), dict(threads=1, max_block_mem=0.04)]:
    n_blocks = fuse(src_file, ref_file, out_file, block_config=block_config)
    sm, om = masks(src_file, out_file)
    lost, invented = sm & ~om, om & ~sm
    rows = np.where(lost)[0]
    where = f' (source rows {rows.min()}..{rows.max()})' if lost.any() else ''
    print(f'saturated upper half, model=gain-blk-offset, {block_config}, {n_blocks} block(s): valid source pixels '
          f'{sm.sum()}, valid corrected pixels {om.sum()}, LOST {lost.sum()}{where}, invented {invented.sum()}')
    violated |= bool(lost.any())

# ----------------------------------------------------------------------------------------------------------------------
# Case B: a source that is constant everywhere (e.g. a uniform test card / fully saturated band), one block, defaults.
write(src_file, np.full((200, 200), 200, dtype='uint8'), Affine(1, 0, 50, 0, -1, 450), nodata=0)
for model in [Model.gain, Model.gain_blk_offset, Model.gain_offset]:
    fuse(src_file, ref_file, out_file, model=model, block_config=dict(threads=1))
    sm, om = masks(src_file, out_file)
    lost, invented = sm & ~om, om & ~sm
    print(f'constant source (200), model={model.value}: valid source pixels {sm.sum()}, valid corrected pixels '
          f'{om.sum()}, LOST {lost.sum()}, invented {invented.sum()}')
    violated |= bool(lost.any())

print('\nVIOLATION: valid source pixels of zero-variance blocks / kernels are nodata in the corrected image.' if violated
      else '\nNo violation.')
sys.exit(1 if violated else 0)
