"""
C03 demo 3: with the documented output option nodata=None (internal mask - "recommended" for lossy compression) the
corrected image gets ONE mask, taken from the first band only.  When the source bands do not share one footprint (per
band nodata, e.g. the slightly different band edges of push-broom multi-spectral sensors), corrected pixels of the other
bands are INVENTED (flagged valid, holding NaN / 0 garbage, where the source band is nodata) and LOST (flagged invalid
where the source band is valid).

Run with cwd = the homonim checkout:  /venv/bin/python /tmp/hunt_C03_out/demo3.py
Exit code 1 = the property is violated, 0 = it holds.
"""
import os
import sys
import tempfile
import warnings
import logging
import io
import contextlib

sys.path.insert(0, os.getcwd())
import numpy as np
import rasterio as rio
from rasterio import Affine
import homonim
from homonim import RasterFuse, Model

warnings.simplefilter('ignore')
logging.getLogger('homonim').setLevel(logging.ERROR)
print('homonim from', homonim.__file__)


def write(path, array, transform, nodata):
    profile = dict(
        driver='GTiff', width=array.shape[2], height=array.shape[1], count=array.shape[0], dtype=array.dtype.name,
        crs='EPSG:32735', transform=transform, nodata=nodata
    )
    with rio.open(path, 'w', **profile) as ds:
        ds.write(array)


tmp = tempfile.mkdtemp()
rng = np.random.default_rng(0)
ref_file, src_file, out_file = f'{tmp}/ref.tif', f'{tmp}/src.tif', f'{tmp}/out.tif'
# 2 band 10 m reference, valid everywhere, positive
write(ref_file, rng.uniform(100, 200, (2, 30, 30)).astype('float32'), Affine(10, 0, 0, 0, -10, 300), nodata=None)
# 2 band 1 m source, nodata=0, band footprints shifted against each other by 20 rows
src = rng.integers(50, 200, (2, 200, 200)).astype('uint16')
src[0, :20] = 0  # band 1 has no data in the top 20 rows
src[1, -20:] = 0  # band 2 has no data in the bottom 20 rows
write(src_file, src, Affine(1, 0, 50, 0, -1, 250), nodata=0)

print('\nProperty: a corrected pixel is valid only if the corresponding source pixel is valid (always), and every valid '
      'source pixel is valid in the corrected image (reference valid everywhere, positive data, default resampling).')
violated = False
for dtype, nodata in [('float32', float('nan')), ('float32', None), ('uint16', None)]:
    with contextlib.redirect_stderr(io.StringIO()):  # hide the progress bar
        with RasterFuse(src_file, ref_file) as raster_fuse:
            raster_fuse.process(
                out_file, model=Model.gain_blk_offset, kernel_shape=(5, 5), build_ovw=False, overwrite=True,
                out_profile=dict(dtype=dtype, nodata=nodata), block_config=dict(threads=1)
            )
    with rio.open(src_file) as s, rio.open(out_file) as o:
        src_masks = s.read_masks().astype(bool)
        out_masks = o.read_masks().astype(bool)
        out_array = o.read()
    print(f'output dtype={dtype}, nodata={nodata}:')
    for bi in range(2):
        invented = out_masks[bi] & ~src_masks[bi]
        lost = src_masks[bi] & ~out_masks[bi]
        values = np.unique(out_array[bi][invented])[:3] if invented.any() else []
        print(f'   band {bi + 1}: valid source pixels {src_masks[bi].sum()}, valid corrected pixels '
              f'{out_masks[bi].sum()}, INVENTED {invented.sum()} (values {list(values)}), LOST {lost.sum()}')
        if nodata is None and (invented.any() or lost.any()):
            violated = True

print('\nVIOLATION: with nodata=None, band 2 of the corrected image has invented and lost pixels.' if violated
      else '\nNo violation.')
sys.exit(1 if violated else 0)
