"""
C04 demo 1: with more than one thread, whole blocks of VALID corrected pixels are lost (written as nodata), depending
on thread scheduling, when the GDAL block cache is under pressure (image larger than the cache).

Property: the corrected / parameter images are identical for every thread count and every interleaving, and every
access to a shared image file made while blocks are in flight happens under mutual exclusion.

What happens: RasterFuse guards each dataset with its own Python lock (src, ref, corr, param), but all four datasets
share the single, global GDAL block cache.  When the cache is full, *any* thread that needs a cache block (e.g. a
thread reading the source under `_src_lock`) evicts the least recently used block, which may be a dirty tile of the
corrected image, and writes it to the corrected file - without holding `_corr_lock`, and concurrently with the thread
that does hold `_corr_lock` and is writing another block into the same tile.  The latter re-reads the (not yet
flushed) tile from disk, i.e. without the pixels of the evicted copy, and its later flush overwrites them with nodata.

The cache pressure is emulated here with a small GDAL_CACHEMAX, so that the inputs can stay small (the GDAL default
is 5% of RAM; the same situation arises with images that are large relative to that).  Everything else is the
public API with the code as is.  Run with cwd = the homonim checkout.
"""
import os
import sys
import tempfile
import warnings

os.environ.setdefault('TQDM_DISABLE', '1')
sys.path.insert(0, os.getcwd())

import numpy as np
import rasterio as rio
from rasterio.crs import CRS
from rasterio.transform import from_origin

import homonim
from homonim import RasterFuse

warnings.simplefilter('ignore')
print('homonim:', homonim.__file__)

CACHE_BYTES = 1_000_000   # GDAL block cache size (bytes), small relative to the ~7 MB corrected image
THREADS = min(4, os.cpu_count() or 1)
MAX_ATTEMPTS = 12


def make_image(path, shape, res, ul, seed, **kwargs):
    rng = np.random.default_rng(seed)
    h, w = shape
    yy, xx = np.mgrid[0:h, 0:w]
    arr = np.stack(
        [1000 + 500 * np.sin(xx * res / 37. + b) + 300 * np.cos(yy * res / 23.) + rng.normal(0, 20, (h, w))
         for b in range(3)]
    ).astype('uint16')   # all pixels valid (> 0)
    profile = dict(
        driver='GTiff', width=w, height=h, count=3, dtype='uint16', nodata=0, crs=CRS.from_epsg(32735),
        transform=from_origin(ul[0], ul[1], res, res), **kwargs
    )
    with rio.open(path, 'w', **profile) as ds:
        ds.write(arr)
    return path


def fuse(src, ref, out, threads):
    out_profile = dict(
        creation_options=dict(tiled=True, blockxsize=256, blockysize=256, compress='deflate', interleave='band')
    )
    with RasterFuse(src, ref) as raster_fuse:
        raster_fuse.process(
            out, block_config=dict(threads=threads, max_block_mem=0.1), out_profile=out_profile, build_ovw=False,
            overwrite=True,
        )
    with rio.open(out) as ds:
        return ds.read(), ds.read_masks()


def main():
    tmp = tempfile.mkdtemp(prefix='c04_demo1_')
    n = 768
    src = make_image(
        f'{tmp}/src.tif', (n, n), 1.0, (10, n - 10), 1, tiled=True, blockxsize=256, blockysize=256, compress='deflate'
    )
    ref = make_image(f'{tmp}/ref.tif', (n // 10 + 40, n // 10 + 40), 10.0, (-100, n + 100), 2)

    with rio.Env(GDAL_CACHEMAX=CACHE_BYTES):
        single1, mask1 = fuse(src, ref, f'{tmp}/corr_single_a.tif', 1)
        single2, mask2 = fuse(src, ref, f'{tmp}/corr_single_b.tif', 1)
        stable = np.array_equal(single1, single2, equal_nan=True) and np.array_equal(mask1, mask2)
        print(f'single-threaded result reproducible (same cache size): {stable}')
        print(f'single-threaded result: {int(np.isnan(single1).sum())} nodata pixels of {single1.size}')
        print('property demands: the multi-threaded corrected image equals the single-threaded one, pixel for pixel')

        for attempt in range(1, MAX_ATTEMPTS + 1):
            multi, mask_m = fuse(src, ref, f'{tmp}/corr_multi.tif', THREADS)
            differ = ~((single1 == multi) | (np.isnan(single1) & np.isnan(multi)))
            if differ.any() or not np.array_equal(mask1, mask_m):
                bands, rows, cols = np.nonzero(differ)
                lost = np.isnan(multi[differ]) & ~np.isnan(single1[differ])
                print(
                    f'attempt {attempt}, threads={THREADS}: {int(differ.sum())} pixels differ from the single-threaded '
                    f'result (band(s) {sorted(set((bands + 1).tolist()))}, rows {rows.min()}-{rows.max()}, '
                    f'cols {cols.min()}-{cols.max()})'
                )
                print(
                    f'  {int(lost.sum())} of them are valid in the single-threaded image and NODATA (nan) in the '
                    f'multi-threaded image, i.e. corrected data was lost'
                )
                print('VIOLATION: the result depends on thread count / scheduling')
                return 1
            print(f'attempt {attempt}, threads={THREADS}: identical (the race did not fire)')

    print(f'no difference in {MAX_ATTEMPTS} attempts')
    return 0


if __name__ == '__main__':
    sys.exit(main())
