"""
C04 demo 2: with a lossy output codec (JPEG-in-TIFF with an internal mask, the combination the docs recommend for
lossy compression), the corrected pixels depend on the order in which blocks are written, hence on the thread count,
when the GDAL block cache is under pressure (image larger than the cache).

Property: the pixels of the corrected image are identical for every thread count and every completion order.

What happens: output blocks are not aligned with the output tiles, so a tile is filled by several blocks.  When the
(global) GDAL block cache is full, a partly filled tile is JPEG-compressed and flushed; the next block that lands in
the tile makes GDAL decompress it, add the new pixels and compress it again.  Which pixels go through how many lossy
compression cycles depends on the order / timing of the block writes, which changes with the number of threads.
No locking in homonim can make that order-independent as long as blocks share tiles.

The cache pressure is emulated with a small GDAL_CACHEMAX so that the inputs can stay small (the GDAL default is 5% of
RAM; the same happens when the data written between two visits of a tile exceeds the cache).  With an ample cache
the outputs are identical (also shown).  Run with cwd = the homonim checkout.
"""
import os
import sys
import tempfile
import warnings

os.environ.setdefault('TQDM_DISABLE', '1')
sys.path.insert(0, os.getcwd())

import numpy as np
import rasterio as rio
from rasterio.crs import CRS
from rasterio.transform import from_origin

import homonim
from homonim import RasterFuse

warnings.simplefilter('ignore')
print('homonim:', homonim.__file__)

SMALL_CACHE = 1_000_000     # bytes
AMPLE_CACHE = 512_000_000   # bytes


def make_image(path, shape, res, ul, seed):
    rng = np.random.default_rng(seed)
    h, w = shape
    yy, xx = np.mgrid[0:h, 0:w]
    arr = np.stack(
        [100 + 50 * np.sin(xx * res / 37. + b) + 30 * np.cos(yy * res / 23.) + rng.normal(0, 2, (h, w))
         for b in range(3)]
    ).astype('uint8')
    profile = dict(
        driver='GTiff', width=w, height=h, count=3, dtype='uint8', nodata=None, crs=CRS.from_epsg(32735),
        transform=from_origin(ul[0], ul[1], res, res), tiled=True, blockxsize=256, blockysize=256, compress='deflate',
    )
    with rio.open(path, 'w', **profile) as ds:
        ds.write(arr)
    return path


def fuse(src, ref, out, threads):
    out_profile = dict(
        dtype='uint8', nodata=None, creation_options=dict(
            tiled=True, blockxsize=256, blockysize=256, compress='jpeg', interleave='pixel', photometric='ycbcr'
        )
    )  # yapf: disable
    with RasterFuse(src, ref) as raster_fuse:
        raster_fuse.process(
            out, block_config=dict(threads=threads, max_block_mem=0.2), out_profile=out_profile, build_ovw=False,
            overwrite=True,
        )
    with rio.open(out) as ds:
        return ds.read().astype('int16'), ds.dataset_mask()


def compare(cache_bytes, src, ref, tmp, thread_counts):
    worst = 0
    with rio.Env(GDAL_CACHEMAX=cache_bytes):
        single, single_mask = fuse(src, ref, f'{tmp}/corr_t1.tif', 1)
        again, _ = fuse(src, ref, f'{tmp}/corr_t1b.tif', 1)
        print(f'  threads=1 twice: max abs difference {int(np.abs(single - again).max())}')
        for threads in thread_counts:
            multi, multi_mask = fuse(src, ref, f'{tmp}/corr_t{threads}.tif', threads)
            both_valid = (single_mask > 0) & (multi_mask > 0)   # leave out blocks lost to the race of demo 1
            diff = np.abs(single - multi)[:, both_valid]
            print(
                f'  threads={threads} vs threads=1: {int((diff > 0).sum())} pixel values differ, max abs difference '
                f'{int(diff.max())} DN (uint8)'
            )
            worst = max(worst, int(diff.max()))
    return worst


def main():
    tmp = tempfile.mkdtemp(prefix='c04_demo2_')
    n = 768
    src = make_image(f'{tmp}/src.tif', (n, n), 1.0, (10, n - 10), 1)
    ref = make_image(f'{tmp}/ref.tif', (n // 10 + 40, n // 10 + 40), 10.0, (-100, n + 100), 2)

    print('property demands: identical corrected pixels for every thread count')
    print(f'GDAL block cache of {AMPLE_CACHE} bytes (no evictions):')
    worst_ample = compare(AMPLE_CACHE, src, ref, tmp, (min(4, os.cpu_count() or 1),))
    print(f'GDAL block cache of {SMALL_CACHE} bytes (image larger than the cache):')
    worst_small = compare(SMALL_CACHE, src, ref, tmp, (2, min(4, os.cpu_count() or 1)))

    if worst_small > 0 or worst_ample > 0:
        print('VIOLATION: the corrected pixels depend on the thread count / block write order')
        return 1
    print('no difference')
    return 0


if __name__ == '__main__':
    sys.exit(main())
