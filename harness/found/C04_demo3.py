"""
C04 demo 3: with a pixel-interleaved output (creation option INTERLEAVE=PIXEL), the MASK of the parameter image depends
on the order / timing of block writes, hence on the thread count, when the GDAL block cache is under pressure.

Property: the pixels and masks of the parameter image are identical for every thread count and completion order.

What happens: with proc_crs=ref the parameter image has the extent of the reference, but only the part covered by the
source is written, one band triple (gain, offset, r2 of one source band) per block; the rest should stay nodata (nan).
In a pixel-interleaved GeoTIFF a strip / tile holds all 9 bands.  When the (global) GDAL block cache is full and a
strip is flushed while only some of its bands have been written, GDAL fills the other bands of that strip with 0, not
with the nodata value.  Pixels that are never written afterwards (outside the source footprint) then stay 0 (= valid) instead
of nan (= masked).  Which bands / strips are hit depends on the order and timing of the block writes (with one thread the
bands are processed one after the other, with several threads blocks of different bands are in flight together), so
the mask of the parameter image changes with the thread count and from run to run.  The pixels that are valid in
both images are equal, i.e. this is not the lost-write race of demo 1.

The cache pressure is emulated with a small GDAL_CACHEMAX so that the inputs can stay small (GDAL default: 5% of RAM).
With an ample cache the outputs are identical (also shown).  Run with cwd = the homonim checkout.
"""
import os
import sys
import tempfile
import warnings

os.environ.setdefault('TQDM_DISABLE', '1')
sys.path.insert(0, os.getcwd())

import numpy as np
import rasterio as rio
from rasterio.crs import CRS
from rasterio.transform import from_origin

import homonim
from homonim import RasterFuse

warnings.simplefilter('ignore')
print('homonim:', homonim.__file__)

SMALL_CACHE = 500_000       # bytes
AMPLE_CACHE = 512_000_000   # bytes


def make_image(path, shape, res, ul, seed):
    rng = np.random.default_rng(seed)
    h, w = shape
    yy, xx = np.mgrid[0:h, 0:w]
    arr = np.stack(
        [1000 + 500 * np.sin(xx * res / 37. + b) + 300 * np.cos(yy * res / 23.) + rng.normal(0, 20, (h, w))
         for b in range(3)]
    ).astype('uint16')
    profile = dict(
        driver='GTiff', width=w, height=h, count=3, dtype='uint16', nodata=0, crs=CRS.from_epsg(32735),
        transform=from_origin(ul[0], ul[1], res, res), tiled=True, blockxsize=256, blockysize=256, compress='deflate',
    )
    with rio.open(path, 'w', **profile) as ds:
        ds.write(arr)
    return path


def fuse(src, ref, tmp, threads):
    out_profile = dict(
        creation_options=dict(tiled=False, compress='lzw', interleave='pixel')  # striped, pixel interleaved GeoTIFF
    )
    corr_file, param_file = f'{tmp}/corr_t{threads}.tif', f'{tmp}/param_t{threads}.tif'
    with RasterFuse(src, ref) as raster_fuse:
        raster_fuse.process(
            corr_file, param_filename=param_file, block_config=dict(threads=threads, max_block_mem=0.5),
            out_profile=out_profile, build_ovw=False, overwrite=True,
        )
    with rio.open(param_file) as ds:
        return ds.read(), ds.read_masks()


def compare(cache_bytes, src, ref, tmp, attempts):
    worst = 0
    threads = min(8, os.cpu_count() or 1)
    with rio.Env(GDAL_CACHEMAX=cache_bytes):
        single, single_masks = fuse(src, ref, tmp, 1)
        for attempt in range(1, attempts + 1):
            multi, multi_masks = fuse(src, ref, tmp, threads)
            mask_diff = single_masks != multi_masks
            zero_vs_nan = ((multi == 0) & np.isnan(single)) | ((single == 0) & np.isnan(multi))
            both_valid = (single_masks > 0) & (multi_masks > 0)
            print(
                f'  attempt {attempt}, threads={threads} vs threads=1: band masks differ in {int(mask_diff.sum())} '
                f'pixels ({int(zero_vs_nan.sum())} of them are 0 in one image and nodata (nan) in the other); '
                f'masked pixels: {int((single_masks == 0).sum())} (threads=1), {int((multi_masks == 0).sum())} '
                f'(threads={threads}); pixels valid in both are equal: '
                f'{bool(np.array_equal(single[both_valid], multi[both_valid]))}'
            )
            worst = max(worst, int(mask_diff.sum()))
            if worst > 0:
                break
    return worst


def main():
    tmp = tempfile.mkdtemp(prefix='c04_demo3_')
    n = 512
    src = make_image(f'{tmp}/src.tif', (n, n), 1.0, (10, n - 10), 1)
    ref = make_image(f'{tmp}/ref.tif', (n // 10 + 40, n // 10 + 40), 10.0, (-100, n + 100), 2)

    print('property demands: identical parameter image masks for every thread count')
    print(f'GDAL block cache of {AMPLE_CACHE} bytes (no evictions):')
    worst_ample = compare(AMPLE_CACHE, src, ref, tmp, 1)
    print(f'GDAL block cache of {SMALL_CACHE} bytes (images larger than the cache):')
    worst_small = compare(SMALL_CACHE, src, ref, tmp, 12)

    if worst_small > 0 or worst_ample > 0:
        print('VIOLATION: the parameter image masks depend on the thread count / block write order')
        return 1
    print('no difference')
    return 0


if __name__ == '__main__':
    sys.exit(main())
