"""
C05 demo 1: a non-default (documented) `downsampling` method makes the result depend on the block partition.

Property: for the gain model on the auto processing grid, the parameter image must not depend on max_block_mem, and
the corrected image must not depend on it either when parameters are upsampled with a kernel of at most 2x2 support
(bilinear).

Run with cwd = the homonim checkout:  /venv/bin/python demo1.py      (exit 1 = violation shown, 0 = not shown)
"""
import os
import sys
import tempfile
import warnings

os.environ.setdefault('TQDM_DISABLE', '1')
sys.path.insert(0, os.getcwd())
import numpy as np
import rasterio as rio
from rasterio.enums import Resampling
from rasterio.transform import Affine

import homonim
from homonim import RasterFuse

warnings.simplefilter('ignore')
print('homonim:', homonim.__file__)
CRS = 'EPSG:32735'
TOL = 1e-4  # relative tolerance, three orders of magnitude above float32 noise


def field(transform, shape):
    """ A smooth analytic surface sampled at the pixel centres of a grid, so that source and reference agree. """
    jj, ii = np.meshgrid(np.arange(shape[1]) + .5, np.arange(shape[0]) + .5)
    x, y = transform * (jj, ii)
    return 0.5 + 0.25 * np.sin(x / 17.) * np.cos(y / 23.) + 0.15 * np.sin((x + y) / 7.)


def write(path, array, transform, nodata=None):
    with rio.open(
        path, 'w', driver='GTiff', width=array.shape[1], height=array.shape[0], count=1, dtype='float32', crs=CRS,
        transform=transform, nodata=nodata
    ) as ds:
        ds.write(array.astype('float32'), 1)


def fuse(src, ref, out_dir, tag, max_block_mem, model_config):
    corr, param = os.path.join(out_dir, f'corr_{tag}.tif'), os.path.join(out_dir, f'param_{tag}.tif')
    with RasterFuse(src, ref) as rf:
        n_blocks = len(list(rf.block_pairs(overlap=homonim.utils.overlap_for_kernel((5, 5)), max_block_mem=max_block_mem)))
        rf.process(
            corr, model='gain', kernel_shape=(5, 5), param_filename=param, build_ovw=False, overwrite=True,
            model_config=model_config, block_config=dict(threads=1, max_block_mem=max_block_mem)
        )
        proc_crs = rf.proc_crs.name
    with rio.open(corr) as ds:
        c = ds.read(1)
    with rio.open(param) as ds:
        g = ds.read(1)  # gain band
    return c, g, n_blocks, proc_crs


def n_diff(a, b):
    """ number of pixels that differ (validity or relative value > TOL), max relative difference. """
    na, nb = np.isnan(a), np.isnan(b)
    both = ~na & ~nb
    rel = np.zeros(a.shape)
    rel[both] = np.abs(a[both].astype('f8') - b[both]) / np.maximum(np.abs(a[both]), 1e-9)
    return int((na != nb).sum() + (rel > TOL).sum()), float(rel.max())


def main():
    tmp = tempfile.mkdtemp()
    rng = np.random.default_rng(0)
    ref_t = Affine(3, 0, 1000, 0, -3, 5000)  # 3 m reference, 40 x 48
    src_t = Affine(1, 0, 1006.4, 0, -1, 4993.7)  # 1 m source, 90 x 110, inside the reference
    ref = field(ref_t, (40, 48)) * 0.5 + rng.normal(0, 0.005, (40, 48))
    src = field(src_t, (90, 110)) * 200 + 20 + rng.normal(0, 3, (90, 110))
    ref_file, src_file = os.path.join(tmp, 'ref.tif'), os.path.join(tmp, 'src.tif')
    write(ref_file, ref, ref_t)
    write(src_file, src, src_t)

    results = {}
    for name, ds in [('average (default)', 'average'), ('bilinear', 'bilinear'), ('cubic', 'cubic'), ('lanczos', 'lanczos')]:
        mc = dict(downsampling=Resampling[ds], upsampling=Resampling.bilinear)
        c1, g1, n1, pc = fuse(src_file, ref_file, tmp, 'one', 0, mc)  # max_block_mem=0 -> one block
        cn, gn, nn, pc = fuse(src_file, ref_file, tmp, 'many', 1e-2, mc)  # 4 blocks
        pd, prel = n_diff(g1, gn)
        cd, crel = n_diff(c1, cn)
        results[ds] = (pd, cd)
        print(
            f'downsampling={name:18s} upsampling=bilinear proc_crs={pc} blocks {n1} vs {nn}: '
            f'gain image: {pd} of {g1.size} px differ (max rel {prel:.2g}); '
            f'corrected image: {cd} of {c1.size} px differ (max rel {crel:.2g})'
        )

    print('\nProperty demands: 0 differing pixels in the gain (parameter) image and, with bilinear (2x2) upsampling, '
          '0 differing pixels in the corrected image - for every row above.')
    control_ok = results['average'] == (0, 0)
    violated = (results['cubic'][0] > 0) or (results['bilinear'][1] > 0) or (results['lanczos'][0] > 0)
    print(f'control (default average) identical: {control_ok}; violation with other downsampling kernels: {violated}')
    return 1 if (control_ok and violated) else 0


if __name__ == '__main__':
    sys.exit(main())
