"""
C05 demo 2: with `mask_partial=True`, block seams become lines of nodata in the corrected image when source pixel
centres fall exactly on reference pixel edges (source grid offset by half a source pixel from the reference grid).

Property: for the gain model on the auto processing grid with a <= 2x2 upsampling kernel (bilinear / nearest), the
corrected image must not depend on how the image is partitioned into blocks (max_block_mem).

Run with cwd = the homonim checkout:  /venv/bin/python demo2.py      (exit 1 = violation shown, 0 = not shown)
"""
import os
import sys
import tempfile
import warnings

os.environ.setdefault('TQDM_DISABLE', '1')
sys.path.insert(0, os.getcwd())
import numpy as np
import rasterio as rio
from rasterio.enums import Resampling
from rasterio.transform import Affine

import homonim
from homonim import RasterFuse

warnings.simplefilter('ignore')
print('homonim:', homonim.__file__)
CRS = 'EPSG:32735'
KERNEL = (3, 3)


def field(transform, shape):
    jj, ii = np.meshgrid(np.arange(shape[1]) + .5, np.arange(shape[0]) + .5)
    x, y = transform * (jj, ii)
    return 0.5 + 0.25 * np.sin(x / 17.) * np.cos(y / 23.) + 0.15 * np.sin((x + y) / 7.)


def write(path, array, transform):
    with rio.open(
        path, 'w', driver='GTiff', width=array.shape[1], height=array.shape[0], count=1, dtype='float32', crs=CRS,
        transform=transform, nodata=None
    ) as ds:
        ds.write(array.astype('float32'), 1)


def fuse(src, ref, out_dir, tag, max_block_mem, upsampling):
    corr = os.path.join(out_dir, f'corr_{tag}.tif')
    with RasterFuse(src, ref) as rf:
        blocks = list(rf.block_pairs(overlap=homonim.utils.overlap_for_kernel(KERNEL), max_block_mem=max_block_mem))
        rf.process(
            corr, model='gain', kernel_shape=KERNEL, build_ovw=False, overwrite=True,
            model_config=dict(mask_partial=True, upsampling=upsampling),
            block_config=dict(threads=1, max_block_mem=max_block_mem)
        )
    with rio.open(corr) as ds:
        c = ds.read(1)
    return c, blocks


def trial(tmp, offset, upsampling):
    rng = np.random.default_rng(0)
    ref_t = Affine(2, 0, 1000, 0, -2, 5000)  # 2 m reference, 50 x 60
    src_t = Affine(1, 0, 1000 + offset, 0, -1, 5000 - offset)  # 1 m source, 80 x 96
    ref = field(ref_t, (50, 60)) * 0.5 + rng.normal(0, 0.005, (50, 60))
    src = field(src_t, (80, 96)) * 200 + 20 + rng.normal(0, 3, (80, 96))
    ref_file, src_file = os.path.join(tmp, 'ref.tif'), os.path.join(tmp, 'src.tif')
    write(ref_file, ref, ref_t)
    write(src_file, src, src_t)
    c1, b1 = fuse(src_file, ref_file, tmp, 'one', 0, upsampling)  # one block
    cn, bn = fuse(src_file, ref_file, tmp, 'many', 3e-3, upsampling)  # 16 blocks
    lost = ~np.isnan(c1) & np.isnan(cn)  # valid in the one block result, nodata in the multi-block result
    gained = np.isnan(c1) & ~np.isnan(cn)
    seam_rows = sorted({int(b.src_out_block.row_off) for b in bn})[1:]
    seam_cols = sorted({int(b.src_out_block.col_off) for b in bn})[1:]
    print(
        f'source grid offset {offset} m, upsampling={upsampling.name}, mask_partial=True, blocks {len(b1)} vs {len(bn)}: '
        f'valid pixels {int((~np.isnan(c1)).sum())} vs {int((~np.isnan(cn)).sum())}; '
        f'{int(lost.sum())} px valid with one block but nodata with {len(bn)} blocks, {int(gained.sum())} the other way'
    )
    if lost.any():
        rows, cols = np.nonzero(lost)
        print(f'   source block seams at rows {seam_rows}, cols {seam_cols}')
        on_seam = np.isin(rows + 1, seam_rows) | np.isin(cols + 1, seam_cols)
        print(f'   {int(on_seam.sum())} of the {len(rows)} lost pixels lie in the source row / column just before a seam '
              f'(rows {sorted(set(rows[np.isin(rows + 1, seam_rows)].tolist()))}, '
              f'cols {sorted(set(cols[np.isin(cols + 1, seam_cols)].tolist()))})')
    return int(lost.sum() + gained.sum())


def main():
    tmp = tempfile.mkdtemp()
    control = trial(tmp, 4.0, Resampling.bilinear)  # source aligned with the reference grid
    bad = 0
    for ups in [Resampling.bilinear, Resampling.nearest]:
        bad += trial(tmp, 4.5, ups)  # source offset by half a source pixel: centres lie on reference pixel edges
    print('\nProperty demands: the same corrected image (and so the same valid pixels) for 1 block and 16 blocks.')
    print(f'control (aligned grids) identical: {control == 0}; half-pixel offset grids differ in {bad} pixels')
    return 1 if (control == 0 and bad > 0) else 0


if __name__ == '__main__':
    sys.exit(main())
