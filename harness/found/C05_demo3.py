"""
C05 demo 3: non-square source pixels (finer than the reference in x, coarser in y, smaller in area so the auto
processing grid is the reference grid).  The corrected image then depends on the block partition over most of the
image: with bilinear upsampling (where the property demands no difference at all) and with the default cubic spline
(where it demands that differences stay within one processing-grid pixel of a block boundary).

Run with cwd = the homonim checkout:  /venv/bin/python demo3.py      (exit 1 = violation shown, 0 = not shown)
"""
import os
import sys
import tempfile
import warnings

os.environ.setdefault('TQDM_DISABLE', '1')
sys.path.insert(0, os.getcwd())
import numpy as np
import rasterio as rio
from rasterio.enums import Resampling
from rasterio.transform import Affine

import homonim
from homonim import RasterFuse

warnings.simplefilter('ignore')
print('homonim:', homonim.__file__)
CRS = 'EPSG:32735'
KERNEL = (5, 5)
TOL = 1e-4  # relative tolerance, three orders of magnitude above float32 noise


def field(transform, shape):
    jj, ii = np.meshgrid(np.arange(shape[1]) + .5, np.arange(shape[0]) + .5)
    x, y = transform * (jj, ii)
    return 0.5 + 0.25 * np.sin(x / 17.) * np.cos(y / 23.) + 0.15 * np.sin((x + y) / 7.)


def write(path, array, transform):
    with rio.open(
        path, 'w', driver='GTiff', width=array.shape[1], height=array.shape[0], count=1, dtype='float32', crs=CRS,
        transform=transform, nodata=None
    ) as ds:
        ds.write(array.astype('float32'), 1)


def fuse(src, ref, out_dir, tag, max_block_mem, upsampling):
    corr, param = os.path.join(out_dir, f'corr_{tag}.tif'), os.path.join(out_dir, f'param_{tag}.tif')
    with RasterFuse(src, ref) as rf:
        blocks = list(rf.block_pairs(overlap=homonim.utils.overlap_for_kernel(KERNEL), max_block_mem=max_block_mem))
        rf.process(
            corr, model='gain', kernel_shape=KERNEL, param_filename=param, build_ovw=False, overwrite=True,
            model_config=dict(upsampling=upsampling), block_config=dict(threads=1, max_block_mem=max_block_mem)
        )
        proc_crs = rf.proc_crs.name
    with rio.open(corr) as ds:
        c = ds.read(1)
    with rio.open(param) as ds:
        g = ds.read(1)
    return c, g, blocks, proc_crs


def seam_distance(blocks, ref_t, src_t, src_shape):
    """ Distance, in reference (processing grid) pixels, from each source pixel centre to the nearest block seam. """
    rows = sorted({b.ref_out_block.row_off for b in blocks})[1:]
    cols = sorted({b.ref_out_block.col_off for b in blocks})[1:]
    jj, ii = np.meshgrid(np.arange(src_shape[1]) + .5, np.arange(src_shape[0]) + .5)
    x, y = src_t * (jj, ii)
    rc, rr = ~ref_t * (x, y)
    d = np.full(src_shape, np.inf)
    for r in rows:
        d = np.minimum(d, np.abs(rr - r))
    for c in cols:
        d = np.minimum(d, np.abs(rc - c))
    return d


def trial(tmp, name, src_res, src_shape, upsampling):
    rng = np.random.default_rng(0)
    ref_t = Affine(2, 0, 1000, 0, -2, 5000)  # 2 x 2 m reference, 60 x 60
    src_t = Affine(src_res[0], 0, 1006.4, 0, -src_res[1], 4993.7)
    ref = field(ref_t, (60, 60)) * 0.5 + rng.normal(0, 0.005, (60, 60))
    src = field(src_t, src_shape) * 200 + 20 + rng.normal(0, 3, src_shape)
    ref_file, src_file = os.path.join(tmp, 'ref.tif'), os.path.join(tmp, 'src.tif')
    write(ref_file, ref, ref_t)
    write(src_file, src, src_t)
    c1, g1, b1, pc = fuse(src_file, ref_file, tmp, 'one', 0, upsampling)  # one block
    cn, gn, bn, pc = fuse(src_file, ref_file, tmp, 'many', 3e-3, upsampling)  # 4 blocks (2 x 2)
    both = ~np.isnan(c1) & ~np.isnan(cn)
    rel = np.zeros(c1.shape)
    rel[both] = np.abs(c1[both].astype('f8') - cn[both]) / np.maximum(np.abs(c1[both]), 1e-9)
    diff = (rel > TOL) | (np.isnan(c1) != np.isnan(cn))
    gboth = ~np.isnan(g1) & ~np.isnan(gn)
    grel = np.abs(g1[gboth].astype('f8') - gn[gboth]) / np.abs(g1[gboth])
    d = seam_distance(bn, ref_t, src_t, src_shape)
    far = diff & (d > 1.)
    print(
        f'{name}: source pixel {src_res[0]} x {src_res[1]} m, reference 2 x 2 m, proc_crs={pc}, '
        f'upsampling={upsampling.name}, blocks {len(b1)} vs {len(bn)}:\n'
        f'   gain image max rel diff {grel.max():.2g}; corrected image: {int(diff.sum())} of {diff.size} px differ '
        f'(max rel {rel.max():.2g}), {int(far.sum())} of them further than 1 processing-grid pixel from any seam '
        f'(furthest {d[diff].max() if diff.any() else 0:.1f} px)'
    )
    return int(diff.sum()), int(far.sum())


def main():
    tmp = tempfile.mkdtemp()
    # controls: square 1 x 1 m source pixels
    sq_bil = trial(tmp, 'control', (1, 1), (90, 100), Resampling.bilinear)
    sq_cs = trial(tmp, 'control', (1, 1), (90, 100), Resampling.cubic_spline)
    # 1 x 3 m source pixels: area 3 m2 < 4 m2, so the reference grid is the (auto) processing grid
    ns_bil = trial(tmp, 'non-square', (1, 3), (30, 100), Resampling.bilinear)
    ns_cs = trial(tmp, 'non-square', (1, 3), (30, 100), Resampling.cubic_spline)
    print('\nProperty demands: bilinear -> 0 differing pixels; cubic spline -> 0 differing pixels further than 1 '
          'processing-grid pixel from a seam.')
    control_ok = (sq_bil[0] == 0) and (sq_cs[1] == 0)
    violated = (ns_bil[0] > 0) or (ns_cs[1] > 0)
    print(f'control (square pixels) conforms: {control_ok}; non-square pixels violate: {violated}')
    return 1 if (control_ok and violated) else 0


if __name__ == '__main__':
    sys.exit(main())
