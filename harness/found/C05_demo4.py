"""
C05 extra finding (beyond the 3 numbered demos): source and reference in different CRSs, source coarser than the
reference (auto processing grid = source grid, no parameter resampling at all).  The one-block result differs from every
multi-block result, in the parameter image and in the corrected image, with all options at their defaults except the
model.

Run with cwd = the homonim checkout:  /venv/bin/python extra_crs.py      (exit 1 = violation shown, 0 = not shown)
"""
import os
import sys
import tempfile
import warnings

os.environ.setdefault('TQDM_DISABLE', '1')
sys.path.insert(0, os.getcwd())
import numpy as np
import rasterio as rio
from rasterio.transform import Affine
from rasterio.warp import transform as warp_transform

import homonim
from homonim import RasterFuse

warnings.simplefilter('ignore')
print('homonim:', homonim.__file__)
KERNEL = (3, 3)
TOL = 1e-4


def write(path, array, transform, crs):
    with rio.open(
        path, 'w', driver='GTiff', width=array.shape[1], height=array.shape[0], count=1, dtype='float32', crs=crs,
        transform=transform, nodata=None
    ) as ds:
        ds.write(array.astype('float32'), 1)


def fuse(src, ref, out_dir, tag, max_block_mem):
    corr, param = os.path.join(out_dir, f'corr_{tag}.tif'), os.path.join(out_dir, f'param_{tag}.tif')
    with RasterFuse(src, ref) as rf:
        n = len(list(rf.block_pairs(overlap=homonim.utils.overlap_for_kernel(KERNEL), max_block_mem=max_block_mem)))
        rf.process(
            corr, model='gain', kernel_shape=KERNEL, param_filename=param, build_ovw=False, overwrite=True,
            block_config=dict(threads=1, max_block_mem=max_block_mem)
        )
        pc = rf.proc_crs.name
    with rio.open(corr) as ds:
        c = ds.read(1)
    with rio.open(param) as ds:
        g = ds.read(1)
    return c, g, n, pc


def n_diff(a, b):
    na, nb = np.isnan(a), np.isnan(b)
    both = ~na & ~nb
    rel = np.zeros(a.shape)
    rel[both] = np.abs(a[both].astype('f8') - b[both]) / np.maximum(np.abs(a[both]), 1e-9)
    return int((na != nb).sum() + (rel > TOL).sum()), float(rel.max())


def main():
    tmp = tempfile.mkdtemp()
    rng = np.random.default_rng(0)
    # 3 m UTM source (40 x 45), ~1 m geographic reference (200 x 200) that covers it
    xs, ys = warp_transform('EPSG:32735', 'EPSG:4326', [500000.], [6900000.])
    d = 1 / 111000.
    ref_t = Affine(d, 0, xs[0] - 20 * d, 0, -d, ys[0] + 20 * d)
    src_t = Affine(3, 0, 500010.3, 0, -3, 6899990.7)
    jj, ii = np.meshgrid(np.arange(200) + .5, np.arange(200) + .5)
    ref = 0.3 + 0.1 * np.sin(jj / 9.) * np.cos(ii / 13.) + rng.normal(0, 0.005, (200, 200))
    jj, ii = np.meshgrid(np.arange(45) + .5, np.arange(40) + .5)
    src = 120 + 60 * np.sin(jj / 3.) * np.cos(ii / 4.) + rng.normal(0, 3, (40, 45))
    ref_file, src_file = os.path.join(tmp, 'ref.tif'), os.path.join(tmp, 'src.tif')
    write(ref_file, ref, ref_t, 'EPSG:4326')
    write(src_file, src, src_t, 'EPSG:32735')

    res = {}
    for mbm in [0, 3e-2, 1e-2, 3e-3]:
        res[mbm] = fuse(src_file, ref_file, tmp, f'{mbm}', mbm)
    c1, g1, n1, pc = res[0]
    bad = 0
    for mbm in [3e-2, 1e-2, 3e-3]:
        c, g, n, pc = res[mbm]
        gd, grel = n_diff(g1, g)
        cd, crel = n_diff(c1, c)
        c4, g4 = res[3e-2][:2]
        print(
            f'proc_crs={pc}: {n1} block vs {n} blocks: gain image {gd} of {g.size} px differ (max rel {grel:.2g}), '
            f'corrected image {cd} of {c.size} px differ (max rel {crel:.2g});   vs the 4 block result: '
            f'{n_diff(g4, g)[0]} / {n_diff(c4, c)[0]} px differ'
        )
        bad += gd + cd
    print('\nProperty demands: identical parameter and corrected images for 1 block and for any number of blocks '
          '(source-grid processing applies the parameters without any resampling).')
    print(f'violation: {bad > 0}')
    return 1 if bad > 0 else 0


if __name__ == '__main__':
    sys.exit(main())
