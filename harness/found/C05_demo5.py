"""
C05 extra finding (beyond the 3 numbered demos): a saturated (constant) patch in a float32 source, larger than the kernel, gain-offset
model without in-painting.  Inside the patch the gain is 0/0: whether it comes out as nodata (nan) or as a finite number
depends on the block partition, in the parameter image and in the corrected image (valid vs nodata pixels).
The origin is rounding residue in OpenCV's running-sum box filters, but the effect is not "noise": pixels switch between
valid and nodata.

Run with cwd = the homonim checkout:  /venv/bin/python extra_const.py      (exit 1 = violation shown, 0 = not shown)
"""
import os
import sys
import tempfile
import warnings

os.environ.setdefault('TQDM_DISABLE', '1')
sys.path.insert(0, os.getcwd())
import numpy as np
import rasterio as rio
from rasterio.enums import Resampling
from rasterio.transform import Affine

import homonim
from homonim import RasterFuse

warnings.simplefilter('ignore')
print('homonim:', homonim.__file__)
CRS = 'EPSG:32735'
KERNEL = (5, 5)


def field(transform, shape):
    jj, ii = np.meshgrid(np.arange(shape[1]) + .5, np.arange(shape[0]) + .5)
    x, y = transform * (jj, ii)
    return 0.5 + 0.25 * np.sin(x / 17.) * np.cos(y / 23.) + 0.15 * np.sin((x + y) / 7.)


def write(path, array, transform, dtype):
    with rio.open(
        path, 'w', driver='GTiff', width=array.shape[1], height=array.shape[0], count=1, dtype=dtype, crs=CRS,
        transform=transform, nodata=None
    ) as ds:
        ds.write(array.astype(dtype), 1)


def fuse(src, ref, out_dir, tag, max_block_mem):
    corr, param = os.path.join(out_dir, f'corr_{tag}.tif'), os.path.join(out_dir, f'param_{tag}.tif')
    with RasterFuse(src, ref) as rf:
        n = len(list(rf.block_pairs(overlap=homonim.utils.overlap_for_kernel(KERNEL), max_block_mem=max_block_mem)))
        rf.process(
            corr, model='gain-offset', kernel_shape=KERNEL, param_filename=param, build_ovw=False, overwrite=True,
            model_config=dict(r2_inpaint_thresh=None, upsampling=Resampling.nearest),
            block_config=dict(threads=1, max_block_mem=max_block_mem)
        )
    with rio.open(corr) as ds:
        c = ds.read(1)
    with rio.open(param) as ds:
        g = ds.read(1)
    return c, g, n


def main():
    tmp = tempfile.mkdtemp()
    rng = np.random.default_rng(0)
    ref_t = Affine(3, 0, 1000, 0, -3, 5000)  # 3 m reference, 40 x 48
    src_t = Affine(1, 0, 1006, 0, -1, 4994)  # 1 m float32 (reflectance) source, 90 x 110, aligned with the reference
    ref = field(ref_t, (40, 48)) * 0.5 + rng.normal(0, 0.005, (40, 48))
    src = field(src_t, (90, 110)) * 0.8 + 0.1 + rng.normal(0, 0.012, (90, 110))
    src[15:75, 20:90] = 1.0  # saturated patch (reflectance clipped at 1.0)
    ref_file, src_file = os.path.join(tmp, 'ref.tif'), os.path.join(tmp, 'src.tif')
    write(ref_file, ref, ref_t, 'float32')
    write(src_file, src, src_t, 'float32')
    c1, g1, n1 = fuse(src_file, ref_file, tmp, 'one', 0)
    bad = 0
    for mbm in [3e-2, 1e-2, 3e-3]:
        cn, gn, nn = fuse(src_file, ref_file, tmp, 'many', mbm)
        gmm = int((np.isnan(g1) != np.isnan(gn)).sum())
        cmm = int((np.isnan(c1) != np.isnan(cn)).sum())
        print(f'{n1} block vs {nn} blocks: gain image: {gmm} px are nodata in one result and valid in the other; '
              f'corrected image: {cmm} px are nodata in one result and valid in the other')
        bad += gmm + cmm
    print('\nProperty demands: identical parameter and corrected images (nearest neighbour parameter upsampling).')
    print(f'violation: {bad > 0}')
    return 1 if bad > 0 else 0


if __name__ == '__main__':
    sys.exit(main())
