"""
C07 demo 1: the validity mask (and the R2 band) of the corrected image depend on the *gain of the source*.

Input: a source with a saturated (constant) patch larger than the kernel, model=gain-offset.
The same source is given once as 8-bit style DN (0..255, stored as float32) and once multiplied by the positive
constant 1/255 (0..1).  The property demands identical corrected images, validity masks and R2.

Run with cwd = the homonim checkout:  /venv/bin/python demo1.py
"""
import os, sys, tempfile, warnings, logging
sys.path.insert(0, os.getcwd())
import numpy as np
import rasterio as rio
from rasterio.transform import from_origin
import homonim
from homonim import RasterFuse

warnings.simplefilter('ignore')
print('homonim from', homonim.__file__)


def write(path, arr, transform):
    with rio.open(path, 'w', driver='GTiff', width=arr.shape[1], height=arr.shape[0], count=1, dtype='float32',
                  crs='EPSG:32735', transform=transform) as ds:
        ds.write(arr.astype('float32'), 1)


def fuse(src, ref, out, param, **model_config):
    with RasterFuse(src, ref) as f:
        f.process(out, model='gain-offset', kernel_shape=(5, 5), param_filename=param, build_ovw=False, overwrite=True,
                  model_config=model_config, block_config=dict(threads=1))
    with rio.open(out) as ds:
        a, m = ds.read(1), ds.dataset_mask() > 0
    with rio.open(param) as ds:
        r2 = ds.read(3)
    return a, m, r2


rng = np.random.default_rng(1)
tmp = tempfile.mkdtemp()
ref_t = from_origin(500000, 7000300, 10, 10)      # 30 x 30 reference @ 10 m
src_t = from_origin(500050, 7000250, 2, 2)        # 100 x 100 source @ 2 m, inside the reference
base = rng.uniform(0.05, 0.4, (30, 30)).astype('float32')
ref = (base * 10000).round()                      # reflectance * 10000
src = np.kron(base[5:25, 5:25], np.ones((5, 5), 'float32')) * 0.8 + 0.02 + rng.normal(0, .01, (100, 100))
src = np.clip((src * 600).round(), 0, 255)        # 8 bit DN
src[20:70, 20:70] = 255                           # saturated patch (50 x 50 source pixels = 10 x 10 reference pixels)

k = 1 / 255                                       # positive constant: DN -> 0..1
fail = False
for label, cfg in [('in-painting off (r2_inpaint_thresh=None)', dict(r2_inpaint_thresh=None)),
                   ('default in-painting (r2_inpaint_thresh=0.25)', dict())]:
    res = []
    for scale in [1, k]:
        write(f'{tmp}/src.tif', src * scale, src_t)
        write(f'{tmp}/ref.tif', ref, ref_t)
        res.append(fuse(f'{tmp}/src.tif', f'{tmp}/ref.tif', f'{tmp}/corr.tif', f'{tmp}/param.tif', **cfg))
    (a0, m0, r0), (a1, m1, r1) = res
    mask_diff = int((m0 != m1).sum())
    both = m0 & m1
    rel = np.abs(a0[both] - a1[both]) / np.abs(a0[both])
    r2_nan_diff = int((np.isnan(r0) != np.isnan(r1)).sum())
    print(f'\n--- gain-offset, {label}; source x 1  versus  source x 1/255')
    print('demanded : identical validity masks, identical corrected values, identical R2')
    print(f'happened : valid pixels {int(m0.sum())} vs {int(m1.sum())}  -> validity differs in {mask_diff} of {m0.size} pixels')
    print(f'           corrected values (both valid): max rel. difference {rel.max():.3g}, '
          f'{int((rel > 1e-3).sum())} pixels differ by > 1e-3')
    print(f'           R2 band (reference grid): NaN in one run / a number in the other at {r2_nan_diff} pixels')
    fail |= mask_diff > 0 or r2_nan_diff > 0 or (rel > 1e-3).any()

print('\nVIOLATION' if fail else '\nno violation')
sys.exit(1 if fail else 0)
