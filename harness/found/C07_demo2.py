"""
C07 demo 2: with default options for the gain-offset model (in-painting threshold 0.25), multiplying the
*reference* by a positive constant c does not multiply the corrected image by c.

Input: a reference with a flat (constant) patch larger than the kernel - e.g. a filled water / cloud mask, or a
saturated area.  The reference is given once as reflectance * 10000 and once multiplied by c = 1e-4 (reflectance
0..1).  The property demands corrected(c * ref) == c * corrected(ref), identical masks and identical R2.
(c = 2, which is exact in binary floating point, is shown as a control.)

Run with cwd = the homonim checkout:  /venv/bin/python demo2.py
"""
import os, sys, tempfile, warnings
sys.path.insert(0, os.getcwd())
import numpy as np
import rasterio as rio
from rasterio.transform import from_origin
import homonim
from homonim import RasterFuse

warnings.simplefilter('ignore')
print('homonim from', homonim.__file__)


def write(path, arr, transform):
    with rio.open(path, 'w', driver='GTiff', width=arr.shape[1], height=arr.shape[0], count=1, dtype='float32',
                  crs='EPSG:32735', transform=transform) as ds:
        ds.write(arr.astype('float32'), 1)


def fuse(src, ref, out, param):
    with RasterFuse(src, ref) as f:
        f.process(out, model='gain-offset', kernel_shape=(5, 5), param_filename=param, build_ovw=False, overwrite=True,
                  block_config=dict(threads=1))
    with rio.open(out) as ds:
        a, m = ds.read(1), ds.dataset_mask() > 0
    with rio.open(param) as ds:
        r2 = ds.read(3)
    return a, m, r2


rng = np.random.default_rng(1)
tmp = tempfile.mkdtemp()
ref_t = from_origin(500000, 7000300, 10, 10)      # 30 x 30 reference @ 10 m
src_t = from_origin(500050, 7000250, 2, 2)        # 100 x 100 source @ 2 m, inside the reference
base = rng.uniform(0.05, 0.4, (30, 30)).astype('float32')
ref = (base * 10000).round()                      # reflectance * 10000
ref[10:20, 10:20] = 3000                          # flat patch in the reference (10 x 10 pixels, kernel is 5 x 5)
src = np.kron(base[5:25, 5:25], np.ones((5, 5), 'float32')) * 0.8 + 0.02 + rng.normal(0, .01, (100, 100))
src = np.clip((src * 600).round(), 0, 255)        # 8 bit DN

write(f'{tmp}/src.tif', src, src_t)
results = {}
for c in [1, 2, 1e-4]:
    write(f'{tmp}/ref.tif', ref * c, ref_t)
    results[c] = fuse(f'{tmp}/src.tif', f'{tmp}/ref.tif', f'{tmp}/corr.tif', f'{tmp}/param.tif')

a0, m0, r0 = results[1]
fail = False
for c in [2, 1e-4]:
    a1, m1, r1 = results[c]
    both = m0 & m1
    rel = np.abs(a0[both] * c - a1[both]) / np.abs(a0[both] * c)
    fin = np.isfinite(r0) & np.isfinite(r1)
    r2_diff = np.abs(r0[fin] - r1[fin]).max()
    print(f'\n--- gain-offset, default options; reference x 1  versus  reference x {c}')
    print(f'demanded : corrected(c*ref) == c*corrected(ref), identical validity masks, identical R2')
    print(f'happened : validity differs in {int((m0 != m1).sum())} pixels')
    print(f'           max rel. difference of corrected values {rel.max():.3g}; '
          f'{int((rel > 1e-3).sum())} of {rel.size} pixels differ by > 1e-3, {int((rel > 0.05).sum())} by > 5%')
    print(f'           max abs. difference of R2 {r2_diff:.3g} (R2 range of run 1: {np.nanmin(r0[np.isfinite(r0)]):.3g} .. '
          f'{np.nanmax(r0[np.isfinite(r0)]):.3g})')
    if c != 2:
        fail |= bool((rel > 1e-3).any()) or r2_diff > 1e-2 or bool((m0 != m1).any())

print('\nVIOLATION' if fail else '\nno violation')
sys.exit(1 if fail else 0)
