"""
C07 demo 3: for an integer typed source that is not north-up (here: rotated by 15 degrees), the source gain is NOT
irrelevant: multiplying the source by the integer constants 10 or 256 (8 bit -> 16 bit range, exactly representable
in the uint16 files) changes the corrected image at the percent level.  The same images stored as float32 obey the
law to floating point noise (control).  Part B shows the mirror image for the reference scale when an integer
reference has to be brought into the source CRS.

Run with cwd = the homonim checkout:  /venv/bin/python demo3.py
"""
import os, sys, tempfile, warnings
sys.path.insert(0, os.getcwd())
import numpy as np
import cv2
import rasterio as rio
from affine import Affine
from rasterio.transform import from_origin
from rasterio.warp import transform as warp_transform
import homonim
from homonim import RasterFuse

warnings.simplefilter('ignore')
print('homonim from', homonim.__file__)


def write(path, arr, transform, dtype, crs='EPSG:32735'):
    with rio.open(path, 'w', driver='GTiff', width=arr.shape[1], height=arr.shape[0], count=1, dtype=dtype,
                  crs=crs, transform=transform) as ds:
        ds.write(arr.astype(dtype), 1)


def fuse(src, ref, out, model):
    with RasterFuse(src, ref) as f:
        f.process(out, model=model, kernel_shape=(5, 5), build_ovw=False, overwrite=True, block_config=dict(threads=1))
    with rio.open(out) as ds:
        return ds.read(1), ds.dataset_mask() > 0


rng = np.random.default_rng(5)
tmp = tempfile.mkdtemp()
# smooth 'surface reflectance' field at 2 m over 440 x 440 m
truth = cv2.GaussianBlur(rng.uniform(0, 1, (220, 220)), (0, 0), 6)
truth = (truth - truth.min()) / (truth.max() - truth.min())
ref_t = from_origin(500000, 7000440, 10, 10)
ref = (300 + 2500 * truth.reshape(44, 5, 44, 5).mean(axis=(1, 3))).round()        # reflectance * 10000, 44 x 44 @ 10 m
src_full = (15 + 120 * truth + rng.normal(0, 1.0, truth.shape)).round().clip(1, 255)  # 8 bit range DN @ 2 m
# rotated 80 x 80 source @ 2 m inside the reference
src_t = Affine.translation(500150, 7000250) * Affine.rotation(15) * Affine.scale(2, -2)
cols, rows = np.meshgrid(np.arange(80) + .5, np.arange(80) + .5)
xs, ys = src_t * (cols, rows)
src = src_full[((7000440 - ys) / 2).astype(int), ((xs - 500000) / 2).astype(int)]
print(f'source DN range {src.min():.0f}..{src.max():.0f}, reference range {ref.min():.0f}..{ref.max():.0f}')

fail = False
print('\n=== A: rotated source, source multiplied by k (demanded: corrected image unchanged)')
write(f'{tmp}/ref.tif', ref, ref_t, 'uint16')
for model in ['gain', 'gain-blk-offset', 'gain-offset']:
    for dtype in ['uint16', 'float32']:
        res = []
        for k in [1, 10, 256]:
            write(f'{tmp}/src.tif', src * k, src_t, dtype)      # exact in both dtypes (max 131 * 256 < 65535)
            res.append(fuse(f'{tmp}/src.tif', f'{tmp}/ref.tif', f'{tmp}/corr.tif', model))
        for k, (a, m) in zip([10, 256], res[1:]):
            both = res[0][1] & m
            rel = np.abs(res[0][0][both] - a[both]) / np.maximum(np.abs(res[0][0][both]), 1e-6)   # (zero filled corners -> 0)
            bad = int((rel > 1e-3).sum())
            print(f'{model:16s} {dtype:8s} k={k:<4d}: mask diff {int((res[0][1] != m).sum())}, max rel. diff of corrected '
                  f'{rel.max():.2e}, {bad} of {rel.size} pixels differ by > 1e-3' + ('   <-- control' if dtype == 'float32' else ''))
            if dtype == 'uint16':
                fail |= bad > 0

print('\n=== B: uint16 reference in another CRS (EPSG:4326), reference multiplied by c (demanded: corrected x c)')
lon, lat = warp_transform('EPSG:32735', 'EPSG:4326', [500000.], [7000440.])
res_deg = 1e-4
ref_t_geo = from_origin(lon[0] - 5 * res_deg, lat[0] + 5 * res_deg, res_deg, res_deg)
ref_geo = cv2.GaussianBlur(rng.uniform(0, 1, (60, 60)), (0, 0), 2)
ref_geo = (20 + 150 * (ref_geo - ref_geo.min()) / (ref_geo.max() - ref_geo.min())).round()   # 8 bit range reference
src_nu_t = from_origin(500100, 7000300, 2, 2)
src_nu = src_full[70:150, 50:130]
write(f'{tmp}/src.tif', src_nu, src_nu_t, 'uint16')
for dtype in ['uint16', 'float32']:
    res = []
    for c in [1, 10]:
        write(f'{tmp}/ref.tif', ref_geo * c, ref_t_geo, dtype, crs='EPSG:4326')
        res.append(fuse(f'{tmp}/src.tif', f'{tmp}/ref.tif', f'{tmp}/corr.tif', 'gain-blk-offset'))
    both = res[0][1] & res[1][1]
    rel = np.abs(res[0][0][both] * 10 - res[1][0][both]) / np.abs(res[0][0][both] * 10)
    bad = int((rel > 1e-3).sum())
    print(f'gain-blk-offset  {dtype:8s} c=10  : mask diff {int((res[0][1] != res[1][1]).sum())}, max rel. diff of corrected '
          f'{rel.max():.2e}, {bad} of {rel.size} pixels differ by > 1e-3' + ('   <-- control' if dtype == 'float32' else ''))
    if dtype == 'uint16':
        fail |= bad > 0

print('\nVIOLATION' if fail else '\nno violation')
sys.exit(1 if fail else 0)
