"""
C08 demo 1 - an image that homonim has to wrap in a WarpedVRT (other CRS than its partner, south-up or rotated) loses
its internal mask, and gets 'outside the image' areas that count as valid zeros.

Case A: the reference is in another CRS than the source (EPSG:4326 vs UTM) and marks its invalid pixels with an
        internal (per-dataset) GeoTIFF mask.  The same pixels / same validity pattern encoded as NaN nodata or as numeric
        nodata give identical results, the internal mask encoding does not: the masked pixels are used as valid zeros.
Case B: a rotated source whose pixels are ALL valid and that therefore needs no nodata value.  The corners of its
        north-up bounding box lie outside the image, but are treated as valid pixels with value 0.  Declaring
        nodata=nan on the same file (no pixel is nan) changes all results.

Run with cwd = the homonim checkout.  Exit code 1 when a violation occurs, else 0.
"""
import os
import sys
import tempfile
import warnings

os.environ['TQDM_DISABLE'] = '1'
sys.path.insert(0, os.getcwd())
import numpy as np
import rasterio as rio
from rasterio import Affine
from rasterio.crs import CRS
from rasterio.warp import transform_bounds

import homonim
from homonim import RasterFuse, RasterCompare

warnings.simplefilter('ignore')
print('homonim from', homonim.__file__)
tmp = tempfile.mkdtemp(prefix='c08_demo1_')
utm = CRS.from_epsg(32735)
wgs = CRS.from_epsg(4326)
rng = np.random.default_rng(0)


def write(path, array, valid, transform, crs, enc, hidden=0.):
    """ Write float32 ``array`` with the invalid pixels encoded as enc = 'nan' | 'num' | 'mask' | 'none'. """
    array = array.astype('float32').copy()
    prof = dict(driver='GTiff', dtype='float32', count=1, height=array.shape[0], width=array.shape[1], crs=crs,
                transform=transform)
    if enc == 'nan':
        array[~valid] = np.nan
        prof.update(nodata=float('nan'))
    elif enc == 'num':
        array[~valid] = -9999
        prof.update(nodata=-9999.)
    elif enc == 'mask':
        array[~valid] = hidden
    with rio.Env(GDAL_TIFF_INTERNAL_MASK=True), rio.open(path, 'w', **prof) as ds:
        ds.write(array, 1)
        if enc == 'mask':
            ds.write_mask(valid)
    return path


def run(src_file, ref_file, tag):
    """ Corrected image, parameter image and comparison statistics through the public API. """
    corr_file = os.path.join(tmp, f'corr_{tag}.tif')
    param_file = os.path.join(tmp, f'corr_{tag}_PARAM.tif')
    with RasterFuse(src_file, ref_file) as fuse:
        fuse.process(corr_file, param_filename=param_file, overwrite=True, build_ovw=False,
                     block_config=dict(threads=1))
    with RasterCompare(src_file, ref_file) as cmp:
        stats = cmp.process(threads=1)
    with rio.open(corr_file) as ds:
        corr = ds.read(1)
    with rio.open(param_file) as ds:
        param = ds.read()
    return corr, param, stats['Mean']


def identical(a, b):
    return a.shape == b.shape and np.array_equal(a, b, equal_nan=True)


def report(name, res, base):
    same = identical(res[0], base[0]) and identical(res[1], base[1]) and res[2] == base[2]
    print(f'  {name:<34} valid corrected pixels: {int(np.isfinite(res[0]).sum()):5d}   valid gains: '
          f'{int(np.isfinite(res[1][0]).sum()):4d}   compare N: {res[2]["n"]:5d}  RMSE: {res[2]["rmse"]:8.3f}'
          f'   -> {"identical to NaN-nodata run" if same else "DIFFERENT"}')
    return same


violation = False

# ---------------------------------------------------------------------------------------------------------------------
print('\nCase A: reference in another CRS, invalid reference pixels hidden by an internal mask')
src = rng.uniform(60, 120, (60, 60))
src_tr = Affine(10, 0, 500000, 0, -10, 7000000)
src_valid = np.ones(src.shape, bool)
src_file = write(os.path.join(tmp, 'a_src.tif'), src, src_valid, src_tr, utm, 'nan')

# reference in geographic co-ordinates, covering the source with a margin
res = 0.0003
wb = transform_bounds(utm, wgs, *rio.transform.array_bounds(60, 60, src_tr))
ref_shape = (int((wb[3] - wb[1]) / res) + 12, int((wb[2] - wb[0]) / res) + 12)
ref_tr = Affine(res, 0, wb[0] - 6 * res, 0, -res, wb[3] + 6 * res)
ref = rng.uniform(100, 200, ref_shape)
ref_valid = np.ones(ref_shape, bool)
ref_valid[12:18, 10:20] = False  # e.g. a cloud that the provider masked

results = {}
for enc, hidden in [('nan', 0), ('num', 0), ('mask', 150.), ('mask', 1e6)]:
    tag = f'a_{enc}_{hidden:g}'
    ref_file = write(os.path.join(tmp, f'ref_{tag}.tif'), ref, ref_valid, ref_tr, wgs, enc, hidden)
    results[(enc, hidden)] = run(src_file, ref_file, tag)
base = results[('nan', 0)]
print('  demanded: all four encodings of the same validity pattern give identical results')
report('NaN nodata', base, base)
report('numeric nodata (-9999)', results[('num', 0)], base)
ok1 = report('internal mask, hidden value 150', results[('mask', 150.)], base)
ok2 = report('internal mask, hidden value 1e6', results[('mask', 1e6)], base)
if not (ok1 and ok2):
    violation = True
    d = results[('mask', 150.)][0] - base[0]
    print(f'  max |corrected(mask) - corrected(nan)| over commonly valid pixels: {np.nanmax(np.abs(d)):.3f}')

# ---------------------------------------------------------------------------------------------------------------------
print('\nCase B: rotated source with all pixels valid and no nodata value - the area outside the image')
ref = rng.uniform(100, 200, (80, 80))
ref_tr = Affine(30, 0, 499000, 0, -30, 7002000)
ref_file = write(os.path.join(tmp, 'b_ref.tif'), ref, np.ones(ref.shape, bool), ref_tr, utm, 'nan')
src = rng.uniform(60, 120, (60, 60))
src_tr = Affine.translation(500300, 7000700) * Affine.rotation(-30) * Affine.scale(10, -10)
all_valid = np.ones(src.shape, bool)
# identical pixel data (no pixel is nan): once without any nodata / mask, once with nodata=nan declared
src_none = write(os.path.join(tmp, 'b_src_none.tif'), src, all_valid, src_tr, utm, 'none')
src_nan = write(os.path.join(tmp, 'b_src_nan.tif'), src, all_valid, src_tr, utm, 'nan')
res_nan = run(src_nan, ref_file, 'b_nan')
res_none = run(src_none, ref_file, 'b_none')
print('  demanded: 3600 valid corrected pixels (60 x 60 source), nothing outside the image influences the results')
report('nodata=nan declared (no nan pixels)', res_nan, res_nan)
ok3 = report('no nodata, no mask', res_none, res_nan)
if not ok3:
    violation = True
    n_zero = int((np.isfinite(res_none[0]) & ~np.isfinite(res_nan[0])).sum())
    print(f'  {n_zero} corrected pixels outside the rotated image are valid in the output')

print('\nVIOLATION' if violation else '\nno violation')
sys.exit(1 if violation else 0)
