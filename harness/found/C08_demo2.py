"""
C08 demo 2 - pixels hidden by an alpha band are only treated as invalid when GDAL itself derives the band masks from
the alpha band, i.e. for Byte / UInt16 images with exactly 2 (gray + alpha) or 4 (RGB + alpha) bands and no nodata
value.  homonim recognises the alpha band in every other layout too (it is excluded from the bands to correct), but
does not use it as a mask, so that the hidden values influence all results.

Source: 4 spectral bands (e.g. R, G, B, NIR of a drone ortho-mosaic) + alpha band, uint16, north-up, same CRS as the
reference.  The same pixels and validity pattern are also encoded as NaN nodata, as an internal mask and (one band
only) as gray + alpha.

Variants (reported, same root cause): gray + alpha uint16 that also has a nodata value; gray + alpha float32.

Run with cwd = the homonim checkout.  Exit code 1 when a violation occurs, else 0.
"""
import os
import sys
import tempfile
import warnings

os.environ['TQDM_DISABLE'] = '1'
sys.path.insert(0, os.getcwd())
import numpy as np
import rasterio as rio
from rasterio import Affine
from rasterio.crs import CRS
from rasterio.enums import ColorInterp

import homonim
from homonim import RasterFuse, RasterCompare

warnings.simplefilter('ignore')
print('homonim from', homonim.__file__)
tmp = tempfile.mkdtemp(prefix='c08_demo2_')
crs = CRS.from_epsg(32735)
rng = np.random.default_rng(3)

# reference: 4 bands, 30 m, all valid;  source: 4 bands, 10 m, inside the reference
ref = np.round(rng.uniform(1000, 2000, (4, 30, 30)))
ref_tr = Affine(30, 0, 500000, 0, -30, 7000000)
src = np.round(rng.uniform(600, 1200, (4, 72, 72)))
src_tr = Affine(10, 0, 500090, 0, -10, 6999910)
valid = np.ones((72, 72), bool)
valid[:, :12] = False  # a strip outside the flight area
valid[30:45, 40:60] = False  # a hole
HIDDEN = 40000  # what is stored under the invalid pixels


def write(path, array, valid, transform, enc, dtype='uint16', nodata=None):
    """ enc = 'nan' | 'mask' | 'alpha' (alpha band appended as last band). """
    array = array.astype('float64').copy()
    count = array.shape[0]
    prof = dict(driver='GTiff', dtype=dtype, count=count + (enc == 'alpha'), height=array.shape[1],
                width=array.shape[2], crs=crs, transform=transform)
    if enc == 'nan':
        array[:, ~valid] = np.nan
        prof.update(nodata=float('nan'))
    else:
        array[:, ~valid] = HIDDEN
    if nodata is not None:
        prof.update(nodata=nodata)
    with rio.Env(GDAL_TIFF_INTERNAL_MASK=True), rio.open(path, 'w', **prof) as ds:
        ds.write(array.astype(dtype), indexes=list(range(1, count + 1)))
        if enc == 'mask':
            ds.write_mask(valid)
        elif enc == 'alpha':
            ds.write((valid * 65535).astype(dtype), indexes=count + 1)
            ds.colorinterp = [ColorInterp.gray] + [ColorInterp.undefined] * (count - 1) + [ColorInterp.alpha]
    return path


def run(src_file, ref_file, tag):
    corr_file = os.path.join(tmp, f'corr_{tag}.tif')
    param_file = os.path.join(tmp, f'corr_{tag}_PARAM.tif')
    with RasterFuse(src_file, ref_file) as fuse:
        src_bands = fuse.src_bands
        fuse.process(corr_file, param_filename=param_file, overwrite=True, build_ovw=False,
                     block_config=dict(threads=1))
    with RasterCompare(src_file, ref_file) as cmp:
        stats = cmp.process(threads=1)
    with rio.open(corr_file) as ds:
        corr = ds.read()
    with rio.open(param_file) as ds:
        param = ds.read()
    return corr, param, stats['Mean'], src_bands


def identical(a, b):
    return a.shape == b.shape and np.array_equal(a, b, equal_nan=True)


def report(name, res, base):
    same = identical(res[0], base[0]) and identical(res[1], base[1]) and res[2] == base[2]
    print(f'  {name:<36} bands used: {res[3]}  valid corrected pixels (band 1): '
          f'{int(np.isfinite(res[0][0]).sum()):5d}  compare N: {res[2]["n"]:4d}  RMSE: {res[2]["rmse"]:9.2f}'
          f'  -> {"identical to NaN-nodata run" if same else "DIFFERENT"}')
    return same


n_valid = int(valid.sum())
print(f'\n4 spectral bands: demanded {n_valid} valid corrected pixels per band and identical results for all encodings')
ref_file = write(os.path.join(tmp, 'ref4.tif'), ref, np.ones((30, 30), bool), ref_tr, 'nan', dtype='float32')
base = run(write(os.path.join(tmp, 'src4_nan.tif'), src, valid, src_tr, 'nan', dtype='float32'), ref_file, '4nan')
report('NaN nodata (float32)', base, base)
report('internal mask (uint16)', run(write(os.path.join(tmp, 'src4_mask.tif'), src, valid, src_tr, 'mask'), ref_file,
                                     '4mask'), base)
alpha_file = write(os.path.join(tmp, 'src4_alpha.tif'), src, valid, src_tr, 'alpha')
with rio.open(alpha_file) as ds:
    print(f'  (alpha file: {ds.count} bands, colorinterp {[c.name for c in ds.colorinterp]}, GDAL mask flags of band 1: '
          f'{[f.name for f in ds.mask_flag_enums[0]]})')
ok_main = report('4 bands + alpha band (uint16)', run(alpha_file, ref_file, '4alpha'), base)

print(f'\n1 spectral band: demanded {n_valid} valid corrected pixels and identical results for all encodings')
ref1_file = write(os.path.join(tmp, 'ref1.tif'), ref[:1], np.ones((30, 30), bool), ref_tr, 'nan', dtype='float32')
base1 = run(write(os.path.join(tmp, 'src1_nan.tif'), src[:1], valid, src_tr, 'nan', dtype='float32'), ref1_file, '1nan')
report('NaN nodata (float32)', base1, base1)
report('gray + alpha (uint16)', run(write(os.path.join(tmp, 'src1_alpha.tif'), src[:1], valid, src_tr, 'alpha'),
                                    ref1_file, '1alpha'), base1)
ok_var1 = report('gray + alpha (uint16) + nodata=0', run(
    write(os.path.join(tmp, 'src1_alpha_nd.tif'), src[:1], valid, src_tr, 'alpha', nodata=0), ref1_file, '1alphand'
), base1)
ok_var2 = report('gray + alpha (float32)', run(
    write(os.path.join(tmp, 'src1_alpha_f32.tif'), src[:1], valid, src_tr, 'alpha', dtype='float32'), ref1_file,
    '1alphaf32'
), base1)

violation = not ok_main
if not (ok_var1 and ok_var2):
    print('\n(variants with alpha + nodata value / float32 alpha also ignore the alpha band)')
print('\nVIOLATION' if violation else '\nno violation')
sys.exit(1 if violation else 0)
