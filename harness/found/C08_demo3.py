"""
C08 demo 3 - nodata-valued pixels of a band are only recognised when that band has the same nodata value as the
FIRST band of the file.  GDAL nodata values are per band; homonim masks every band with the dataset's first nodata
value, so that in a file whose bands have different nodata values (here: a `gdalbuildvrt -separate` style VRT that
stacks two single band GeoTIFFs with nodata 0 and 65535) the invalid pixels of the other bands are used as valid data.

The same pixels and validity pattern encoded as NaN nodata (2 band float32 GeoTIFF) serve as the baseline.

Run with cwd = the homonim checkout.  Exit code 1 when a violation occurs, else 0.
"""
import os
import sys
import tempfile
import warnings
from xml.sax.saxutils import escape

os.environ['TQDM_DISABLE'] = '1'
sys.path.insert(0, os.getcwd())
import numpy as np
import rasterio as rio
from rasterio import Affine
from rasterio.crs import CRS

import homonim
from homonim import RasterFuse, RasterCompare

warnings.simplefilter('ignore')
print('homonim from', homonim.__file__)
tmp = tempfile.mkdtemp(prefix='c08_demo3_')
crs = CRS.from_epsg(32735)
rng = np.random.default_rng(5)

ref = np.round(rng.uniform(1000, 2000, (2, 30, 30)))
ref_tr = Affine(30, 0, 500000, 0, -30, 7000000)
src = np.round(rng.uniform(600, 1200, (2, 72, 72)))
src_tr = Affine(10, 0, 500090, 0, -10, 6999910)
valid = np.ones((72, 72), bool)
valid[:, :12] = False
valid[30:45, 40:60] = False


def write(path, array, valid, transform, nodata, dtype):
    array = array.astype('float64').copy()
    array[:, ~valid] = nodata
    prof = dict(driver='GTiff', dtype=dtype, count=array.shape[0], height=array.shape[1], width=array.shape[2], crs=crs,
                transform=transform, nodata=nodata)
    with rio.open(path, 'w', **prof) as ds:
        ds.write(array.astype(dtype))
    return path


def run(src_file, ref_file, tag):
    corr_file = os.path.join(tmp, f'corr_{tag}.tif')
    param_file = os.path.join(tmp, f'corr_{tag}_PARAM.tif')
    with RasterFuse(src_file, ref_file) as fuse:
        fuse.process(corr_file, param_filename=param_file, overwrite=True, build_ovw=False,
                     block_config=dict(threads=1))
    with RasterCompare(src_file, ref_file) as cmp:
        stats = cmp.process(threads=1)
    with rio.open(corr_file) as ds:
        corr = ds.read()
    with rio.open(param_file) as ds:
        param = ds.read()
    return corr, param, stats


ref_file = write(os.path.join(tmp, 'ref.tif'), ref, np.ones((30, 30), bool), ref_tr, float('nan'), 'float32')
src_nan = write(os.path.join(tmp, 'src_nan.tif'), src, valid, src_tr, float('nan'), 'float32')

# the two source bands as separate uint16 files with different nodata values, stacked in a VRT
band_nodata = [0, 65535]
for bi, nodata in enumerate(band_nodata):
    write(os.path.join(tmp, f'src_b{bi + 1}.tif'), src[bi:bi + 1], valid, src_tr, nodata, 'uint16')
vrt = (
    f'<VRTDataset rasterXSize="72" rasterYSize="72"><SRS>{escape(crs.to_wkt())}</SRS>'
    f'<GeoTransform>{", ".join(repr(float(v)) for v in src_tr.to_gdal())}</GeoTransform>'
)
for bi, nodata in enumerate(band_nodata):
    vrt += (
        f'<VRTRasterBand dataType="UInt16" band="{bi + 1}"><NoDataValue>{nodata}</NoDataValue><ComplexSource>'
        f'<SourceFilename relativeToVRT="1">src_b{bi + 1}.tif</SourceFilename><SourceBand>1</SourceBand>'
        f'<NODATA>{nodata}</NODATA></ComplexSource></VRTRasterBand>'
    )
vrt += '</VRTDataset>'
src_vrt = os.path.join(tmp, 'src.vrt')
with open(src_vrt, 'w') as f:
    f.write(vrt)
with rio.open(src_vrt) as ds:
    print(f'src.vrt: nodatavals={ds.nodatavals}, mask flags={[[f.name for f in fl] for fl in ds.mask_flag_enums]}')
    gdal_valid = [int((ds.read_masks(bi) > 0).sum()) for bi in (1, 2)]
    print(f'         valid pixels per band according to GDAL: {gdal_valid}')

base = run(src_nan, ref_file, 'nan')
res = run(src_vrt, ref_file, 'vrt')
n_valid = int(valid.sum())
print(f'\ndemanded: {n_valid} valid corrected pixels in both bands, results identical to the NaN nodata encoding')
violation = False
for bi in range(2):
    key = list(base[2].keys())[bi]
    same = (
        np.array_equal(res[0][bi], base[0][bi], equal_nan=True) and
        np.array_equal(res[1][bi::2], base[1][bi::2], equal_nan=True) and res[2][key] == base[2][key]
    )
    violation |= not same
    print(f'  band {bi + 1} (nodata {band_nodata[bi]:5d}): valid corrected pixels NaN-encoding / VRT: '
          f'{int(np.isfinite(base[0][bi]).sum())} / {int(np.isfinite(res[0][bi]).sum())},  compare N: '
          f'{base[2][key]["n"]} / {res[2][key]["n"]},  RMSE: {base[2][key]["rmse"]:.2f} / {res[2][key]["rmse"]:.2f}'
          f'  -> {"identical" if same else "DIFFERENT"}')

print('\nVIOLATION' if violation else '\nno violation')
sys.exit(1 if violation else 0)
