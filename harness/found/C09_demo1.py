"""
C09 demo 1: image files are left open after a failed (and after a successful) run, when the source or the reference
image is wrapped in a WarpedVRT (reference in another CRS than the source, or a south-up / rotated image).

Property: '... Processing then terminates (no deadlock), every image file is closed, and the same reader object can be
used again.'

Run with cwd = the homonim checkout.  Exits 1 when the violation occurs, 0 otherwise.
"""
import os
import sys
import tempfile
import warnings

sys.path.insert(0, os.getcwd())
warnings.simplefilter('ignore')

import numpy as np
import rasterio as rio
from rasterio.crs import CRS
from rasterio.transform import from_origin, from_bounds
from rasterio.warp import transform_bounds

import homonim
from homonim import RasterFuse, RasterCompare

print('homonim:', homonim.__file__)


def make_image(path, count, height, width, transform, crs, seed=0, **kwargs):
    rng = np.random.default_rng(seed)
    yy, xx = np.mgrid[0:height, 0:width]
    array = np.stack([
        100 + 50 * np.sin(xx / 7. + b) + 30 * np.cos(yy / 5.) + rng.normal(0, 2, (height, width))
        for b in range(count)
    ]).astype('float32')  # yapf: disable
    profile = dict(
        driver='GTiff', count=count, height=height, width=width, dtype='float32', crs=CRS.from_string(crs),
        transform=transform, nodata=0, **kwargs
    )
    with rio.open(path, 'w', **profile) as ds:
        ds.write(array)
    return path


def open_files(tmp_dir):
    """ Paths of the files in tmp_dir that this process has open. """
    paths = []
    for fd in os.listdir('/proc/self/fd'):
        try:
            path = os.readlink(f'/proc/self/fd/{fd}')
        except OSError:
            continue
        if path.startswith(tmp_dir):
            paths.append(os.path.basename(path))
    return sorted(paths)


violated = False
with tempfile.TemporaryDirectory() as tmp_dir:
    tmp_dir = os.path.realpath(tmp_dir)
    # north-up 1 m UTM source, tiled + compressed so that a single tile can be damaged
    src_file = make_image(
        os.path.join(tmp_dir, 'source.tif'), 2, 256, 256, from_origin(500010., 5999990., 1., 1.), 'EPSG:32634',
        tiled=True, blockxsize=64, blockysize=64, compress='deflate',
    )
    # ~3 m reference in geographic co-ordinates (WGS84), covering the source with a margin
    src_bounds = (500010. - 60, 5999990. - 256 - 60, 500010. + 256 + 60, 5999990. + 60)
    ref_bounds = transform_bounds('EPSG:32634', 'EPSG:4326', *src_bounds)
    ref_file = make_image(
        os.path.join(tmp_dir, 'reference.tif'), 2, 128, 128, from_bounds(*ref_bounds, 128, 128), 'EPSG:4326', seed=1,
    )
    corr_file = os.path.join(tmp_dir, 'corrected.tif')

    # ---- (a) a successful run, for information
    fuse = RasterFuse(src_file, ref_file)
    with fuse:
        fuse.process(corr_file, block_config=dict(threads=1), build_ovw=False)
    print('(a) successful fuse: files still open after the `with` block:', open_files(tmp_dir))

    # ---- (b) a run in which reading a block fails: damage one tile of the source (e.g. an incomplete download)
    size = os.path.getsize(src_file)
    with open(src_file, 'r+b') as f:
        f.seek(size // 2)
        f.write(os.urandom(3000))

    for name, cls, threads in [('fuse', RasterFuse, 1), ('fuse', RasterFuse, 2), ('compare', RasterCompare, 2)]:
        reader = cls(src_file, ref_file)
        raised = None
        try:
            with reader:
                if cls is RasterFuse:
                    reader.process(
                        corr_file, overwrite=True, build_ovw=False,
                        block_config=dict(threads=threads, max_block_mem=0.01)
                    )
                else:
                    reader.process(threads=threads, max_block_mem=0.01)
        except Exception as ex:
            raised = ex
        still_open = open_files(tmp_dir)
        ref_im = reader._ref_im
        print(f'(b) {name}, threads={threads}: raised {type(raised).__name__ if raised else None}')
        print(f'    demanded: no image file open after the failed call;  found open: {still_open}')
        print(
            f'    reader._ref_im is a {type(ref_im).__name__}, closed={ref_im.closed}; the dataset it wraps: '
            f'closed={ref_im.src_dataset.closed}'
        )
        if raised is None:
            print('    (unexpected: the damaged block did not raise)')
        if still_open:
            violated = True

        # the reader can be used again - but every use leaves another dataset open
        try:
            with reader:
                pass
        except Exception as ex:
            print('    re-entering the reader failed:', ex)
        del reader, ref_im

print('VIOLATION: image files are left open after the failed call' if violated else 'no violation')
sys.exit(1 if violated else 0)
