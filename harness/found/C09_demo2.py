"""
C09 demo 2: a failed write of corrected blocks is swallowed - `homonim fuse` exits with status 0 and
`RasterFuse.process()` returns normally, while the corrected file is truncated and cannot be read.

Property: 'If reading, fitting, applying or writing fails for any block ... the API call raises and the command line
exits with a non-zero status - a zero exit status implies every block of every band was processed and written.'

The write failure is the everyday one: the file system refuses more data (disk full / quota / `ulimit -f`).  It is
produced here with RLIMIT_FSIZE (what `ulimit -f` sets) in a child process, so nothing in homonim, rasterio or GDAL is
patched.  Creation options are the homonim defaults; `--max-block-mem 0.3` just makes this small image a multi-block
one, like any image larger than the default 100 MB block is.

Run with cwd = the homonim checkout.  Exits 1 when the violation occurs, 0 otherwise.
"""
import os
import resource
import signal
import subprocess
import sys
import tempfile
import warnings

sys.path.insert(0, os.getcwd())
warnings.simplefilter('ignore')

import numpy as np
import rasterio as rio
from rasterio.crs import CRS
from rasterio.transform import from_origin

import homonim

print('homonim:', homonim.__file__)
FSIZE_LIMIT = 300000  # bytes


def make_image(path, count, height, width, transform, seed=0):
    rng = np.random.default_rng(seed)
    yy, xx = np.mgrid[0:height, 0:width]
    array = np.stack([
        100 + 50 * np.sin(xx / 7. + b) + 30 * np.cos(yy / 5.) + rng.normal(0, 2, (height, width))
        for b in range(count)
    ]).astype('float32')  # yapf: disable
    profile = dict(
        driver='GTiff', count=count, height=height, width=width, dtype='float32', crs=CRS.from_epsg(32634),
        transform=transform, nodata=0
    )
    with rio.open(path, 'w', **profile) as ds:
        ds.write(array)
    return path


def limit_file_size():
    """ Equivalent of `ulimit -f` (with SIGXFSZ ignored, so that writes fail with EFBIG, like ENOSPC on a full disk). """
    signal.signal(signal.SIGXFSZ, signal.SIG_IGN)
    resource.setrlimit(resource.RLIMIT_FSIZE, (FSIZE_LIMIT, FSIZE_LIMIT))


def check_output(path, expected=None):
    """ Return (ok, description) for a corrected file. """
    if not os.path.exists(path):
        return False, 'missing'
    try:
        with rio.open(path) as ds:
            array = ds.read()
    except Exception as ex:
        return False, f'{os.path.getsize(path)} bytes, cannot be read: {type(ex).__name__}: {str(ex)[:90]}'
    if expected is not None and not np.array_equal(array, expected, equal_nan=True):
        return False, f'{os.path.getsize(path)} bytes, readable, but differs from the un-limited result'
    return True, f'{os.path.getsize(path)} bytes, readable, {np.isfinite(array).mean():.0%} valid pixels'


cli_code = 'import sys, os; sys.path.insert(0, os.getcwd()); from homonim.cli import cli; cli()'
api_code = '''
import sys, os, warnings
sys.path.insert(0, os.getcwd()); warnings.simplefilter('ignore')
from homonim import RasterFuse
src_file, ref_file, corr_file, threads = sys.argv[1:]
with RasterFuse(src_file, ref_file) as fuse:
    try:
        fuse.process(corr_file, build_ovw=False, block_config=dict(threads=int(threads), max_block_mem=0.3))
        print('RasterFuse.process() returned normally')
    except Exception as ex:
        print('RasterFuse.process() raised', type(ex).__name__)
        sys.exit(3)
'''

violated = False
with tempfile.TemporaryDirectory() as tmp_dir:
    src_file = make_image(os.path.join(tmp_dir, 'source.tif'), 3, 700, 700, from_origin(500010., 5999990., 1., 1.))
    ref_file = make_image(os.path.join(tmp_dir, 'reference.tif'), 3, 260, 260, from_origin(500000., 6000000., 3., 3.), 1)
    args = ['fuse', '--no-build-ovw', '--max-block-mem', '0.3', '--overwrite']

    def run_cli(out_dir, limited, threads):
        os.makedirs(out_dir, exist_ok=True)
        res = subprocess.run(
            [sys.executable, '-c', cli_code, *args, '--threads', str(threads), '--out-dir', out_dir, src_file, ref_file],
            capture_output=True, text=True, preexec_fn=limit_file_size if limited else None,
        )  # yapf: disable
        outs = [os.path.join(out_dir, f) for f in os.listdir(out_dir)]
        return res, (outs[0] if outs else os.path.join(out_dir, 'none'))

    # control: without the limit
    res, ctrl_file = run_cli(os.path.join(tmp_dir, 'control'), False, 2)
    ok, descr = check_output(ctrl_file)
    print(f'control (no limit):   exit status {res.returncode}; corrected file: {descr}')
    with rio.open(ctrl_file) as ds:
        expected = ds.read()

    for threads, api_threads in [(2, 1)]:
        # command line
        res, out_file = run_cli(os.path.join(tmp_dir, f'cli_{threads}'), True, threads)
        ok, descr = check_output(out_file, expected)
        gdal_errors = sorted({l for l in res.stderr.splitlines() if 'File too large' in l})
        print(f'homonim fuse, threads={threads}, file size limited to {FSIZE_LIMIT} bytes:')
        print(f'    demanded: non-zero exit status, or a complete corrected file')
        print(f'    found:    exit status {res.returncode}; corrected file: {descr}')
        print(f'    GDAL messages on stderr: {gdal_errors}')
        if res.returncode == 0 and not ok:
            violated = True

        # API
        threads = api_threads
        out_file = os.path.join(tmp_dir, f'api_{threads}.tif')
        res = subprocess.run(
            [sys.executable, '-c', api_code, src_file, ref_file, out_file, str(threads)], capture_output=True, text=True,
            preexec_fn=limit_file_size,
        )
        ok, descr = check_output(out_file, expected)
        print(f'RasterFuse.process(), threads={threads}, same limit:')
        print(f'    demanded: an exception, or a complete corrected file')
        print(f'    found:    {res.stdout.strip()} (child exit status {res.returncode}); corrected file: {descr}')
        if res.returncode == 0 and not ok:
            violated = True

print('VIOLATION: zero exit status / normal return although corrected blocks were not written' if violated
      else 'no violation')
sys.exit(1 if violated else 0)
