"""
C09 demo 3: after a block write has failed, RasterFuse.process() does not raise - the process is killed by SIGSEGV.

Property: 'If ... writing fails for any block ... the API call raises ... Processing then terminates (no deadlock),
every image file is closed, and the same reader object can be used again.'

All options are the defaults (so build_ovw=True).  The write failure is a full disk / quota / `ulimit -f`, produced with
RLIMIT_FSIZE in a child process; nothing is patched.  The block write raises RasterioIOError as it should, but the
`finally` clause of RasterFuse._out_files() then sets metadata and builds overviews on the dataset whose write failed,
and GDAL crashes in DatasetWriter.build_overviews().  With build_ovw=False, the same input raises cleanly.
(The command line does exit non-zero: -11.  What is violated is 'the API call raises', and with it the closing of
files and the re-usability of the reader: the caller never gets control back.)

Run with cwd = the homonim checkout.  Exits 1 when the violation occurs, 0 otherwise.
"""
import os
import resource
import signal
import subprocess
import sys
import tempfile
import warnings

sys.path.insert(0, os.getcwd())
warnings.simplefilter('ignore')

import numpy as np
import rasterio as rio
from rasterio.crs import CRS
from rasterio.transform import from_origin

import homonim

print('homonim:', homonim.__file__)
FSIZE_LIMIT = 300000  # bytes


def make_image(path, count, height, width, transform, seed=0):
    rng = np.random.default_rng(seed)
    yy, xx = np.mgrid[0:height, 0:width]
    array = np.stack([
        100 + 50 * np.sin(xx / 7. + b) + 30 * np.cos(yy / 5.) + rng.normal(0, 2, (height, width))
        for b in range(count)
    ]).astype('float32')  # yapf: disable
    profile = dict(
        driver='GTiff', count=count, height=height, width=width, dtype='float32', crs=CRS.from_epsg(32634),
        transform=transform, nodata=0
    )
    with rio.open(path, 'w', **profile) as ds:
        ds.write(array)
    return path


def limit_file_size():
    """ Equivalent of `ulimit -f` (with SIGXFSZ ignored, so that writes fail with EFBIG, like ENOSPC on a full disk). """
    signal.signal(signal.SIGXFSZ, signal.SIG_IGN)
    resource.setrlimit(resource.RLIMIT_FSIZE, (FSIZE_LIMIT, FSIZE_LIMIT))


api_code = '''
import sys, os, warnings, faulthandler
faulthandler.enable()
sys.path.insert(0, os.getcwd()); warnings.simplefilter('ignore')
from homonim import RasterFuse
src_file, ref_file, corr_file, threads, build_ovw = sys.argv[1:]
fuse = RasterFuse(src_file, ref_file)
try:
    with fuse:
        fuse.process(corr_file, build_ovw=(build_ovw == 'True'), block_config=dict(threads=int(threads)))
    print('process() returned normally')
except Exception as ex:
    print('process() raised', type(ex).__name__, '- reader closed:', fuse.closed)
    sys.exit(3)
'''

violated = False
with tempfile.TemporaryDirectory() as tmp_dir:
    src_file = make_image(os.path.join(tmp_dir, 'source.tif'), 3, 512, 512, from_origin(500010., 5999990., 1., 1.))
    ref_file = make_image(os.path.join(tmp_dir, 'reference.tif'), 3, 200, 200, from_origin(500000., 6000000., 3., 3.), 1)

    for threads in (1, 2):
        for build_ovw in (False, True):
            out_file = os.path.join(tmp_dir, f'corrected_{threads}_{build_ovw}.tif')
            res = subprocess.run(
                [sys.executable, '-c', api_code, src_file, ref_file, out_file, str(threads), str(build_ovw)],
                capture_output=True, text=True, preexec_fn=limit_file_size,
            )
            crashed = res.returncode < 0
            where = [l.strip() for l in res.stderr.splitlines() if 'fuse.py' in l and ' in ' in l][:2]
            print(f'RasterFuse.process(build_ovw={build_ovw}), threads={threads}, file size limited to {FSIZE_LIMIT} bytes:')
            print('    demanded: the call raises, the reader is closed and usable again')
            print(
                f'    found:    {res.stdout.strip() or "no exception reached the caller"}; child exit status '
                f'{res.returncode}' + (f' (killed by {signal.Signals(-res.returncode).name})' if crashed else '')
            )
            if crashed:
                print(f'    crash location (faulthandler): {where}')
                violated = True

print('VIOLATION: the process is killed instead of the API call raising' if violated else 'no violation')
sys.exit(1 if violated else 0)
