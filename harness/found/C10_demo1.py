"""
C10 demo 1 - re-running with overwrite DELETES metadata files of the SOURCE image (input side-cars).

Property: "Source, reference and parameter input files are never modified and no files other than the requested
outputs (and their format side-cars) appear [or disappear]".  "With overwrite, the new output replaces the old one".

homonim does not remove an existing output itself, it relies on rasterio.open(path, 'w') / GDAL Create, which delete
the existing *dataset*, i.e. every file GDAL lists as belonging to it.  For a GeoTIFF that list includes the vendor
metadata files GDAL's metadata readers find next to it:
  * SPOT / DIMAP : a file METADATA.DIM in the same directory is attached to ANY GeoTIFF in that directory
  * Landsat      : <name up to the first "_B">_MTL.txt, e.g. for LC08_..._B4_FUSE_cREF_mGAIN-BLK-OFFSET_k5_5.tif
                   that is the scene's LC08_..._MTL.txt
The CLI writes corrected images into the source image's directory by default, i.e. exactly next to these files.
So:   homonim fuse IMAGERY.TIF ref.tif ; homonim fuse --overwrite IMAGERY.TIF ref.tif    deletes METADATA.DIM.

Run with cwd = the homonim checkout:  /venv/bin/python demo1.py      exit 1 = violation seen, 0 = not seen
"""
import hashlib
import os
import sys
import tempfile
import warnings
from pathlib import Path

sys.path.insert(0, os.getcwd())
import numpy as np
import rasterio as rio
from rasterio.transform import from_origin
from click.testing import CliRunner

import homonim
from homonim import RasterFuse, Model
from homonim.cli import cli

warnings.simplefilter('ignore')
print('homonim from', homonim.__file__)


def make(path, shape, res, origin, seed, count=3):
    rng = np.random.default_rng(seed)
    arr = (rng.random((count, *shape)) * 100 + 50).astype('float32')
    prof = dict(
        driver='GTiff', width=shape[1], height=shape[0], count=count, dtype='float32', crs='EPSG:32735',
        transform=from_origin(origin[0], origin[1], res, res), nodata=float('nan')
    )
    with rio.open(path, 'w', **prof) as ds:
        ds.write(arr)


def snap(d):
    return {p.name: hashlib.md5(p.read_bytes()).hexdigest() for p in sorted(Path(d).iterdir())}


def report(label, before, after, outputs):
    deleted = sorted(set(before) - set(after))
    changed = sorted(k for k in before if k in after and before[k] != after[k] and k not in outputs)
    print(f'{label}: deleted = {deleted}, inputs changed = {changed}')
    return bool(deleted or changed)


violation = False
runner = CliRunner()

# ---- case A: SPOT (DIMAP) product directory, CLI with default output directory (= source directory) -----------------
d = Path(tempfile.mkdtemp(prefix='c10_demo1_spot_'))
make(d / 'ref.tif', (20, 20), 10., (-30., 170.), 1)
make(d / 'IMAGERY.TIF', (40, 40), 2., (0., 120.), 2)
(d / 'METADATA.DIM').write_text(
    '<?xml version="1.0"?><Dimap_Document><Metadata_Id><METADATA_FORMAT version="1.1">DIMAP</METADATA_FORMAT>'
    '</Metadata_Id></Dimap_Document>'
)
out_name = 'IMAGERY_FUSE_cREF_mGAIN-BLK-OFFSET_k5_5.tif'
res = runner.invoke(cli, ['fuse', str(d / 'IMAGERY.TIF'), str(d / 'ref.tif')])
assert res.exit_code == 0, res.output
s1 = snap(d)
print('A. SPOT scene dir after 1st run :', sorted(s1))
res = runner.invoke(cli, ['fuse', '--overwrite', str(d / 'IMAGERY.TIF'), str(d / 'ref.tif')])
assert res.exit_code == 0, res.output
s2 = snap(d)
print('A. SPOT scene dir after 2nd run :', sorted(s2))
print('   property demands             : only', out_name, 'is replaced, everything else is untouched')
violation |= report('   observed', s1, s2, [out_name])

# ---- case B: Landsat scene directory, API, str / Path, user chosen output name in the scene directory ---------------
d = Path(tempfile.mkdtemp(prefix='c10_demo1_landsat_'))
scene = 'LC08_L1TP_170078_20200101_20200113_01_T1'
make(d / 'modis_ref.tif', (20, 20), 10., (-30., 170.), 1, count=1)
make(d / f'{scene}_B4.TIF', (40, 40), 2., (0., 120.), 2, count=1)
(d / f'{scene}_MTL.txt').write_text('GROUP = L1_METADATA_FILE\n  GROUP = METADATA_FILE_INFO\n  END_GROUP = METADATA_FILE_INFO\nEND_GROUP = L1_METADATA_FILE\nEND\n')
corr = d / f'{scene}_B4_corrected.tif'
with RasterFuse(str(d / f'{scene}_B4.TIF'), d / 'modis_ref.tif') as fuse:
    fuse.process(str(corr), Model.gain_blk_offset, (5, 5))
    s1 = snap(d)
    print('B. Landsat scene dir after 1st run :', sorted(s1))
    fuse.process(corr, Model.gain_blk_offset, (5, 5), overwrite=True)
s2 = snap(d)
print('B. Landsat scene dir after 2nd run :', sorted(s2))
print('   property demands                : only', corr.name, 'is replaced, everything else is untouched')
violation |= report('   observed', s1, s2, [corr.name])

print('VIOLATION' if violation else 'no violation')
sys.exit(1 if violation else 0)
