"""
C10 demo 2 - `homonim fuse` with several SOURCE files creates new output files BEFORE it fails with FileExistsError.

Property: unless overwrite is requested, "the call fails with FileExistsError before any file is created or truncated".
For a CLI invocation with more than one source image, the existence check is only made per source, inside the loop:
the outputs of the earlier sources are created (corrected + parameter image) and only then the invocation aborts
on the FileExistsError of a later source.  (The pre-existing file itself is left untouched.)

Run with cwd = the homonim checkout:  /venv/bin/python demo2.py      exit 1 = violation seen, 0 = not seen
"""
import hashlib
import os
import sys
import tempfile
import warnings
from pathlib import Path

sys.path.insert(0, os.getcwd())
import numpy as np
import rasterio as rio
from rasterio.transform import from_origin
from click.testing import CliRunner

import homonim
from homonim.cli import cli

warnings.simplefilter('ignore')
print('homonim from', homonim.__file__)


def make(path, shape, res, origin, seed):
    rng = np.random.default_rng(seed)
    arr = (rng.random((3, *shape)) * 100 + 50).astype('float32')
    prof = dict(
        driver='GTiff', width=shape[1], height=shape[0], count=3, dtype='float32', crs='EPSG:32735',
        transform=from_origin(origin[0], origin[1], res, res), nodata=float('nan')
    )
    with rio.open(path, 'w', **prof) as ds:
        ds.write(arr)


def snap(d):
    return {p.name: hashlib.md5(p.read_bytes()).hexdigest() for p in sorted(Path(d).iterdir())}


d = Path(tempfile.mkdtemp(prefix='c10_demo2_'))
make(d / 'ref.tif', (20, 20), 10., (-30., 170.), 1)
make(d / 'a.tif', (40, 40), 2., (0., 120.), 2)
make(d / 'b.tif', (40, 40), 2., (10., 110.), 3)

import logging


class Catch(logging.Handler):
    excs = []

    def emit(self, record):
        if record.exc_info:
            Catch.excs.append(record.exc_info[0].__name__)


logging.getLogger('homonim').addHandler(Catch())
runner = CliRunner()
# earlier invocation: correct b.tif only
res = runner.invoke(cli, ['fuse', str(d / 'b.tif'), str(d / 'ref.tif')])
assert res.exit_code == 0, res.output
before = snap(d)
print('files before          :', sorted(before))

# now correct a.tif and b.tif in one invocation, WITHOUT --overwrite: the corrected file of b.tif exists
res = runner.invoke(cli, ['fuse', '--param-image', str(d / 'a.tif'), str(d / 'b.tif'), str(d / 'ref.tif')])
after = snap(d)
print('exit code             :', res.exit_code, '- exception(s) logged by the CLI:', Catch.excs)
print('files after           :', sorted(after))
created = sorted(set(after) - set(before))
modified = sorted(k for k in before if before[k] != after.get(k))
print('property demands      : the invocation fails before any file is created -> no new files, nothing modified')
print('new files created     :', created)
print('pre-existing modified :', modified)

# knock-on effect: the identical invocation now fails on the FIRST source, because of the debris of the failed one
res2 = runner.invoke(cli, ['fuse', '--param-image', str(d / 'a.tif'), str(d / 'b.tif'), str(d / 'ref.tif')])
print('same invocation again : exit code', res2.exit_code, '- new files:', sorted(set(snap(d)) - set(after)))

violation = (res.exit_code != 0) and len(created) > 0
print('VIOLATION' if violation else 'no violation')
sys.exit(1 if violation else 0)
