"""
C11 demo 1: an internal (per-dataset) mask is silently dropped whenever homonim wraps an image in a WarpedVRT
(image not north-up, or source / reference in different CRSs).  Masked pixels are then read as *valid zeros*, so
N counts pixels where one image is invalid, and r2 / RMSE / rRMSE are computed over them.

Run with cwd = the homonim checkout:   /venv/bin/python /tmp/hunt_C11_out/demo1.py
Exit status 1 = violation observed, 0 = not observed.
"""
import os
import sys
import tempfile
import warnings

os.environ.setdefault('TQDM_DISABLE', '1')
sys.path.insert(0, os.getcwd())
warnings.simplefilter('ignore')

import numpy as np
import rasterio as rio
from rasterio.crs import CRS
from rasterio.transform import Affine
from rasterio.warp import transform_bounds

import homonim
from homonim import RasterCompare

print('homonim:', homonim.__file__)


def write(path, array, transform, crs, nodata=None, mask=None):
    array = np.asarray(array)
    with rio.Env(GDAL_TIFF_INTERNAL_MASK=True):
        with rio.open(
            path, 'w', driver='GTiff', width=array.shape[1], height=array.shape[0], count=1, dtype=array.dtype,
            crs=CRS.from_string(crs), transform=transform, nodata=nodata
        ) as ds:
            ds.write(array, 1)
            if mask is not None:
                ds.write_mask(mask)


def compare(src, ref, **kwargs):
    with RasterCompare(src, ref) as cmp:
        return cmp.process(**kwargs)


def definition(src, ref, valid):
    s = src[valid].astype('float64')
    r = ref[valid].astype('float64')
    rmse = np.sqrt(np.mean((s - r) ** 2))
    return dict(r2=np.corrcoef(s, r)[0, 1] ** 2, rmse=rmse, rrmse=rmse / r.mean(), n=int(valid.sum()))


def fmt(d):
    return {k: (v if k == 'n' else round(float(v), 4)) for k, v in d.items()}


violated = False
rng = np.random.default_rng(1)
tmp = tempfile.mkdtemp(prefix='c11_demo1_')

# ---------------------------------------------------------------------------------------------------------------------
# Case A: south-up source (positive y pixel size) with an internal mask, on the same 1 m grid as the reference.
# 10 of the 60 source rows are masked.  Ground truth comes straight from numpy.
# ---------------------------------------------------------------------------------------------------------------------
print('\nCase A: south-up source with an internal mask (10 of 60 rows masked), same grid as the reference')
crs = 'EPSG:32735'
ref = rng.uniform(100, 200, (100, 100)).astype('float32')
src = rng.uniform(100, 200, (60, 60)).astype('float32')
src_valid = np.ones((60, 60), dtype=bool)
src_valid[:10] = False
write(f'{tmp}/ref.tif', ref, Affine(1, 0, 500000, 0, -1, 7000100), crs, nodata=-1)
# south-up: row 0 is the southern-most row.  The source occupies ref rows 20..79, cols 20..79
write(
    f'{tmp}/src_southup_mask.tif', src, Affine(1, 0, 500020, 0, 1, 7000020), crs,
    mask=(src_valid * 255).astype('uint8')
)
# the same image, but with the invalid pixels encoded as nodata (control)
src_nd = src.copy()
src_nd[~src_valid] = -1
write(f'{tmp}/src_southup_nodata.tif', src_nd, Affine(1, 0, 500020, 0, 1, 7000020), crs, nodata=-1)

expected = definition(src[::-1], ref[20:80, 20:80], src_valid[::-1])
for name in ['src_southup_nodata.tif', 'src_southup_mask.tif']:
    for mbm in [512, 0.002]:
        res = compare(f'{tmp}/{name}', f'{tmp}/ref.tif', max_block_mem=mbm, threads=1)['Mean']
        ok = res['n'] == expected['n'] and np.isclose(res['rmse'], expected['rmse'], rtol=1e-4)
        print(f'  {name:28s} max_block_mem={mbm:<6} -> {fmt(res)}   {"ok" if ok else "VIOLATION"}')
        violated |= (not ok)
print(f'  property demands (numpy, valid pixels only)      -> {fmt(expected)}')

# ---------------------------------------------------------------------------------------------------------------------
# Case B: reference in another CRS (EPSG:4326) whose invalid (western) half is flagged with an internal mask.
# The identical reference with the invalid half encoded as nodata serves as the yardstick.
# ---------------------------------------------------------------------------------------------------------------------
print('\nCase B: reference in EPSG:4326 (source in UTM) with its western half invalid')
src = rng.uniform(100, 200, (80, 80)).astype('float32')
write(f'{tmp}/src_utm.tif', src, Affine(10, 0, 500000, 0, -10, 7000800), crs, nodata=-1)
b = transform_bounds(crs, 'EPSG:4326', 500000 - 300, 7000000 - 300, 500800 + 300, 7000800 + 300)
n = 50
ref_transform = Affine((b[2] - b[0]) / n, 0, b[0], 0, -(b[3] - b[1]) / n, b[3])
ref = rng.uniform(100, 200, (n, n)).astype('float32')
ref_valid = np.ones((n, n), dtype=bool)
ref_valid[:, :25] = False
ref_nd = ref.copy()
ref_nd[~ref_valid] = -1
write(f'{tmp}/ref_ll_nodata.tif', ref_nd, ref_transform, 'EPSG:4326', nodata=-1)
write(f'{tmp}/ref_ll_mask.tif', ref, ref_transform, 'EPSG:4326', mask=(ref_valid * 255).astype('uint8'))

yardstick = compare(f'{tmp}/src_utm.tif', f'{tmp}/ref_ll_nodata.tif', threads=1)['Mean']
masked = compare(f'{tmp}/src_utm.tif', f'{tmp}/ref_ll_mask.tif', threads=1)['Mean']
print(f'  invalid half encoded as nodata        -> {fmt(yardstick)}')
print(f'  invalid half encoded as internal mask -> {fmt(masked)}')
print('  property demands the same N and statistics for both (same valid pixels, same values)')
if masked['n'] != yardstick['n'] or not np.isclose(masked['rmse'], yardstick['rmse'], rtol=1e-3):
    print('  VIOLATION: masked reference pixels are counted in N and enter the statistics as zeros')
    violated = True

print('\nRESULT:', 'VIOLATION' if violated else 'no violation')
sys.exit(1 if violated else 0)
