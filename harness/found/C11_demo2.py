"""
C11 demo 2: RMSE / rRMSE / r2 depend on the block size (max_block_mem) far beyond accumulation precision whenever the
re-projection between the source and reference grids uses a resampling kernel wider than one pixel footprint:
  (a) default proc_crs=auto with the documented --downsampling option set to bilinear / cubic / lanczos
  (b) proc_crs forced to the higher resolution image, so that the default cubic_spline *up*-sampling is used
RasterCompare re-projects every block on its own, and its blocks have no overlap (block_pairs(overlap=(0, 0))), so the
kernel is truncated at every block edge.  The default 'average' kernel is shown as a control.

Run with cwd = the homonim checkout:   /venv/bin/python /tmp/hunt_C11_out/demo2.py
Exit status 1 = violation observed, 0 = not observed.
"""
import os
import sys
import tempfile
import warnings

os.environ.setdefault('TQDM_DISABLE', '1')
sys.path.insert(0, os.getcwd())
warnings.simplefilter('ignore')

import numpy as np
import rasterio as rio
from rasterio.crs import CRS
from rasterio.enums import Resampling
from rasterio.transform import Affine

import homonim
from homonim import RasterCompare

print('homonim:', homonim.__file__)

rng = np.random.default_rng(0)
tmp = tempfile.mkdtemp(prefix='c11_demo2_')
crs = CRS.from_epsg(32735)


def write(path, array, transform):
    with rio.open(
        path, 'w', driver='GTiff', width=array.shape[1], height=array.shape[0], count=1, dtype=array.dtype, crs=crs,
        transform=transform, nodata=-1
    ) as ds:
        ds.write(array, 1)


# 1 m source (120 x 120) inside a 3 m reference (60 x 60); no invalid pixels at all
write(f'{tmp}/src.tif', rng.uniform(100, 200, (120, 120)).astype('float32'), Affine(1, 0, 500030, 0, -1, 7000170))
write(f'{tmp}/ref.tif', rng.uniform(100, 200, (60, 60)).astype('float32'), Affine(3, 0, 500000, 0, -3, 7000180))

block_mems = [512, 0.005, 0.001]   # MB: 1 block, 16 blocks, >50 blocks
cases = [
    ('control: proc_crs=auto, downsampling=average (defaults)', dict(), dict()),
    ('proc_crs=auto, downsampling=bilinear', dict(), dict(downsampling=Resampling.bilinear)),
    ('proc_crs=auto, downsampling=cubic', dict(), dict(downsampling=Resampling.cubic)),
    ('proc_crs=auto, downsampling=lanczos', dict(), dict(downsampling=Resampling.lanczos)),
    ('proc_crs=src, upsampling=cubic_spline (default)', dict(proc_crs='src'), dict()),
]
tol = 1e-4   # generous: float32 accumulation noise is ~1e-6 relative here
violated = False
print('\nThe property demands: same N, and RMSE equal to accumulation precision, for every max_block_mem.\n')
for label, init_kwargs, proc_kwargs in cases:
    rmses, ns, nblocks = [], [], []
    for mbm in block_mems:
        with RasterCompare(f'{tmp}/src.tif', f'{tmp}/ref.tif', **init_kwargs) as cmp:
            nblocks.append(len(list(cmp.block_pairs(max_block_mem=mbm))))
            res = cmp.process(max_block_mem=mbm, threads=1, **proc_kwargs)['Mean']
        rmses.append(float(res['rmse']))
        ns.append(res['n'])
    spread = (max(rmses) - min(rmses)) / min(rmses)
    bad = (spread > tol) or (len(set(ns)) > 1)
    is_control = label.startswith('control')
    print(f'{label}')
    for mbm, nb, n, rmse in zip(block_mems, nblocks, ns, rmses):
        print(f'    max_block_mem={mbm:<6} blocks={nb:<3} N={n:<6} RMSE={rmse:.5f}')
    print(f'    relative RMSE spread over block sizes: {spread:.2e}  ->  {"VIOLATION" if bad else "ok"}\n')
    if bad and not is_control:
        violated = True

print('RESULT:', 'VIOLATION' if violated else 'no violation')
sys.exit(1 if violated else 0)
