"""
C11 demo 3: with ALL DEFAULT options, N itself (and with it RMSE etc.) changes with max_block_mem.

Source: 0.6 m pixels, reference: 0.9 m pixels, both grids start at easting 500000.3 (so 3 source pixels == 2 reference
pixels exactly, as far as the user is concerned).  The valid part of the source is its 6 left-most columns, i.e. the
valid-data edge coincides with the edge between reference columns 3 and 4.  By definition, N = 4 reference columns x 39
reference rows = 156, whatever the blocking.  RasterCompare re-projects every block with a block-relative transform, and
for some block shapes GDAL's 'average' footprint of the reference pixels right of the edge comes out as 5.99999.. instead
of 6.0 source columns: those pixels pick up the valid neighbour with a negligible weight, become valid, and are counted.

Run with cwd = the homonim checkout:   /venv/bin/python /tmp/hunt_C11_out/demo3.py
Exit status 1 = violation observed, 0 = not observed.
"""
import os
import sys
import tempfile
import warnings

os.environ.setdefault('TQDM_DISABLE', '1')
sys.path.insert(0, os.getcwd())
warnings.simplefilter('ignore')

import numpy as np
import rasterio as rio
from rasterio.crs import CRS
from rasterio.transform import Affine

import homonim
from homonim import RasterCompare

print('homonim:', homonim.__file__)

rng = np.random.default_rng(0)
tmp = tempfile.mkdtemp(prefix='c11_demo3_')
crs = CRS.from_epsg(32735)


def write(path, array, transform):
    with rio.open(
        path, 'w', driver='GTiff', width=array.shape[1], height=array.shape[0], count=1, dtype=array.dtype, crs=crs,
        transform=transform, nodata=-1
    ) as ds:
        ds.write(array, 1)


src = rng.uniform(100, 200, (58, 13)).astype('float32')
src[:, 6:] = -1   # nodata right of x = x0 + 3.6 m == right edge of reference column 3
ref = rng.uniform(100, 200, (45, 21)).astype('float32')
write(f'{tmp}/src.tif', src, Affine(0.6, 0, 500000.3, 0, -0.6, 0.0))
write(f'{tmp}/ref.tif', ref, Affine(0.9, 0, 500000.3, 0, -0.9, 0.0))

# definition: reference pixels with some valid source coverage: columns 0..3 (6 * 0.6 = 4 * 0.9 = 3.6 m),
# rows 0..38 (58 * 0.6 = 34.8 m -> 38.67 reference rows)
expected_n = 4 * 39
print(f'\nThe property demands N = {expected_n} for every max_block_mem / thread count.\n')

results = []
for mbm, threads in [(512, 1), (1e-3, 1), (1e-4, 1), (1e-4, 4), (5e-5, 1), (2e-5, 1)]:
    with RasterCompare(f'{tmp}/src.tif', f'{tmp}/ref.tif') as cmp:
        nblocks = len(list(cmp.block_pairs(max_block_mem=mbm)))
        res = cmp.process(max_block_mem=mbm, threads=threads)['Mean']
    results.append(res['n'])
    flag = 'ok' if res['n'] == expected_n else 'VIOLATION'
    print(
        f'max_block_mem={mbm:<7} threads={threads} blocks={nblocks:<4} N={res["n"]:<5} RMSE={float(res["rmse"]):.4f} '
        f'rRMSE={float(res["rrmse"]):.5f}   {flag}'
    )

violated = len(set(results)) > 1 or any(n != expected_n for n in results)
print('\nRESULT:', 'VIOLATION' if violated else 'no violation')
sys.exit(1 if violated else 0)
