"""
C12 demo 1: ParamStats.stats() reports std = nan for a (near-)constant parameter band, and whether it does depends on
the parameter file's internal tiling and on the thread count / block completion order.

Scenario: a user sanity-checks homonim with a synthetic source that is exactly 3 x the reference (same grid, uint16),
using the `gain` model.  Every kernel gain is then exactly float32(1/3), so the GAIN band written by fuse is constant
and its standard deviation is 0 by definition.  The same fuse call is repeated with different (valid) GeoTIFF creation
options, so every file below is written by fuse itself.

Run with cwd = the homonim checkout.
"""
import os
import sys
import tempfile
import warnings

sys.path.insert(0, os.getcwd())
import numpy as np
import rasterio as rio
from rasterio.transform import from_origin

import homonim
from homonim import RasterFuse, ParamStats

warnings.simplefilter('ignore')
print('homonim from', homonim.__file__)


def write_im(path, array, res, height):
    profile = dict(
        driver='GTiff', count=array.shape[0], height=array.shape[1], width=array.shape[2], dtype=array.dtype,
        crs='EPSG:32735', transform=from_origin(0, height * res, res, res),
    )
    with rio.open(path, 'w', **profile) as ds:
        ds.write(array)
    return path


def definition(param, band=1):
    with rio.open(param) as ds:
        a = ds.read(band).astype('float64')
    v = a[~np.isnan(a)]
    return dict(n=v.size, mean=v.mean(), std=v.std(), min=v.min(), max=v.max(), n_unique=np.unique(v).size)


def stats(param, threads, band=1):
    with ParamStats(param) as ps:
        return ps.stats(threads=threads)[band - 1]


layouts = {
    'default (512x512 tiles)': None,
    'tiles 16x16': dict(tiled=True, blockxsize=16, blockysize=16, compress='deflate', interleave='band'),
    'tiles 32x16': dict(tiled=True, blockxsize=32, blockysize=16, compress='deflate', interleave='band'),
    'tiles 64x64': dict(tiled=True, blockxsize=64, blockysize=64, compress='deflate', interleave='band'),
    'strips of 1 row': dict(tiled=False, blockysize=1, compress='deflate', interleave='band'),
    'strips of 7 rows': dict(tiled=False, blockysize=7, compress='deflate', interleave='band'),
    'strips of 16 rows, pixel interleave': dict(tiled=False, blockysize=16, interleave='pixel'),
}

violations = []
with tempfile.TemporaryDirectory() as tmp:
    rng = np.random.default_rng(3)
    for case, (h, w) in enumerate([(60, 70), (100, 100), (90, 50)]):
        ref_arr = rng.integers(1, 80, (1, h, w)).astype('uint16')
        ref = write_im(os.path.join(tmp, f'ref{case}.tif'), ref_arr, 1.0, h)
        src = write_im(os.path.join(tmp, f'src{case}.tif'), ref_arr * 3, 1.0, h)
        print(f'\n=== case {case}: {h}x{w} reference, source = 3 * reference, model=gain, kernel 5x5 ===')
        for li, (name, copts) in enumerate(layouts.items()):
            param = os.path.join(tmp, f'param{case}_{li}.tif')
            with RasterFuse(src, ref) as fuse:
                fuse.process(
                    os.path.join(tmp, f'corr{case}_{li}.tif'), 'gain', (5, 5), param_filename=param, build_ovw=False,
                    out_profile=dict(creation_options=copts) if copts else None,
                )
            d = definition(param)
            res = {th: stats(param, th)['std'] for th in (1, 2, 8)}
            flag = ''
            if any(np.isnan(v) for v in res.values()):
                flag = '   <-- nan'
                violations.append((case, name, res))
            print(
                f'{name:38s} distinct GAIN values={d["n_unique"]}, mean={d["mean"]:.9f}  definition std={d["std"]:.3g}  '
                f'stats std: ' + ', '.join(f'threads={th}: {float(v):.3g}' for th, v in res.items()) + flag
            )

print('\nProperty demands: std of the GAIN band = 0 (constant band), the same for every tiling and thread count.')
if violations:
    print(f'VIOLATION: stats() reported std = nan for {len(violations)} of the fuse-written files, while other tilings / '
          f'thread counts of the SAME values give 0 or ~1e-9.')
    sys.exit(1)
print('No violation observed.')
sys.exit(0)
