"""
C12 demo 2: ParamStats.stats() raises AttributeError on a parameter image, written by fuse, that has no valid pixel.

Scenario: a small source image is fused with `mask_partial=True`, `proc_crs=src` and a kernel that is as large as the
image (a valid, odd kernel shape).  mask_partial masks every pixel without full kernel coverage, so fuse writes a
parameter image that is entirely nodata.  (A constant source band with the default gain-blk-offset model gives the
same all-nodata parameter image; that variant is run too.)  stats should still report on the file (there are no valid
pixels, so e.g. nan statistics / 0 pixels), but it crashes before reporting anything.

Run with cwd = the homonim checkout.
"""
import os
import sys
import tempfile
import traceback
import warnings

sys.path.insert(0, os.getcwd())
import numpy as np
import rasterio as rio
from rasterio.transform import from_origin

import homonim
from homonim import RasterFuse, ParamStats

warnings.simplefilter('ignore')
print('homonim from', homonim.__file__)


def write_im(path, array, res, x0, y0, **kwargs):
    profile = dict(
        driver='GTiff', count=array.shape[0], height=array.shape[1], width=array.shape[2], dtype=array.dtype,
        crs='EPSG:32735', transform=from_origin(x0, y0, res, res), **kwargs
    )
    with rio.open(path, 'w', **profile) as ds:
        ds.write(array)
    return path


def n_valid(param):
    with rio.open(param) as ds:
        return [int((ds.read_masks(bi + 1) > 0).sum()) for bi in range(ds.count)]


failures = []
with tempfile.TemporaryDirectory() as tmp:
    rng = np.random.default_rng(0)
    ref = write_im(os.path.join(tmp, 'ref.tif'), rng.normal(500, 100, (1, 40, 45)).astype('float32'), 3.0, 0, 120)
    src_arr = rng.normal(1000, 200, (1, 31, 33)).astype('float32')
    src = write_im(os.path.join(tmp, 'src.tif'), src_arr, 1.0, 30, 90)
    const_src = write_im(os.path.join(tmp, 'const_src.tif'), np.full((1, 31, 33), 255, 'uint8'), 1.0, 30, 90)

    cases = {
        'mask_partial=True, proc_crs=src, kernel 31x33 on a 31x33 source': dict(
            src=src, model='gain-offset', kernel_shape=(31, 33), proc_crs='src', model_config=dict(mask_partial=True)
        ),
        'constant (saturated) source band, default gain-blk-offset model': dict(
            src=const_src, model='gain-blk-offset', kernel_shape=(5, 5), proc_crs='auto', model_config=None
        ),
    }
    for ci, (name, cfg) in enumerate(cases.items()):
        param = os.path.join(tmp, f'param{ci}.tif')
        with RasterFuse(cfg['src'], ref, proc_crs=cfg['proc_crs']) as fuse:
            fuse.process(
                os.path.join(tmp, f'corr{ci}.tif'), cfg['model'], cfg['kernel_shape'], param_filename=param,
                build_ovw=False, model_config=cfg['model_config'],
            )
        print(f'\n=== {name} ===')
        print('valid pixels per band in the parameter image written by fuse:', n_valid(param))
        print('property demands: stats() returns a per-band report (over zero valid pixels)')
        try:
            with ParamStats(param) as ps:
                res = ps.stats(threads=1)
            print('stats() returned:', res)
        except Exception as ex:
            print('stats() raised:', repr(ex))
            for fr in traceback.extract_tb(ex.__traceback__):
                if fr.filename.endswith('stats.py'):
                    print(f'   at {fr.filename}:{fr.lineno} in {fr.name}: {fr.line}')
            failures.append(name)

if failures:
    print(f'\nVIOLATION: stats() crashed on {len(failures)} fuse-written parameter image(s) without valid pixels.')
    sys.exit(1)
print('\nNo violation observed.')
sys.exit(0)
