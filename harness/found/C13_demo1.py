"""
C13 demo 1: with nodata=None (internal mask requested) the validity of bands 2..N is lost.

The corrected image is computed band by band, and each band has its own set of invalid pixels (e.g. a uint8 source
with nodata=0 where a dark pixel is 0 in one band only).  With a numeric output nodata, every band carries the nodata
value at its own invalid pixels.  With nodata=None, RasterArray.to_rio_dataset() writes the (per-dataset) internal mask
from the blocks of band 1 only, so

 - pixels that are invalid in band 2 only are written as garbage (nan cast to the integer type, i.e. 0) and are
   flagged VALID by the mask, and
 - pixels that are invalid in band 1 only are flagged INVALID in band 2 too, although band 2 holds a good value there
   (a valid pixel becomes invalid without coinciding with any nodata value).

Run with cwd = the homonim checkout.  Exits 1 when the violation occurs, 0 otherwise.
"""
import os
import sys
import tempfile
import warnings

sys.path.insert(0, os.getcwd())

import numpy as np
import rasterio as rio
from rasterio.crs import CRS
from rasterio.transform import from_origin

import homonim
from homonim import RasterFuse

warnings.simplefilter('ignore')
print('homonim:', homonim.__file__)

tmp = tempfile.mkdtemp(prefix='c13_demo1_')
crs = CRS.from_epsg(32735)
rng = np.random.default_rng(0)

# --- inputs: 2 band uint8 source with nodata=0, 2 band float32 reference that covers it at 3x the pixel size
H = W = 48
src = rng.integers(60, 200, (2, H, W)).astype('uint8')
src[:, :4, :6] = 0  # border, invalid in both bands
src[0, 10:13, 10:13] = 0  # "dark" pixels that are 0 (== nodata) in band 1 only
src[1, 30:33, 30:33] = 0  # "dark" pixels that are 0 (== nodata) in band 2 only
src_file = os.path.join(tmp, 'src.tif')
with rio.open(
    src_file, 'w', driver='GTiff', width=W, height=H, count=2, dtype='uint8', nodata=0, crs=crs,
    transform=from_origin(500000, 7000000, 1, 1)
) as ds:
    ds.write(src)

rh = H // 3 + 4
ref = rng.uniform(100, 200, (2, rh, rh)).astype('float32')
ref_file = os.path.join(tmp, 'ref.tif')
with rio.open(
    ref_file, 'w', driver='GTiff', width=rh, height=rh, count=2, dtype='float32', nodata=float('nan'), crs=crs,
    transform=from_origin(500000 - 6, 7000000 + 6, 3, 3)
) as ds:
    ds.write(ref)


def fuse(out_file, **out_profile):
    with open(os.devnull, 'w') as devnull:
        stderr, sys.stderr = sys.stderr, devnull  # hide the progress bar
        try:
            with RasterFuse(src_file, ref_file) as raster_fuse:
                raster_fuse.process(
                    out_file, 'gain', (1, 1), out_profile=out_profile, build_ovw=False,
                    block_config=dict(threads=1, max_block_mem=100)
                )
        finally:
            sys.stderr = stderr
    with rio.open(out_file) as ds:
        return ds.read(), ds.read_masks() > 0, ds.nodata, ds.mask_flag_enums


# the float32 result (default output format: float32 with nodata=nan)
base, _, _, _ = fuse(os.path.join(tmp, 'base.tif'))
base_valid = ~np.isnan(base)
expected = np.clip(np.round(base.astype('float64')), 0, 255)
print('float32 result: invalid pixels per band =', (~base_valid).sum(axis=(1, 2)))

# control: uint8 with a numeric nodata: holds
arr, mask, nodata, _ = fuse(os.path.join(tmp, 'corr_nodata255.tif'), dtype='uint8', nodata=255)
ok_ctrl = bool(np.all(arr[~base_valid] == 255) and np.all(arr[base_valid & (expected != 255)] == expected[base_valid & (expected != 255)]))
print(f'uint8 / nodata=255: invalid pixels carry 255 and valid pixels are round+clip of the float32 result: {ok_ctrl}')

# test: uint8 with nodata=None -> internal mask
arr, mask, nodata, flags = fuse(os.path.join(tmp, 'corr_mask.tif'), dtype='uint8', nodata=None)
print(f'uint8 / nodata=None: dataset nodata = {nodata}, mask flags = {flags}')
print('PROPERTY DEMANDS: every invalid pixel of the float32 result is flagged in the internal mask, and no valid '
      'pixel is flagged (nodata is null, so there is no value to coincide with).')
n_viol = 0
for bi in range(2):
    invalid_flagged_valid = ~base_valid[bi] & mask[bi]
    valid_flagged_invalid = base_valid[bi] & ~mask[bi]
    print(
        f'  band {bi + 1}: invalid pixels flagged valid = {invalid_flagged_valid.sum()} '
        f'(stored values: {np.unique(arr[bi][invalid_flagged_valid])}), '
        f'valid pixels flagged invalid = {valid_flagged_invalid.sum()} '
        f'(stored values e.g. {arr[bi][valid_flagged_invalid][:3]}, expected {expected[bi][valid_flagged_invalid][:3]})'
    )
    n_viol += int(invalid_flagged_valid.sum() + valid_flagged_invalid.sum())

if n_viol:
    print(f'VIOLATION: {n_viol} pixels change validity because the output uses an internal mask (nodata=None).')
    sys.exit(1)
print('no violation')
sys.exit(0)
