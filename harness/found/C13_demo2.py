"""
C13 demo 2: user creation options that are all lossless still give a lossy (JPEG) corrected image when the source is a
JPEG compressed GeoTIFF.

RasterFuse._merge_corr_profile() -> utils.combine_profiles() starts from the WHOLE source profile when the source and
output drivers are the same (GTiff), and only overrides the keys the user gave.  The default creation options override
`compress` and `photometric`, but as soon as the user passes their own (lossless) creation options - here only
`bigtiff=yes`, or a tile size - the source's `compress=jpeg` / `photometric=ycbcr` are silently inherited, and the
valid pixels of the uint8 output are no longer the float32 result rounded and clipped.

Run with cwd = the homonim checkout.  Exits 1 when the violation occurs, 0 otherwise.
"""
import os
import sys
import tempfile
import warnings

sys.path.insert(0, os.getcwd())

import numpy as np
import rasterio as rio
from rasterio.crs import CRS
from rasterio.transform import from_origin

import homonim
from homonim import RasterFuse

warnings.simplefilter('ignore')
print('homonim:', homonim.__file__)

tmp = tempfile.mkdtemp(prefix='c13_demo2_')
crs = CRS.from_epsg(32735)
rng = np.random.default_rng(0)

# --- inputs: 3 band uint8 RGB source stored as a JPEG/YCbCr GeoTIFF (typical for drone / aerial ortho-mosaics),
# and a float32 reference that covers it at 4x the pixel size
H = W = 64
yy, xx = np.mgrid[0:H, 0:W]
smooth = 120 + 60 * np.sin(xx / 9.) * np.cos(yy / 7.)
src = np.stack([smooth + 20 * bi + rng.normal(0, 12, (H, W)) for bi in range(3)]).clip(1, 255).astype('uint8')
src_file = os.path.join(tmp, 'src.tif')
with rio.open(
    src_file, 'w', driver='GTiff', width=W, height=H, count=3, dtype='uint8', crs=crs,
    transform=from_origin(500000, 7000000, 1, 1), compress='jpeg', photometric='ycbcr', interleave='pixel', tiled=True,
    blockxsize=32, blockysize=32
) as ds:
    ds.write(src)

rh = H // 4 + 4
ref = rng.uniform(100, 200, (3, rh, rh)).astype('float32')
ref_file = os.path.join(tmp, 'ref.tif')
with rio.open(
    ref_file, 'w', driver='GTiff', width=rh, height=rh, count=3, dtype='float32', nodata=float('nan'), crs=crs,
    transform=from_origin(500000 - 8, 7000000 + 8, 4, 4)
) as ds:
    ds.write(ref)


def fuse(out_file, **out_profile):
    with open(os.devnull, 'w') as devnull:
        stderr, sys.stderr = sys.stderr, devnull  # hide the progress bar
        try:
            with RasterFuse(src_file, ref_file) as raster_fuse:
                raster_fuse.process(
                    out_file, 'gain', (1, 1), out_profile=out_profile, build_ovw=False,
                    block_config=dict(threads=1, max_block_mem=100)
                )
        finally:
            sys.stderr = stderr
    with rio.open(out_file) as ds:
        return ds.read(), ds.read_masks() > 0, ds.profile


# the float32 result (default output format)
base, _, prof = fuse(os.path.join(tmp, 'base.tif'))
assert not np.isnan(base).any()
expected = np.clip(np.round(base.astype('float64')), 0, 255)
print(f'float32 result written with compress={prof.get("compress")}')
print('PROPERTY DEMANDS: for uint8 output, every valid pixel == clip(round(float32 result), 0, 255), whatever the '
      '(lossless) creation options.')

violation = False
cases = [
    ('default creation options', None),
    ('creation_options=dict(bigtiff="yes")', dict(bigtiff='yes')),
    ('creation_options=dict(tiled=True, blockxsize=256, blockysize=256)', dict(tiled=True, blockxsize=256, blockysize=256)),
]
for case_i, (name, creation_options) in enumerate(cases):
    out_profile = dict(dtype='uint8', nodata=None)
    if creation_options:
        out_profile.update(creation_options=creation_options)
    arr, mask, prof = fuse(os.path.join(tmp, f'corr_{case_i}.tif'), **out_profile)
    diff = np.abs(arr.astype('float64') - expected)
    n_bad = int((mask & (diff > 0)).sum())
    print(
        f'  {name}: output compress={prof.get("compress")}, photometric={prof.get("photometric")}; valid pixels that '
        f'differ from the rounded float32 result: {n_bad} of {mask.sum()} (max abs difference {diff.max():.0f})'
    )
    if creation_options and n_bad:
        violation = True

if violation:
    print('VIOLATION: lossless user creation options give a JPEG compressed (lossy) corrected image - the compression of '
          'the source file leaks into the output.')
    sys.exit(1)
print('no violation')
sys.exit(0)
