"""
C14 demo 1: with a non-GeoTIFF output driver, the parameter image written when processing on the reference grid
(the usual case: source resolution finer than the reference) has VALID pixels (gain = offset = R2 = 0) all over the part
of the reference that the source does not cover, i.e. where the source image is not valid.

Property: "Without partial masking its (the parameter image's) valid pixels are those of the processing grid where both
images are valid".

Run with cwd = the homonim checkout.  Exits 1 when the violation occurs.
"""
import os
import sys
import tempfile
import warnings

sys.path.insert(0, os.getcwd())
import numpy as np
import rasterio as rio
from rasterio.transform import from_origin

import homonim
from homonim import RasterFuse, Model, ProcCrs
from homonim.stats import ParamStats

warnings.simplefilter('ignore')
print('homonim from', homonim.__file__)

tmp = tempfile.mkdtemp(prefix='c14_demo1_')
rng = np.random.default_rng(0)
crs = 'EPSG:32735'

# reference: 40 x 40 pixels of 30 m, fully valid
ref_file = os.path.join(tmp, 'ref.tif')
with rio.open(ref_file, 'w', driver='GTiff', width=40, height=40, count=1, dtype='float32', crs=crs,
              transform=from_origin(0, 1200, 30, 30), nodata=float('nan')) as ds:
    ds.write(rng.uniform(100, 200, (1, 40, 40)).astype('float32'))

# source: 60 x 60 pixels of 5 m, fully valid, covering exactly reference rows 10..19 / cols 10..19 (100 ref pixels)
src_file = os.path.join(tmp, 'src.tif')
with rio.open(src_file, 'w', driver='GTiff', width=60, height=60, count=1, dtype='float32', crs=crs,
              transform=from_origin(300, 900, 5, 5), nodata=float('nan')) as ds:
    ds.write(rng.uniform(50, 100, (1, 60, 60)).astype('float32'))

# processing grid = reference grid; both images are valid on the 10 x 10 reference pixels under the source only
expected = np.zeros((40, 40), dtype=bool)
expected[10:20, 10:20] = True

violated = False
# GTiff is the control.  ENVI is a common GDAL format; PCIDSK and EHdr are also accepted by `homonim fuse --driver`.
for driver, ext in [('GTiff', 'tif'), ('ENVI', 'dat'), ('PCIDSK', 'pix'), ('EHdr', 'bil')]:
    corr_file = os.path.join(tmp, f'corr_{driver}.{ext}')
    param_file = os.path.join(tmp, f'param_{driver}.{ext}')
    out_profile = dict(driver=driver, creation_options=dict(compress='deflate') if driver == 'GTiff' else dict(interleave='band'))
    with RasterFuse(src_file, ref_file) as fuse:
        assert fuse.proc_crs == ProcCrs.ref
        fuse.process(
            corr_file, Model.gain_blk_offset, (5, 5), param_filename=param_file, build_ovw=False,
            out_profile=out_profile, block_config=dict(threads=1),
        )
    with rio.open(param_file) as param_im:
        valid = param_im.dataset_mask() > 0
        gain = param_im.read(1)
        nodata = param_im.nodata
    with ParamStats(param_file) as stats:
        gain_mean = stats.stats()[0]['mean']
    extra = valid & ~expected
    print(
        f'{driver:7s}: nodata={nodata}; valid parameter pixels: {valid.sum()} (property demands {expected.sum()}); '
        f'valid pixels where the source is absent: {extra.sum()} (gain there: {np.unique(gain[extra])}); '
        f'mean gain reported by stats: {gain_mean:.3f}'
    )
    if not np.array_equal(valid, expected):
        violated = True

print('VIOLATION' if violated else 'no violation')
sys.exit(1 if violated else 0)
