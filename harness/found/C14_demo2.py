"""
C14 demo 2: a parameter image produced by RasterFuse.process() is NOT accepted by stats (ParamStats.stats() and the
`homonim stats` command crash with AttributeError) when it has no valid pixel - which is what the property itself demands
when source and reference are valid nowhere together (here: the source lies inside a cloud-masked / nodata part of the
reference).

Property: "The parameter image holds ... gain, offset and R2 ..., labelled accordingly and accepted by stats."

Run with cwd = the homonim checkout.  Exits 1 when the violation occurs.
"""
import os
import sys
import tempfile
import traceback
import warnings

sys.path.insert(0, os.getcwd())
import numpy as np
import rasterio as rio
from click.testing import CliRunner
from rasterio.transform import from_origin

import homonim
from homonim import RasterFuse, Model, cli
from homonim.stats import ParamStats

warnings.simplefilter('ignore')
print('homonim from', homonim.__file__)

tmp = tempfile.mkdtemp(prefix='c14_demo2_')
rng = np.random.default_rng(0)
crs = 'EPSG:32735'

# reference: 40 x 40 pixels of 30 m, with a masked (nodata) region in the middle, e.g. a masked cloud
ref = rng.uniform(100, 200, (1, 40, 40)).astype('float32')
ref[:, 8:32, 8:32] = np.nan
ref_file = os.path.join(tmp, 'ref.tif')
with rio.open(ref_file, 'w', driver='GTiff', width=40, height=40, count=1, dtype='float32', crs=crs,
              transform=from_origin(0, 1200, 30, 30), nodata=float('nan')) as ds:
    ds.write(ref)

# source: 60 x 60 valid pixels of 5 m, lying inside the masked region of the reference
src_file = os.path.join(tmp, 'src.tif')
with rio.open(src_file, 'w', driver='GTiff', width=60, height=60, count=1, dtype='float32', crs=crs,
              transform=from_origin(300, 900, 5, 5), nodata=float('nan')) as ds:
    ds.write(rng.uniform(50, 100, (1, 60, 60)).astype('float32'))

corr_file = os.path.join(tmp, 'corr.tif')
param_file = os.path.join(tmp, 'param.tif')
with RasterFuse(src_file, ref_file) as fuse:
    fuse.process(corr_file, Model.gain_blk_offset, (5, 5), param_filename=param_file, build_ovw=False,
                 block_config=dict(threads=1))

with rio.open(param_file) as param_im:
    print('parameter image bands:', param_im.descriptions, '; valid pixels:', int((param_im.dataset_mask() > 0).sum()),
          '(property demands 0: the images are valid nowhere together)')

violated = False
print('property demands: stats accepts the parameter image (e.g. reports nan / empty statistics)')
try:
    with ParamStats(param_file) as param_stats:
        res = param_stats.stats()
    print('ParamStats.stats() returned:', res)
except Exception as ex:
    violated = True
    traceback.print_exc(limit=1)
    print('ParamStats.stats() raised:', repr(ex))

result = CliRunner().invoke(cli.cli, ['stats', param_file])
print('`homonim stats param.tif` exit code:', result.exit_code)
violated = violated or (result.exit_code != 0)

print('VIOLATION' if violated else 'no violation')
sys.exit(1 if violated else 0)
