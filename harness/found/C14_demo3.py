"""
C14 demo 3: with the default model (gain-blk-offset) the parameter image is nodata over whole processing blocks in which
the source is constant (here a saturated 8 bit region, valid data), although both images are valid there.  Which pixels
are lost depends on the block size (max_block_mem): with one block the parameter image is valid everywhere both images
are valid, with small blocks it is not.

Property: "Without partial masking its valid pixels are those of the processing grid where both images are valid ...
for any block size".

Run with cwd = the homonim checkout.  Exits 1 when the violation occurs.
"""
import os
import sys
import tempfile
import warnings

sys.path.insert(0, os.getcwd())
import numpy as np
import rasterio as rio
from rasterio.transform import from_origin

import homonim
from homonim import RasterFuse, Model, ProcCrs

warnings.simplefilter('ignore')
print('homonim from', homonim.__file__)

tmp = tempfile.mkdtemp(prefix='c14_demo3_')
rng = np.random.default_rng(10)
crs = 'EPSG:32735'

# reference: 100 x 100 valid pixels of 30 m
ref_file = os.path.join(tmp, 'ref.tif')
with rio.open(ref_file, 'w', driver='GTiff', width=100, height=100, count=1, dtype='float32', crs=crs,
              transform=from_origin(0, 3000, 30, 30), nodata=float('nan')) as ds:
    ds.write(rng.uniform(100, 200, (1, 100, 100)).astype('float32'))

# source: 384 x 384 pixels of 5 m (= reference rows / cols 10..73), uint8 with nodata=0, every pixel valid (>= 40).
# The middle of the image is saturated at 255 (cloud, sun glint ...): constant, but valid, data.
src = rng.integers(40, 200, (1, 384, 384)).astype('uint8')
src[:, 96:288, 96:288] = 255
src_file = os.path.join(tmp, 'src.tif')
with rio.open(src_file, 'w', driver='GTiff', width=384, height=384, count=1, dtype='uint8', crs=crs,
              transform=from_origin(300, 2700, 5, 5), nodata=0) as ds:
    ds.write(src)

# both images are valid on the 64 x 64 reference pixels covered by the source
expected = np.zeros((100, 100), dtype=bool)
expected[10:74, 10:74] = True

violated = False
for max_block_mem in [100, 0.01, 0.004]:
    corr_file = os.path.join(tmp, f'corr_{max_block_mem}.tif')
    param_file = os.path.join(tmp, f'param_{max_block_mem}.tif')
    with RasterFuse(src_file, ref_file) as fuse:
        assert fuse.proc_crs == ProcCrs.ref
        fuse.process(corr_file, Model.gain_blk_offset, (3, 3), param_filename=param_file, build_ovw=False,
                     block_config=dict(threads=1, max_block_mem=max_block_mem))
    with rio.open(param_file) as param_im, rio.open(corr_file) as corr_im:
        valid = param_im.dataset_mask() > 0
        corr_valid = corr_im.dataset_mask() > 0
    lost = expected & ~valid
    rows, cols = np.where(lost)
    where = f'rows {rows.min()}..{rows.max()}, cols {cols.min()}..{cols.max()}' if lost.any() else '-'
    print(
        f'max_block_mem={max_block_mem}: valid parameter pixels {valid.sum()} (property demands {expected.sum()}); '
        f'nodata although both images are valid: {lost.sum()} ({where}); '
        f'valid corrected pixels {corr_valid.sum()} of {corr_valid.size}'
    )
    if not np.array_equal(valid, expected):
        violated = True

print('VIOLATION' if violated else 'no violation')
sys.exit(1 if violated else 0)
