"""
C15 demo 1: a repeated reference band selection makes the reader use one reference band twice, silently.

Property: "... never use a reference band twice ...".
Input: ref_bands=(3, 3)  (CLI: -rb 3 -rb 3), not forced.  Two cases: with center_wavelength metadata on both
images (both source bands are within 10 % of reference band 3), and without any wavelength metadata.
"""
import os, sys, tempfile, warnings
sys.path.insert(0, os.getcwd())
import numpy as np, rasterio as rio
from rasterio.transform import from_origin
import homonim
from homonim import RasterFuse, RasterCompare

print('homonim from', homonim.__file__)


def make(path, wls, size, res=1.0):
    n = len(wls)
    prof = dict(driver='GTiff', width=size, height=size, count=n, dtype='float32', crs='EPSG:32735',
                transform=from_origin(100, 100 + size * res, res, res), nodata=0, photometric='minisblack')
    with rio.open(path, 'w', **prof) as ds:
        ds.write(np.random.default_rng(0).uniform(1, 2, (n, size, size)).astype('float32'))
        for i, w in enumerate(wls):
            if w is not None:
                ds.update_tags(i + 1, center_wavelength=str(w))


viol = False
with tempfile.TemporaryDirectory() as td:
    sp, rp = os.path.join(td, 'src.tif'), os.path.join(td, 'ref.tif')
    for title, swl, rwl in [
        ('with wavelengths (red 0.65 / red-edge 0.70 source, reference band 3 = 0.665)', [.65, .70], [.48, .56, .665, .84]),
        ('without wavelength metadata', [None, None], [None] * 4),
    ]:
        make(sp, swl, 8); make(rp, rwl, 12)
        for cls in (RasterFuse, RasterCompare):
            with warnings.catch_warnings(record=True) as w:
                warnings.simplefilter('always')
                reader = cls(sp, rp, src_bands=(1, 2), ref_bands=(3, 3), force=False)
            dup = len(set(reader.ref_bands)) != len(reader.ref_bands)
            print(f'{title} / {cls.__name__}: src_bands={reader.src_bands} ref_bands={reader.ref_bands} '
                  f'warnings={[str(x.message) for x in w]}')
            print('   demanded: no reference band used twice (or an error/warning);  got duplicate:', dup)
            viol |= dup
print('VIOLATION' if viol else 'ok')
sys.exit(1 if viol else 0)
