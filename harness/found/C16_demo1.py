"""
C16 demo 1: source and reference in different CRSs (neighbouring UTM zones).

The source lies ENTIRELY to the left (west) of the reference's left edge - every source corner, expressed in the
reference CRS, has x < ref.bounds.left - yet RasterFuse(...) and RasterCompare(...) are constructed without error.
The property demands an ImageContentError.

Run with cwd = the homonim checkout.
"""
import os, sys, tempfile, warnings
sys.path.insert(0, os.getcwd())
import numpy as np
import rasterio as rio
from rasterio.transform import Affine
from rasterio.vrt import WarpedVRT
from rasterio.warp import transform
import homonim
from homonim import RasterFuse, RasterCompare
from homonim.errors import ImageContentError

warnings.simplefilter('ignore')
print('homonim from', homonim.__file__)


def make(path, tr, shape, crs):
    rng = np.random.default_rng(0)
    with rio.open(
        path, 'w', driver='GTiff', width=shape[1], height=shape[0], count=1, dtype='float32', crs=crs,
        transform=tr, nodata=float('nan')
    ) as ds:
        ds.write(rng.uniform(1, 2, (1, *shape)).astype('float32'))
    return path


def construct(src, ref):
    res = []
    for cls in (RasterFuse, RasterCompare):
        try:
            cls(src, ref)
            res.append('constructed')
        except ImageContentError as ex:
            res.append(f'ImageContentError({ex})')
        except Exception as ex:
            res.append(f'{type(ex).__name__}({ex})')
    return res


def overhang_in_ref_crs(src, ref):
    """ Source corners in the reference CRS, as distances outside each reference edge (positive = outside). """
    with rio.open(src) as s, rio.open(ref) as r:
        t, (h, w) = s.transform, s.shape
        cx, cy = zip(*[t * (0, 0), t * (w, 0), t * (w, h), t * (0, h)])
        rx, ry = transform(s.crs, r.crs, cx, cy)
        rx, ry, b = np.array(rx), np.array(ry), r.bounds
        return dict(left=b.left - rx, right=rx - b.right, top=ry - b.top, bottom=b.bottom - ry)


with tempfile.TemporaryDirectory() as tmp:
    # Reference: 30 m, 400 x 400 pixel (12 km) north-up image in UTM 36S, near the western edge of that zone
    # (lon ~30.2E, lat ~30S) e.g. a Landsat / Sentinel-2 chip delivered in the neighbouring zone.
    xs, ys = transform('EPSG:4326', 'EPSG:32736', [30.2], [-30.0])
    ref = make(
        os.path.join(tmp, 'ref_utm36.tif'), Affine(30, 0, round(xs[0], -1), 0, -30, round(ys[0], -1)), (400, 400),
        'EPSG:32736'
    )
    with rio.open(ref) as r, WarpedVRT(r, crs='EPSG:32735') as v:
        vb = v.bounds  # axis aligned bounding box of the reference, in the source CRS

    # Sources: 3 m, 100 x 100 pixel (300 m) north-up images in UTM 35S
    def src_at(name, x, y):
        return make(os.path.join(tmp, name), Affine(3, 0, round(x), 0, -3, round(y)), (100, 100), 'EPSG:32735')

    src_in = src_at('src_inside.tif', (vb.left + vb.right) / 2, (vb.top + vb.bottom) / 2)
    src_far = src_at('src_far.tif', vb.left - 5000, vb.top)
    src_out = src_at('src_outside.tif', vb.left + 30, vb.top - 30)

    print('\ncontrol 1: source in the middle of the reference -> expect constructed')
    print('  ', construct(src_in, ref))
    print('control 2: source 5 km west of the reference -> expect ImageContentError')
    print('  ', construct(src_far, ref))

    oh = overhang_in_ref_crs(src_out, ref)
    print('\ntest: source wholly west of the reference left edge')
    print('   source corner distances OUTSIDE the reference left edge (m, ref CRS):', np.round(oh['left'], 1))
    wholly_outside = bool(np.all(oh['left'] > 0))
    print('   all four source corners are left of the reference footprint:', wholly_outside)
    print('   property demands : ImageContentError from RasterFuse(...) and RasterCompare(...)')
    got = construct(src_out, ref)
    print('   happened         :', got)

    violated = wholly_outside and any(g == 'constructed' for g in got)
    print('\nVIOLATION' if violated else '\nno violation')
    sys.exit(1 if violated else 0)
