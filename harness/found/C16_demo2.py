"""
C16 demo 2: rotated rasters in the same CRS.

(a) Rotated reference (45 deg): a north-up source that lies wholly outside the (diamond shaped) reference footprint,
    but inside the reference's axis aligned bounding box, is accepted.  The property demands an ImageContentError.
(b) Slightly rotated source (1 deg): a north-up reference whose bounds are the source's bounding box snapped outwards
    to whole metres contains the source footprint, but is rejected with ImageContentError.  The property demands
    success.

Run with cwd = the homonim checkout.
"""
import os, sys, tempfile, warnings, math
sys.path.insert(0, os.getcwd())
import numpy as np
import rasterio as rio
from rasterio.transform import Affine
import homonim
from homonim import RasterFuse, RasterCompare
from homonim.errors import ImageContentError

warnings.simplefilter('ignore')
print('homonim from', homonim.__file__)
CRS = 'EPSG:32735'


def make(path, tr, shape):
    rng = np.random.default_rng(0)
    with rio.open(
        path, 'w', driver='GTiff', width=shape[1], height=shape[0], count=1, dtype='float32', crs=CRS,
        transform=tr, nodata=float('nan')
    ) as ds:
        ds.write(rng.uniform(1, 2, (1, *shape)).astype('float32'))
    return path


def construct(src, ref):
    res = []
    for cls in (RasterFuse, RasterCompare):
        try:
            cls(src, ref)
            res.append('constructed')
        except ImageContentError as ex:
            res.append(f'ImageContentError({ex})')
        except Exception as ex:
            res.append(f'{type(ex).__name__}({ex})')
    return res


def rotated(x0, y0, pix, deg):
    return Affine.translation(x0, y0) * Affine.rotation(deg) * Affine.scale(pix, -pix)


def corners(path):
    with rio.open(path) as ds:
        t, (h, w) = ds.transform, ds.shape
        return np.array([t * (0, 0), t * (w, 0), t * (w, h), t * (0, h)])


def inside(path_inner, path_outer, tol=1e-9):
    """ True if all corners of path_inner lie in the true (possibly rotated) footprint of path_outer. """
    with rio.open(path_outer) as ds:
        inv, (h, w) = ~ds.transform, ds.shape
    pix = np.array([inv * tuple(c) for c in corners(path_inner)])
    return bool(np.all(pix >= -tol) and np.all(pix[:, 0] <= w + tol) and np.all(pix[:, 1] <= h + tol)), pix


violations = []
with tempfile.TemporaryDirectory() as tmp:
    # ---- (a) rotated reference --------------------------------------------------------------------------------
    ref = make(os.path.join(tmp, 'ref_rot45.tif'), rotated(501500, 7003000, 30, 45), (50, 50))
    rc = corners(ref)
    # 150 m north-up source in the top-left corner of the reference's bounding box
    src = make(
        os.path.join(tmp, 'src.tif'), Affine(3, 0, rc[:, 0].min() + 30, 0, -3, rc[:, 1].max() - 30), (50, 50)
    )
    _, pix = inside(src, ref)
    outside = bool(np.all(pix[:, 1] < 0))  # every source corner is above reference pixel row 0
    print('\n(a) 45 deg rotated reference, north-up source in the empty corner of its bounding box')
    print('    source corners in reference pixel coordinates (col, row), reference is 50 x 50:\n', np.round(pix, 1))
    print('    source wholly beyond the reference top edge:', outside)
    print('    property demands : ImageContentError')
    got = construct(src, ref)
    print('    happened         :', got)
    if outside and any(g == 'constructed' for g in got):
        violations.append('a')

    # ---- (b) rotated source -----------------------------------------------------------------------------------
    # 3 m source rotated by 1 deg; its right-most corner is 0.1 m short of a whole metre
    src = make(os.path.join(tmp, 'src_rot1.tif'), rotated(501500.0, 7002990.0, 3, 1), (100, 100))
    sc = corners(src)
    shift = (math.ceil(sc[:, 0].max()) - 0.1) - sc[:, 0].max()
    src = make(os.path.join(tmp, 'src_rot1.tif'), rotated(501500.0 + shift, 7002990.0, 3, 1), (100, 100))
    sc = corners(src)
    # 1 m north-up reference cropped to the source's bounding box, snapped outwards to whole metres
    left, right = math.floor(sc[:, 0].min()), math.ceil(sc[:, 0].max())
    bottom, top = math.floor(sc[:, 1].min()), math.ceil(sc[:, 1].max())
    ref = make(os.path.join(tmp, 'ref_crop.tif'), Affine(1, 0, left, 0, -1, top), (top - bottom, right - left))
    contained, _ = inside(src, ref)
    print('\n(b) 1 deg rotated source, north-up 1 m reference cropped to the source bounding box (whole metres)')
    print('    source x range  : %.3f .. %.3f   reference: %d .. %d' % (sc[:, 0].min(), sc[:, 0].max(), left, right))
    print('    source y range  : %.3f .. %.3f   reference: %d .. %d' % (sc[:, 1].min(), sc[:, 1].max(), bottom, top))
    print('    reference footprint contains source footprint:', contained)
    print('    property demands : constructed')
    got = construct(src, ref)
    print('    happened         :', got)
    if contained and any(g != 'constructed' for g in got):
        violations.append('b')

print(f'\nVIOLATION in parts {violations}' if violations else '\nno violation')
sys.exit(1 if violations else 0)
