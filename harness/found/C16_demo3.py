"""
C16 demo 3: a raster rotated by 180 deg (geotransform with negative x pixel size and positive y pixel size), in the
same CRS as a north-up reference.

Whatever the placement - well inside the reference (the property demands success) or overhanging it (the property
demands an ImageContentError) - RasterFuse(...) and RasterCompare(...) raise rasterio's
WindowError('Bounds and transform are inconsistent').  The same happens when the reference is the 180 deg rotated
image and the source is north-up.

Run with cwd = the homonim checkout.
"""
import os, sys, tempfile, warnings
sys.path.insert(0, os.getcwd())
import numpy as np
import rasterio as rio
from rasterio.transform import Affine
import homonim
from homonim import RasterFuse, RasterCompare
from homonim.errors import ImageContentError

warnings.simplefilter('ignore')
print('homonim from', homonim.__file__)
CRS = 'EPSG:32735'


def make(path, tr, shape):
    rng = np.random.default_rng(0)
    with rio.open(
        path, 'w', driver='GTiff', width=shape[1], height=shape[0], count=1, dtype='float32', crs=CRS,
        transform=tr, nodata=float('nan')
    ) as ds:
        ds.write(rng.uniform(1, 2, (1, *shape)).astype('float32'))
    return path


def construct(src, ref):
    res = []
    for cls in (RasterFuse, RasterCompare):
        try:
            cls(src, ref)
            res.append('constructed')
        except ImageContentError as ex:
            res.append(f'ImageContentError({ex})')
        except Exception as ex:
            res.append(f'{type(ex).__name__}({ex})')
    return res


violations = []
with tempfile.TemporaryDirectory() as tmp:
    # north-up 30 m reference covering x 500000..503000, y 7000000..7003000
    ref = make(os.path.join(tmp, 'ref.tif'), Affine(30, 0, 500000, 0, -30, 7003000), (100, 100))

    # 180 deg rotated 3 m source: pixel (0, 0) is the south-east corner. Footprint x 501000..501300, y 7001000..7001300
    src = make(os.path.join(tmp, 'src_rot180.tif'), Affine.translation(501300, 7001000) * Affine.rotation(180) *
               Affine.scale(3, -3), (100, 100))
    with rio.open(src) as ds:
        print('\nsource geotransform (a, b, c, d, e, f):', [float(v) for v in ds.transform[:6]])
    print('(1) 180 deg rotated source 1 km inside the reference on every side')
    print('    property demands : constructed')
    got = construct(src, ref)
    print('    happened         :', got)
    if any(g != 'constructed' for g in got):
        violations.append(1)

    # same, overhanging the reference left edge by 150 m: footprint x 499850..500150
    src = make(os.path.join(tmp, 'src_rot180_out.tif'), Affine.translation(500150, 7001000) * Affine.rotation(180) *
               Affine.scale(3, -3), (100, 100))
    print('(2) 180 deg rotated source overhanging the reference left edge by 150 m')
    print('    property demands : ImageContentError')
    got = construct(src, ref)
    print('    happened         :', got)
    if any(not g.startswith('ImageContentError') for g in got):
        violations.append(2)

    # 180 deg rotated reference (same footprint as ref above), north-up source well inside
    ref180 = make(os.path.join(tmp, 'ref_rot180.tif'), Affine.translation(503000, 7000000) * Affine.rotation(180) *
                  Affine.scale(30, -30), (100, 100))
    src = make(os.path.join(tmp, 'src.tif'), Affine(3, 0, 501000, 0, -3, 7001300), (100, 100))
    print('(3) north-up source 1 km inside a 180 deg rotated reference')
    print('    property demands : constructed')
    got = construct(src, ref180)
    print('    happened         :', got)
    if any(g != 'constructed' for g in got):
        violations.append(3)

print(f'\nVIOLATION in parts {violations}' if violations else '\nno violation')
sys.exit(1 if violations else 0)
