"""
C17 demo 1: with mask_partial on, the set of valid corrected pixels depends on the block size, and interior
seam lines of nodata appear, when source pixel centres lie exactly on reference pixel boundaries.

Geometry: 30 m reference, 10 m source, same CRS, north-up, source grid shifted by half a source pixel (5 m) relative to
the reference grid lines (the classic PixelIsPoint / PixelIsArea half pixel shift).  Every third source column / row then
has its centre exactly on a reference pixel boundary.  All pixels of both images are valid.

Run with cwd = the homonim checkout:  python demo1.py
Exit code 1 when the violation occurs, 0 otherwise.
"""
import os
import sys
import tempfile
import warnings

sys.path.insert(0, os.getcwd())
import numpy as np
import rasterio as rio
from rasterio.crs import CRS
from rasterio.transform import Affine
import cv2

import homonim
from homonim import RasterFuse, Model, ProcCrs

warnings.simplefilter('ignore')
print('homonim:', homonim.__file__)

REF_RES, SRC_RES = 30, 10
REF_X0, REF_Y0 = 500000, 7000000
REF_SHAPE = (44, 24)
SRC_X0, SRC_Y0 = REF_X0 + 75, REF_Y0 - 75  # 2.5 reference pixels = 7.5 source pixels in from the reference UL corner
SRC_SHAPE = (111, 48)
KERNEL = (3, 5)  # (h, w), h != w


def write(path, data, x0, y0, res):
    with rio.open(
        path, 'w', driver='GTiff', width=data.shape[1], height=data.shape[0], count=1, dtype='float32',
        nodata=float('nan'), crs=CRS.from_epsg(32735), transform=Affine(res, 0, x0, 0, -res, y0)
    ) as ds:
        ds.write(data.astype('float32'), 1)


def main():
    rng = np.random.default_rng(0)
    src = rng.uniform(100, 200, SRC_SHAPE)
    ref = rng.uniform(0.1, 0.2, REF_SHAPE)

    # --- what the property demands (exact integer arithmetic) ---
    # reference pixels that are valid and completely covered by valid source pixels (everything is valid, so: reference
    # pixels completely inside the source extent)
    sx1, sy1 = SRC_X0 + SRC_RES * SRC_SHAPE[1], SRC_Y0 - SRC_RES * SRC_SHAPE[0]
    full = np.zeros(REF_SHAPE, 'uint8')
    for i in range(REF_SHAPE[0]):
        for j in range(REF_SHAPE[1]):
            l, r = REF_X0 + REF_RES * j, REF_X0 + REF_RES * (j + 1)
            t, b = REF_Y0 - REF_RES * i, REF_Y0 - REF_RES * (i + 1)
            full[i, j] = (l >= SRC_X0) and (r <= sx1) and (t <= SRC_Y0) and (b >= sy1)
    # ... whose kernel window grown by one pixel is completely made of such pixels
    se = np.ones((KERNEL[0] + 2, KERNEL[1] + 2), 'uint8')
    supported = cv2.erode(full, se, borderType=cv2.BORDER_CONSTANT, borderValue=0).astype(bool)

    must_valid = np.zeros(SRC_SHAPE, bool)  # every reference pixel the source pixel could be said to fall in is supported
    must_invalid = np.zeros(SRC_SHAPE, bool)  # none is
    on_boundary = np.zeros(SRC_SHAPE, bool)
    for i in range(SRC_SHAPE[0]):
        cy2 = 2 * SRC_Y0 - SRC_RES * (2 * i + 1)  # 2 x centre y (integer)
        dq, dr = divmod(2 * REF_Y0 - cy2, 2 * REF_RES)
        ris = [dq - 1, dq] if dr == 0 else [dq]
        for j in range(SRC_SHAPE[1]):
            cx2 = 2 * SRC_X0 + SRC_RES * (2 * j + 1)
            dq, dr = divmod(cx2 - 2 * REF_X0, 2 * REF_RES)
            rjs = [dq - 1, dq] if dr == 0 else [dq]
            vals = [supported[ri, rj] for ri in ris for rj in rjs]
            must_valid[i, j] = all(vals)
            must_invalid[i, j] = not any(vals)
            on_boundary[i, j] = len(vals) > 1
    print(f'source pixels with centre exactly on a reference pixel boundary: {on_boundary.sum()} of {on_boundary.size}')
    print(f'property demands: {must_valid.sum()} pixels valid, {must_invalid.sum()} invalid, '
          f'{(~must_valid & ~must_invalid).sum()} ambiguous (boundary of the supported region)')

    # --- what happens ---
    masks = {}
    with tempfile.TemporaryDirectory() as td:
        src_file, ref_file = os.path.join(td, 'src.tif'), os.path.join(td, 'ref.tif')
        write(src_file, src, SRC_X0, SRC_Y0, SRC_RES)
        write(ref_file, ref, REF_X0, REF_Y0, REF_RES)
        for max_block_mem in [100, 2e-2, 5e-3, 2e-3]:
            out_file = os.path.join(td, f'corr_{max_block_mem}.tif')
            with RasterFuse(src_file, ref_file, proc_crs=ProcCrs.ref) as fuse:
                fuse.process(
                    out_file, Model.gain_blk_offset, KERNEL, build_ovw=False,
                    model_config=dict(mask_partial=True), block_config=dict(threads=1, max_block_mem=max_block_mem),
                )
            with rio.open(out_file) as ds:
                masks[max_block_mem] = ds.read_masks(1).astype(bool)

    fail = False
    base = masks[100]
    for mbm, mask in masks.items():
        lost = must_valid & ~mask
        extra = must_invalid & mask
        diff = mask != base
        print(
            f'max_block_mem={mbm}: {mask.sum()} valid pixels; fully supported but invalid: {lost.sum()}; '
            f'unsupported but valid: {extra.sum()}; differs from the single block result in {diff.sum()} pixels'
        )
        if lost.any():
            rows, cols = np.unique(np.argwhere(lost)[:, 0]), np.unique(np.argwhere(lost)[:, 1])
            print(f'   lost pixels lie on source rows {rows.tolist()[:12]}... / cols {cols.tolist()[:12]}... '
                  f'(all on boundary rows/cols: {bool(on_boundary[lost].all())})')
        fail |= bool(lost.any() or extra.any() or diff.any())

    if fail:
        print('VIOLATION: the partial mask depends on the block size; fully supported interior pixels are masked along '
              'block seams.')
        return 1
    print('no violation')
    return 0


if __name__ == '__main__':
    sys.exit(main())
