"""
C17 demo 2: with mask_partial on, validity of the corrected pixels is not determined by the validity patterns alone, and
depends on the block size, when a processing block of the source is constant (e.g. a saturated / over-exposed region of
an 8 bit image) - with the default model (gain-blk-offset).

All pixels of source and reference are valid.  The left 3/4 of the uint8 source is saturated at 255.  Processed as
one block, the result is what the property demands.  Processed in smaller blocks (small max_block_mem), every block that
lies completely in the saturated region comes out as nodata.  A completely constant source comes out as all nodata
even as a single block.

Run with cwd = the homonim checkout:  python demo2.py
Exit code 1 when the violation occurs, 0 otherwise.
"""
import os
import sys
import tempfile
import warnings

sys.path.insert(0, os.getcwd())
import numpy as np
import rasterio as rio
from rasterio.crs import CRS
from rasterio.transform import Affine
import cv2

import homonim
from homonim import RasterFuse, Model, ProcCrs

warnings.simplefilter('ignore')
np.seterr(all='ignore')
print('homonim:', homonim.__file__)

REF_RES, SRC_RES = 30, 10
REF_X0, REF_Y0 = 500000, 7000000
REF_SHAPE = (40, 70)
SRC_X0, SRC_Y0 = REF_X0 + 60, REF_Y0 - 60  # aligned with the reference grid, 2 reference pixels in
SRC_SHAPE = (96, 192)  # 32 x 64 reference pixels
KERNEL = (3, 5)


def write(path, data, x0, y0, res, dtype, nodata):
    with rio.open(
        path, 'w', driver='GTiff', width=data.shape[1], height=data.shape[0], count=1, dtype=dtype,
        nodata=nodata, crs=CRS.from_epsg(32735), transform=Affine(res, 0, x0, 0, -res, y0)
    ) as ds:
        ds.write(data.astype(dtype), 1)


def expected_mask():
    """ Exact expectation: all pixels valid, grids aligned (3 x 3 source pixels per reference pixel). """
    full = np.zeros(REF_SHAPE, 'uint8')
    r0, c0 = (REF_Y0 - SRC_Y0) // REF_RES, (SRC_X0 - REF_X0) // REF_RES
    full[r0:r0 + SRC_SHAPE[0] // 3, c0:c0 + SRC_SHAPE[1] // 3] = 1
    se = np.ones((KERNEL[0] + 2, KERNEL[1] + 2), 'uint8')
    supported = cv2.erode(full, se, borderType=cv2.BORDER_CONSTANT, borderValue=0)
    sub = supported[r0:r0 + SRC_SHAPE[0] // 3, c0:c0 + SRC_SHAPE[1] // 3]
    return np.kron(sub, np.ones((3, 3), 'uint8')).astype(bool)


def run(td, src, ref, max_block_mem, proc_crs):
    src_file, ref_file = os.path.join(td, 'src.tif'), os.path.join(td, 'ref.tif')
    write(src_file, src, SRC_X0, SRC_Y0, SRC_RES, 'uint8', None)
    write(ref_file, ref, REF_X0, REF_Y0, REF_RES, 'float32', float('nan'))
    out_file = os.path.join(td, 'corr.tif')
    with RasterFuse(src_file, ref_file, proc_crs=proc_crs) as fuse:
        fuse.process(
            out_file, Model.gain_blk_offset, KERNEL, build_ovw=False, overwrite=True,
            model_config=dict(mask_partial=True), block_config=dict(threads=1, max_block_mem=max_block_mem),
        )
    with rio.open(out_file) as ds:
        return ds.read_masks(1).astype(bool)


def main():
    rng = np.random.default_rng(0)
    ref = rng.uniform(0.1, 0.2, REF_SHAPE)
    sat = rng.integers(60, 200, SRC_SHAPE).astype('uint8')
    sat[:, :144] = 255  # over-exposed region
    const = np.full(SRC_SHAPE, 128, 'uint8')
    exp = expected_mask()
    print(f'property demands {exp.sum()} valid pixels of {exp.size} (all source and reference pixels are valid)')

    fail = False
    with tempfile.TemporaryDirectory() as td:
        for name, src in [('partly saturated source', sat), ('constant source', const)]:
            masks = {}
            for mbm in [100, 1e-2, 4e-3]:
                masks[mbm] = run(td, src, ref, mbm, ProcCrs.ref)
                lost = exp & ~masks[mbm]
                extra = ~exp & masks[mbm]
                print(f'{name}, max_block_mem={mbm}: {masks[mbm].sum()} valid; fully supported but invalid: '
                      f'{lost.sum()}; unsupported but valid: {extra.sum()}; differs from single block result in '
                      f'{(masks[mbm] != masks[100]).sum()} pixels')
                fail |= bool(lost.any() or extra.any())
    if fail:
        print('VIOLATION: fully supported pixels are masked where a processing block of the source is constant, and the '
              'mask depends on the block size.')
        return 1
    print('no violation')
    return 0


if __name__ == '__main__':
    sys.exit(main())
