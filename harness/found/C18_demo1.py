"""
C18 demo 1: corrected image is NOT on the source grid / CRS when the source is the processing grid and the
source and reference CRSs differ.

Run with cwd = the homonim checkout:  /venv/bin/python /tmp/hunt_C18_out/demo1.py
"""
import os, sys, tempfile, warnings
sys.path.insert(0, os.getcwd())
warnings.simplefilter('ignore')
import numpy as np
import rasterio as rio
from rasterio.transform import Affine
from rasterio.warp import transform_bounds
import homonim
from homonim import RasterFuse, Model

print('homonim:', homonim.__file__)
tmp = tempfile.mkdtemp(prefix='c18_demo1_')
rng = np.random.default_rng(0)


def surface(h, w, seed):
    yy, xx = np.mgrid[0:h, 0:w]
    return (100 + 50 * np.sin(xx / 5) + 40 * np.cos(yy / 7) + np.random.default_rng(seed).normal(0, 2, (h, w)))


# reference: fine (2 m) image in UTM 35S
ref_file = f'{tmp}/ref_utm_2m.tif'
ref_t = Affine(2, 0, 500000, 0, -2, 7000400)
with rio.open(
    ref_file, 'w', driver='GTiff', width=200, height=200, count=1, dtype='float32', crs='EPSG:32735',
    transform=ref_t, nodata=0
) as ds:
    ds.write(surface(200, 200, 1).astype('float32'), 1)

# source: coarse (~17 m) north-up image in geographic WGS84, well inside the reference extent
west, south, east, north = transform_bounds('EPSG:32735', 'EPSG:4326', 500100, 7000100, 500300, 7000300)
res = (east - west) / 12
src_file = f'{tmp}/src_wgs84_coarse.tif'
src_t = Affine(res, 0, west + res, 0, -res, north - res)
with rio.open(
    src_file, 'w', driver='GTiff', width=8, height=8, count=1, dtype='float32', crs='EPSG:4326', transform=src_t,
    nodata=0
) as ds:
    ds.write(surface(8, 8, 2).astype('float32'), 1)

corr_file = f'{tmp}/corrected.tif'
with RasterFuse(src_file, ref_file) as fuse:  # proc_crs='auto'
    fuse.process(corr_file, Model.gain_blk_offset, (3, 3), build_ovw=False, block_config=dict(threads=1))
    print('resolved proc_crs:', fuse.proc_crs.name, '(source is the coarser image, so auto -> src)')

with rio.open(src_file) as src, rio.open(corr_file) as corr:
    print('\nPROPERTY DEMANDS: corrected image has the CRS, geo-transform and size of the (north-up) source')
    print('  source    crs=%s shape=%s transform=%s' % (src.crs, src.shape, tuple(src.transform)[:6]))
    print('WHAT HAPPENED:')
    print('  corrected crs=%s shape=%s transform=%s' % (corr.crs, corr.shape, tuple(corr.transform)[:6]))
    same = (
        corr.crs == src.crs and corr.shape == src.shape and
        np.allclose(tuple(corr.transform)[:6], tuple(src.transform)[:6], rtol=1e-9, atol=0)
    )

if not same:
    print('\nVIOLATION: the corrected image was written in the reference CRS on a warped grid, not on the source grid.')
    sys.exit(1)
print('\nno violation')
sys.exit(0)
