"""
C18 demo 2: storing the source (or the reference) south-up changes the result when validity is encoded with an
internal mask band (nodata=None) rather than a nodata value.

Run with cwd = the homonim checkout:  /venv/bin/python /tmp/hunt_C18_out/demo2.py
"""
import os, sys, tempfile, warnings
sys.path.insert(0, os.getcwd())
warnings.simplefilter('ignore')
import numpy as np
import rasterio as rio
from rasterio.transform import Affine
import homonim
from homonim import RasterFuse, Model

print('homonim:', homonim.__file__)
tmp = tempfile.mkdtemp(prefix='c18_demo2_')


def surface(h, w, seed):
    yy, xx = np.mgrid[0:h, 0:w]
    return (100 + 50 * np.sin(xx / 5) + 40 * np.cos(yy / 7) + np.random.default_rng(seed).normal(0, 2, (h, w)))


def write(path, array, valid, transform, south_up):
    """ Write a 1 band float32 GeoTIFF with an internal mask band (no nodata value), north-up or south-up. """
    h, w = array.shape
    if south_up:
        # identical geo-referenced content, rows stored bottom-to-top (all numbers are exact in binary floating point)
        array, valid = array[::-1], valid[::-1]
        transform = Affine(transform.a, 0, transform.c, 0, -transform.e, transform.f + transform.e * h)
    with rio.Env(GDAL_TIFF_INTERNAL_MASK=True):
        with rio.open(
            path, 'w', driver='GTiff', width=w, height=h, count=1, dtype='float32', crs='EPSG:32735',
            transform=transform
        ) as ds:
            ds.write(array.astype('float32'), 1)
            ds.write_mask(valid)
    return path


# reference 30x30 @ 10 m, source 40x40 @ 2 m inside it; both have a hole of invalid pixels flagged in the mask band
ref_t = Affine(10, 0, 500000, 0, -10, 7000300)
src_t = Affine(2, 0, 500100, 0, -2, 7000200)
ref_a, src_a = surface(30, 30, 1), surface(40, 40, 2)
ref_valid = np.ones((30, 30), bool); ref_valid[12:16, 12:15] = False
src_valid = np.ones((40, 40), bool); src_valid[5:15, 20:30] = False
# invalid pixels hold garbage, as is usual below a mask
ref_a[~ref_valid] = 5000; src_a[~src_valid] = -3000


def fuse(src_south_up, ref_south_up, tag):
    src_file = write(f'{tmp}/src_{tag}.tif', src_a, src_valid, src_t, src_south_up)
    ref_file = write(f'{tmp}/ref_{tag}.tif', ref_a, ref_valid, ref_t, ref_south_up)
    corr_file, param_file = f'{tmp}/corr_{tag}.tif', f'{tmp}/param_{tag}.tif'
    with RasterFuse(src_file, ref_file) as f:
        f.process(
            corr_file, Model.gain_blk_offset, (3, 3), param_filename=param_file, build_ovw=False,
            block_config=dict(threads=1)
        )
    with rio.open(corr_file) as c, rio.open(param_file) as p:
        return dict(
            shape=c.shape, transform=tuple(c.transform)[:6], corr=c.read(1), param=p.read(),
            pshape=p.shape, ptransform=tuple(p.transform)[:6]
        )


base = fuse(False, False, 'nn')
print('\nPROPERTY DEMANDS: south-up storage of the source or reference changes nothing in the result')
print('north-up source + north-up reference: corrected invalid pixels = %d' % np.isnan(base['corr']).sum())
violated = False
for tag, (ssu, rsu) in dict(src_south_up=(True, False), ref_south_up=(False, True)).items():
    res = fuse(ssu, rsu, tag)
    geom_same = all(res[k] == base[k] for k in ['shape', 'transform', 'pshape', 'ptransform'])
    mask_same = np.array_equal(np.isnan(res['corr']), np.isnan(base['corr']))
    both = ~np.isnan(res['corr']) & ~np.isnan(base['corr'])
    max_diff = np.abs(res['corr'][both] - base['corr'][both]).max()
    pmask_same = np.array_equal(np.isnan(res['param']), np.isnan(base['param']))
    print(
        f'{tag}: grids same={geom_same}, corrected invalid pixels = {np.isnan(res["corr"]).sum()} '
        f'(mask identical={mask_same}), max |corrected diff| on common valid pixels = {max_diff:.4g}, '
        f'parameter image mask identical={pmask_same}'
    )
    if not (geom_same and mask_same and pmask_same and max_diff < 1e-3):
        violated = True

if violated:
    print(
        '\nVIOLATION: with a south-up source / reference the internal mask is lost (masked garbage pixels are treated '
        'as valid data), so the corrected and parameter images differ from the north-up result.'
    )
    sys.exit(1)
print('\nno violation')
sys.exit(0)
