"""
C18 demo 3: comparing the corrected image with the same reference selects other bands than the fusion did, when the
reference is an RGB image whose wavelengths come from its colour interpretation (no ``center_wavelength`` tags).

Run with cwd = the homonim checkout:  /venv/bin/python /tmp/hunt_C18_out/demo3.py
"""
import os, sys, tempfile, warnings
sys.path.insert(0, os.getcwd())
warnings.simplefilter('ignore')
import numpy as np
import rasterio as rio
from rasterio.transform import Affine
import homonim
from homonim import RasterFuse, RasterCompare, Model

print('homonim:', homonim.__file__)
tmp = tempfile.mkdtemp(prefix='c18_demo3_')

yy, xx = np.mgrid[0:30, 0:30]
base = 100 + 50 * np.sin(xx / 5) + 40 * np.cos(yy / 7) + np.random.default_rng(0).normal(0, 2, (30, 30))
t = Affine(10, 0, 500000, 0, -10, 7000300)

# source: 4 band multi-spectral image in blue, green, red, NIR order with center_wavelength tags
src_file = f'{tmp}/src_bgrn.tif'
with rio.open(
    src_file, 'w', driver='GTiff', width=30, height=30, count=4, dtype='float32', crs='EPSG:32735', transform=t,
    nodata=0
) as ds:
    for bi, wl in enumerate([0.48, 0.56, 0.65, 0.83]):
        ds.write((base * (1 + 0.1 * bi) + 10 * bi).astype('float32'), bi + 1)
        ds.update_tags(bi + 1, center_wavelength=str(wl))

# reference: ordinary RGB GeoTIFF (red, green, blue colour interpretation, no wavelength tags).
# ref band j (1 based) = (j + 1) * base, so the reference band a corrected band was fitted to is recognisable.
ref_file = f'{tmp}/ref_rgb.tif'
with rio.open(
    ref_file, 'w', driver='GTiff', width=30, height=30, count=3, dtype='float32', crs='EPSG:32735', transform=t,
    nodata=0, photometric='rgb'
) as ds:
    for bj in range(3):
        ds.write((base * (bj + 2)).astype('float32'), bj + 1)
    print('reference colorinterp:', [ci.name for ci in ds.colorinterp])

corr_file = f'{tmp}/corrected.tif'
with RasterFuse(src_file, ref_file, src_bands=(1, 2, 3)) as fuse:
    fuse.process(corr_file, Model.gain_offset, (5, 5), build_ovw=False, block_config=dict(threads=1))
    fuse_bands = (fuse.src_bands, fuse.ref_bands)

with rio.open(corr_file) as corr:
    print('corrected band tags:', [corr.tags(bi + 1) for bi in range(corr.count)])
    print('corrected colorinterp:', [ci.name for ci in corr.colorinterp])

with RasterCompare(corr_file, ref_file) as cmp:
    cmp_bands = (cmp.src_bands, cmp.ref_bands)
    stats = cmp.process(threads=1)

print('\nPROPERTY DEMANDS: comparing the corrected image with the same reference selects the bands the fusion used')
print('  fusion matched   source bands %s -> reference bands %s' % fuse_bands)
print('WHAT HAPPENED:')
print('  compare matched  corrected bands %s -> reference bands %s' % cmp_bands)
print('  compare rRMSE per band:', {k: round(float(v['rrmse']), 4) for k, v in stats.items()})

# corrected band i was made from source band fuse_bands[0][i] and fitted to reference band fuse_bands[1][i]
expected = (tuple(range(1, len(fuse_bands[0]) + 1)), fuse_bands[1])
if cmp_bands != expected:
    print(
        '\nVIOLATION: the corrected image carries no wavelength information for the matched reference bands, so '
        'compare (silently) pairs corrected blue with reference red, and corrected red with reference blue.'
    )
    sys.exit(1)
print('\nno violation')
sys.exit(0)
