"""
C19 demo 1: a value given on the command line does NOT override the configuration file.

`homonim fuse --nodata null` (documented: "If null, an internal mask is written") is silently replaced by the
`nodata:` value of the --conf file, because FuseCommand.invoke() treats every parameter whose parsed value is None as
"not given on the command line".

Run with cwd = the homonim checkout.  Exits 1 when the violation occurs, 0 otherwise.
"""
import os
import sys

sys.path.insert(0, os.getcwd())

import logging
import tempfile
import warnings
from pathlib import Path

import numpy as np
import rasterio as rio
from click.testing import CliRunner
from rasterio.transform import from_origin

import homonim
from homonim import RasterFuse, cli

print('homonim:', homonim.__file__)
logging.disable(logging.WARNING)
warnings.simplefilter('ignore')


def make_pair(folder: Path):
    """ Small float32 3 band source (10m) inside a 3 band reference (40m), same CRS, aligned grids. """
    rng = np.random.default_rng(0)
    ref_shape, src_shape, ratio = (21, 24), (60, 72), 4
    yy, xx = np.mgrid[0:ref_shape[0], 0:ref_shape[1]]
    ref = np.stack(
        [100 + 20 * np.sin(xx / 3. + b) + 15 * np.cos(yy / 2.5 - b) + rng.normal(0, 3, ref_shape) for b in range(3)]
    ).astype('float32')
    prof = dict(driver='GTiff', count=3, dtype='float32', crs='EPSG:32735', nodata=float('nan'))
    with rio.open(
        folder / 'ref.tif', 'w', width=ref_shape[1], height=ref_shape[0],
        transform=from_origin(500000, 7000000, 40, 40), **prof
    ) as ds:
        ds.write(ref)
    sub = ref[:, 3:3 + src_shape[0] // ratio, 3:3 + src_shape[1] // ratio]
    src = (0.5 * np.kron(sub, np.ones((ratio, ratio), 'float32')) + 10).astype('float32')
    with rio.open(
        folder / 'src.tif', 'w', width=src_shape[1], height=src_shape[0],
        transform=from_origin(500000 + 120, 7000000 - 120, 10, 10), **prof
    ) as ds:
        ds.write(src)
    return folder / 'src.tif', folder / 'ref.tif'


def describe(filename: Path):
    with rio.open(filename) as ds:
        return ds.nodata, [str(f.name) for f in ds.mask_flag_enums[0]]


with tempfile.TemporaryDirectory() as tmp:
    tmp = Path(tmp)
    src_file, ref_file = make_pair(tmp)
    conf_file = tmp / 'conf.yaml'
    conf_file.write_text('nodata: 0\n')

    # command line: --nodata null  +  config file: nodata: 0
    cli_dir = tmp / 'cli'
    cli_dir.mkdir()
    args = [
        '-q', 'fuse', str(src_file), str(ref_file), '-od', str(cli_dir), '--no-build-ovw', '--conf', str(conf_file),
        '--nodata', 'null'
    ]
    res = CliRunner().invoke(cli.cli, args)
    assert res.exit_code == 0, res.output
    cli_nodata, cli_flags = describe(next(cli_dir.glob('*.tif')))

    # control: command line --nodata 7 does override the same config file
    ctl_dir = tmp / 'ctl'
    ctl_dir.mkdir()
    ctl_args = list(args)
    ctl_args[ctl_args.index(str(cli_dir))] = str(ctl_dir)
    ctl_args[-1] = '7'
    res = CliRunner().invoke(cli.cli, ctl_args)
    assert res.exit_code == 0, res.output
    ctl_nodata, ctl_flags = describe(next(ctl_dir.glob('*.tif')))

    # API call with the settings given on the command line
    api_file = tmp / 'api.tif'
    with RasterFuse(src_file, ref_file) as raster_fuse:
        raster_fuse.process(api_file, build_ovw=False, out_profile=dict(nodata=None))
    api_nodata, api_flags = describe(api_file)

    print('homonim ' + ' '.join(args[1:]))
    print(f'config file            : {conf_file.read_text().strip()!r}')
    print(f'demanded (CLI wins)    : nodata=None with an internal mask, as the API gives: nodata={api_nodata}, '
          f'mask flags={api_flags}')
    print(f'happened               : nodata={cli_nodata}, mask flags={cli_flags}')
    print(f'control (--nodata 7)   : nodata={ctl_nodata}, mask flags={ctl_flags}  (command line wins here)')

    violated = (cli_nodata is not None) or (cli_flags != api_flags)
    print('VIOLATION: --nodata null was overridden by the config file value' if violated else 'no violation')
    sys.exit(1 if violated else 0)
