"""
C19 demo 2: `homonim fuse --r2-inpaint-thresh 0` is documented as "0 = turn off inpainting", but it does not turn
in-painting off.

The CLI forwards 0.0 to the API, where only `r2_inpaint_thresh=None` turns in-painting off (KernelModel tests
`is not None`).  With 0.0, every kernel with a negative gain (or R2 <= 0) still has its offset in-painted and its gain
re-estimated.  So the command line run is not pixel-identical to the API run with the same setting (in-painting off),
and --r2-inpaint-thresh accepts no value that reaches the API's `None`.

Run with cwd = the homonim checkout.  Exits 1 when the violation occurs, 0 otherwise.
"""
import os
import sys

sys.path.insert(0, os.getcwd())

import logging
import tempfile
import warnings
from pathlib import Path

import numpy as np
import rasterio as rio
from click.testing import CliRunner
from rasterio.transform import from_origin

import homonim
from homonim import RasterFuse, Model, cli

print('homonim:', homonim.__file__)
logging.disable(logging.WARNING)
warnings.simplefilter('ignore')


def make_pair(folder: Path):
    """
    Float32 3 band source (10m) inside a 3 band reference (40m).  The left part of the source is anti-correlated with
    the reference (e.g. land cover change), which gives negative kernel gains there.
    """
    rng = np.random.default_rng(0)
    ref_shape, src_shape, ratio = (36, 46), (120, 160), 4
    yy, xx = np.mgrid[0:ref_shape[0], 0:ref_shape[1]]
    ref = np.stack(
        [100 + 20 * np.sin(xx / 3. + b) + 15 * np.cos(yy / 2.5 - b) + rng.normal(0, 3, ref_shape) for b in range(3)]
    ).astype('float32')
    prof = dict(driver='GTiff', count=3, dtype='float32', crs='EPSG:32735', nodata=float('nan'))
    with rio.open(
        folder / 'ref.tif', 'w', width=ref_shape[1], height=ref_shape[0],
        transform=from_origin(500000, 7000000, 40, 40), **prof
    ) as ds:
        ds.write(ref)
    sub = ref[:, 3:3 + src_shape[0] // ratio, 3:3 + src_shape[1] // ratio]
    src = 0.5 * np.kron(sub, np.ones((ratio, ratio), 'float32')) + 10 + rng.normal(0, 4, (3, *src_shape))
    src[:, :, :60] = 200 - src[:, :, :60]
    with rio.open(
        folder / 'src.tif', 'w', width=src_shape[1], height=src_shape[0],
        transform=from_origin(500000 + 120, 7000000 - 120, 10, 10), **prof
    ) as ds:
        ds.write(src.astype('float32'))
    return folder / 'src.tif', folder / 'ref.tif'


def read(filename: Path):
    with rio.open(filename) as ds:
        return ds.read(), ds.tags()


with tempfile.TemporaryDirectory() as tmp:
    tmp = Path(tmp)
    src_file, ref_file = make_pair(tmp)

    # command line with in-painting "turned off" as documented in `homonim fuse --help`
    cli_dir = tmp / 'cli'
    cli_dir.mkdir()
    args = [
        '-q', 'fuse', str(src_file), str(ref_file), '-od', str(cli_dir), '--no-build-ovw', '--model', 'gain-offset',
        '--kernel-shape', '5', '5', '--r2-inpaint-thresh', '0'
    ]
    res = CliRunner().invoke(cli.cli, args)
    assert res.exit_code == 0, res.output
    cli_array, cli_tags = read(next(cli_dir.glob('*.tif')))

    # API with in-painting turned off as documented in KernelModel.create_config() ("`None` turns off in-painting")
    api_arrays = {}
    for thresh in [None, 0.0]:
        api_file = tmp / f'api_{thresh}.tif'
        with RasterFuse(src_file, ref_file) as raster_fuse:
            raster_fuse.process(
                api_file, Model.gain_offset, (5, 5), build_ovw=False, model_config=dict(r2_inpaint_thresh=thresh)
            )
        api_arrays[thresh] = read(api_file)[0]

    off_diff = np.abs(cli_array - api_arrays[None])
    on_diff = np.abs(cli_array - api_arrays[0.0])
    n_off = int((off_diff > 1e-2).sum())
    print('homonim ' + ' '.join(args[1:]))
    print('--r2-inpaint-thresh help: "... (0 = turn off inpainting)"')
    print('demanded : output pixel-identical to the API run with in-painting off (r2_inpaint_thresh=None)')
    print(f'happened : {n_off} of {cli_array.size} pixels differ by more than 0.01 from the API in-painting-off output '
          f'(max abs diff {np.nanmax(off_diff):.3f}); FUSE_R2_INPAINT_THRESH tag = {cli_tags["FUSE_R2_INPAINT_THRESH"]}')
    print(f'           (the CLI output is identical to the API run with r2_inpaint_thresh=0.0, which in-paints negative '
          f'gain kernels: max abs diff {np.nanmax(on_diff):.3f})')

    violated = n_off > 0
    print('VIOLATION: --r2-inpaint-thresh 0 does not turn in-painting off' if violated else 'no violation')
    sys.exit(1 if violated else 0)
