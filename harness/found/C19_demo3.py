"""
C19 demo 3: the fuse / compare commands wrap their SOURCE / REFERENCE arguments ("Path or URL of a reference image")
in pathlib.Path, which collapses '//' to '/'.  GDAL virtual file system paths with an absolute inner path
('/vsizip//abs/path/ref.zip/ref.tif', the form given in the GDAL docs) and URLs ('https://host/ref.tif' ->
'https:/host/ref.tif') are mangled before they reach the API, so the command line fails on a reference that the API,
given the same string, reads without complaint.

Run with cwd = the homonim checkout.  Exits 1 when the violation occurs, 0 otherwise.
"""
import os
import sys

sys.path.insert(0, os.getcwd())

import json
import logging
import tempfile
import warnings
import zipfile
from pathlib import Path

import numpy as np
import rasterio as rio
from click.testing import CliRunner
from rasterio.transform import from_origin

import homonim
from homonim import RasterFuse, RasterCompare, cli

print('homonim:', homonim.__file__)
logging.disable(logging.WARNING)
warnings.simplefilter('ignore')


def make_pair(folder: Path):
    """ Small float32 3 band source (10m) inside a 3 band reference (40m), same CRS, aligned grids. """
    rng = np.random.default_rng(0)
    ref_shape, src_shape, ratio = (21, 24), (60, 72), 4
    yy, xx = np.mgrid[0:ref_shape[0], 0:ref_shape[1]]
    ref = np.stack(
        [100 + 20 * np.sin(xx / 3. + b) + 15 * np.cos(yy / 2.5 - b) + rng.normal(0, 3, ref_shape) for b in range(3)]
    ).astype('float32')
    prof = dict(driver='GTiff', count=3, dtype='float32', crs='EPSG:32735', nodata=float('nan'))
    with rio.open(
        folder / 'ref.tif', 'w', width=ref_shape[1], height=ref_shape[0],
        transform=from_origin(500000, 7000000, 40, 40), **prof
    ) as ds:
        ds.write(ref)
    sub = ref[:, 3:3 + src_shape[0] // ratio, 3:3 + src_shape[1] // ratio]
    src = (0.5 * np.kron(sub, np.ones((ratio, ratio), 'float32')) + 10).astype('float32')
    with rio.open(
        folder / 'src.tif', 'w', width=src_shape[1], height=src_shape[0],
        transform=from_origin(500000 + 120, 7000000 - 120, 10, 10), **prof
    ) as ds:
        ds.write(src)
    return folder / 'src.tif', folder / 'ref.tif'


with tempfile.TemporaryDirectory() as tmp:
    tmp = Path(tmp).resolve()
    src_file, ref_file = make_pair(tmp)
    # a zipped reference, e.g. as downloaded from a data provider
    with zipfile.ZipFile(tmp / 'ref.zip', 'w') as zf:
        zf.write(ref_file, 'ref.tif')
    ref_file.unlink()
    ref_vsi = f'/vsizip/{tmp}/ref.zip/ref.tif'  # i.e. /vsizip//tmp/.../ref.zip/ref.tif
    assert ref_vsi.startswith('/vsizip//')

    # API: fuse and compare with the reference string
    api_file = tmp / 'api.tif'
    with RasterFuse(str(src_file), ref_vsi) as raster_fuse:
        raster_fuse.process(api_file, build_ovw=False)
    with RasterCompare(str(src_file), ref_vsi) as raster_compare:
        api_stats = raster_compare.process(max_block_mem=100)
    print(f'reference argument : {ref_vsi}')
    print(f'API                : RasterFuse.process() wrote {api_file.name}; RasterCompare.process() Mean = '
          f'{ {k: round(float(v), 4) for k, v in api_stats["Mean"].items()} }')

    # CLI: same reference string
    cli_dir = tmp / 'cli'
    cli_dir.mkdir()
    fuse_res = CliRunner().invoke(
        cli.cli, ['-q', 'fuse', str(src_file), ref_vsi, '-od', str(cli_dir), '--no-build-ovw']
    )
    json_file = tmp / 'compare.json'
    cmp_res = CliRunner().invoke(cli.cli, ['-q', 'compare', str(src_file), ref_vsi, '--output', str(json_file)])

    def last_line(res):
        lines = [line for line in res.output.splitlines() if line.strip() and line.strip() != 'Aborted!']
        return lines[-1] if lines else ''

    print('demanded           : `homonim fuse` / `homonim compare` give the API outputs / statistics')
    print(f'happened (fuse)    : exit code {fuse_res.exit_code}, outputs {[p.name for p in cli_dir.iterdir()]}; '
          f'{last_line(fuse_res) if fuse_res.exit_code else ""}')
    print(f'happened (compare) : exit code {cmp_res.exit_code}, json written: {json_file.exists()}; '
          f'{last_line(cmp_res) if cmp_res.exit_code else ""}')
    print(f'cause              : pathlib.Path({ref_vsi!r}) -> {str(Path(ref_vsi))!r}')
    url = 'https://example.com/dir/ref.tif'
    print(f'                     pathlib.Path({url!r}) -> {str(Path(url))!r}')

    violated = fuse_res.exit_code != 0 or cmp_res.exit_code != 0
    if not violated:
        # both ran: then the outputs / statistics must equal the API's
        with rio.open(api_file) as api_ds, rio.open(next(cli_dir.glob('*.tif'))) as cli_ds:
            violated = not np.array_equal(api_ds.read(), cli_ds.read(), equal_nan=True)
        cli_stats = json.loads(json_file.read_text())[str(src_file)]
        violated = violated or (cli_stats != json.loads(json.dumps(api_stats)))
    print('VIOLATION: the command line cannot read a reference that the API reads' if violated else 'no violation')
    sys.exit(1 if violated else 0)
