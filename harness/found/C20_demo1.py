"""
C20 demo 1: RasterArray.to_rio_dataset() with its default band indexes cannot write
  (a) a single-band RasterArray whose array is 3D, shape (1, h, w) - which is what the package's own
      RasterArray.from_profile(None, profile) creates, and what rasterio's dataset.read() returns - into a
      single-band dataset, and
  (b) a RasterArray with fewer bands than the dataset, although the docstring says "The default is to write into
      the first `count` non-alpha bands of the dataset, where `count` is the number of RasterArray bands".
Both raise ValueError instead of storing the pixels.

Run with cwd = the homonim checkout.  Exits 1 when the violation occurs.
"""
import os
import sys
import tempfile
import warnings

sys.path.insert(0, os.getcwd())

import numpy as np
import rasterio as rio
from rasterio import Affine
from rasterio.windows import Window

import homonim
from homonim.raster_array import RasterArray

warnings.simplefilter('ignore')
print('homonim:', homonim.__file__)

crs = rio.CRS.from_epsg(32735)
transform = Affine(2, 0, 100, 0, -2, 500)
H, W = 8, 8
violations = []


def readback(filename):
    with rio.open(filename) as ds:
        return ds.read()


with tempfile.TemporaryDirectory() as tmp:
    # ---------------------------------------------------------------------------------------------------------------
    # (a) single band, 3D (1, h, w) RasterArray -> single band dataset, default indexes
    fn_a = os.path.join(tmp, 'single_band.tif')
    profile = dict(
        driver='GTiff', dtype='float32', count=1, width=W, height=H, crs=crs, transform=transform, nodata=float('nan')
    )
    with rio.open(fn_a, 'w', **profile) as ds:
        # a block made by the package itself from the dataset profile (a (1, 4, 4) array of nodata) ...
        block_win = Window(2, 2, 4, 4)
        block_profile = dict(ds.profile, width=4, height=4)
        ra = RasterArray.from_profile(None, block_profile, window=block_win)
        ra.array[:] = np.arange(1, 17, dtype='float32').reshape(1, 4, 4)  # ... filled with data
        print(f'(a) RasterArray: count={ra.count}, array shape={ra.array.shape}; dataset: count={ds.count}')
        print('    property demands: the 4x4 block is stored at rows/cols 2..5 of band 1')
        try:
            ra.to_rio_dataset(ds)
            err_a = None
        except Exception as ex:
            err_a = ex
    if err_a is not None:
        print(f'    happened: {type(err_a).__name__}: {err_a}')
        violations.append('a')
    else:
        got = readback(fn_a)[0, 2:6, 2:6]
        ok = np.array_equal(got, ra.array[0])
        print('    happened: written, read back equal =', ok)
        if not ok:
            violations.append('a')

    # same thing with a block as returned by rasterio's read() (always 3D)
    fn_a2 = os.path.join(tmp, 'single_band_copy.tif')
    with rio.open(fn_a, 'r') as src, rio.open(fn_a2, 'w', **profile) as dst:
        ra2 = RasterArray(src.read(), src.crs, src.transform, nodata=src.nodata)
        try:
            ra2.to_rio_dataset(dst)
            print('(a2) RasterArray(src.read(), ...) of a 1 band image -> 1 band dataset: written')
        except Exception as ex:
            print(f'(a2) RasterArray(src.read(), ...) of a 1 band image -> 1 band dataset: {type(ex).__name__}: {ex}')
            violations.append('a2')

    # ---------------------------------------------------------------------------------------------------------------
    # (b) 2 band RasterArray -> 3 band dataset, default indexes (documented: first 2 non-alpha bands)
    fn_b = os.path.join(tmp, 'three_band.tif')
    profile_b = dict(profile, count=3)
    data = np.stack([np.full((H, W), 11, 'float32'), np.full((H, W), 22, 'float32')])
    with rio.open(fn_b, 'w', **profile_b) as ds:
        ra = RasterArray(data, crs, transform)
        print(f'(b) RasterArray: count={ra.count}; dataset: count={ds.count}')
        print('    docstring / property demand: bands 1 and 2 of the dataset receive the two RasterArray bands')
        try:
            ra.to_rio_dataset(ds)
            err_b = None
        except Exception as ex:
            err_b = ex
    if err_b is not None:
        print(f'    happened: {type(err_b).__name__}: {err_b}')
        violations.append('b')
    else:
        got = readback(fn_b)
        ok = np.array_equal(got[:2], data)
        print('    happened: written, read back equal =', ok)
        if not ok:
            violations.append('b')

print('VIOLATION' if violations else 'no violation', violations)
sys.exit(1 if violations else 0)
