"""
C20 demo 2: a RasterArray without a nodata value (nodata=None, i.e. every pixel valid - allowed by the constructor,
and what RasterArray.mask_ra returns) cannot be written to a dataset that has a nodata value:
RasterArray.to_rio_dataset() raises TypeError from numpy.isnan(None), for every window.

Run with cwd = the homonim checkout.  Exits 1 when the violation occurs.
"""
import os
import sys
import tempfile
import warnings

sys.path.insert(0, os.getcwd())

import numpy as np
import rasterio as rio
from rasterio import Affine
from rasterio.windows import Window

import homonim
from homonim.raster_array import RasterArray

warnings.simplefilter('ignore')
print('homonim:', homonim.__file__)

crs = rio.CRS.from_epsg(32735)
transform = Affine(2, 0, 100, 0, -2, 500)
H, W = 8, 8
violations = []

with tempfile.TemporaryDirectory() as tmp:
    block = np.arange(1, 17, dtype='uint8').reshape(4, 4)
    block_win = Window(2, 2, 4, 4)

    for ds_nodata in (None, 0, 255):
        fn = os.path.join(tmp, f'out_{ds_nodata}.tif')
        with rio.open(
            fn, 'w', driver='GTiff', dtype='uint8', count=1, width=W, height=H, crs=crs, transform=transform,
            nodata=ds_nodata
        ) as ds:
            # a fully valid block: no nodata value
            ra = RasterArray(block.copy(), crs, transform, nodata=None, window=block_win)
            print(f'RasterArray(nodata=None, all {ra.mask.sum()} pixels valid) -> uint8 dataset with nodata={ds_nodata}')
            print('    property demands: block stored at rows/cols 2..5, and read back unchanged')
            try:
                ra.to_rio_dataset(ds, window=block_win)
                err = None
            except Exception as ex:
                err = ex
        if err is not None:
            print(f'    happened: {type(err).__name__}: {err}')
            violations.append(f'nodata=None array -> dataset nodata={ds_nodata}')
            continue
        with rio.open(fn) as ds:
            got = RasterArray.from_rio_dataset(ds, window=block_win)
        ok = np.array_equal(got.array, block.astype('float32')) and got.mask.all()
        print('    happened: written, read back equal =', ok)
        if not ok:
            violations.append(f'nodata=None array -> dataset nodata={ds_nodata} (read back differs)')

    # the package's own nodata=None arrays: RasterArray.mask_ra ("useful for re-projecting the mask")
    fn = os.path.join(tmp, 'mask.tif')
    src_ra = RasterArray(np.ones((H, W), 'float32'), crs, transform)  # nodata = nan
    src_ra.array[0, :3] = np.nan
    with rio.open(
        fn, 'w', driver='GTiff', dtype='uint8', count=1, width=W, height=H, crs=crs, transform=transform, nodata=255
    ) as ds:
        mask_ra = src_ra.mask_ra
        print(f'mask_ra (nodata={mask_ra.nodata}, dtype={mask_ra.dtype}) -> uint8 dataset with nodata=255')
        try:
            mask_ra.to_rio_dataset(ds)
            print('    happened: written')
        except Exception as ex:
            print(f'    happened: {type(ex).__name__}: {ex}')
            violations.append('mask_ra -> dataset nodata=255')

print('VIOLATION' if violations else 'no violation', violations)
sys.exit(1 if violations else 0)
