"""
C20 demo 3: reading a band of an image whose bands have different nodata values (per-band nodata, e.g. a VRT made
by `gdalbuildvrt -separate` from single band files) masks the band with the nodata value of band 1:
RasterArray.from_rio_dataset() returns the band's nodata pixels as valid data (and would mask valid pixels that
happen to equal band 1's nodata value).

Run with cwd = the homonim checkout.  Exits 1 when the violation occurs.
"""
import os
import sys
import tempfile
import warnings

sys.path.insert(0, os.getcwd())

import numpy as np
import rasterio as rio
from rasterio import Affine
from rasterio.windows import Window

import homonim
from homonim.raster_array import RasterArray

warnings.simplefilter('ignore')
print('homonim:', homonim.__file__)

crs = rio.CRS.from_epsg(32735)
transform = Affine(2, 0, 100, 0, -2, 500)
H, W = 4, 4
violations = []

with tempfile.TemporaryDirectory() as tmp:
    # two single band uint8 files with different nodata values
    band_a = np.arange(1, 17, dtype='uint8').reshape(H, W)
    band_b = np.arange(101, 117, dtype='uint8').reshape(H, W)
    band_a[0, 0] = 0  # nodata pixel of a.tif (nodata=0)
    band_b[3, 3] = 255  # nodata pixel of b.tif (nodata=255)
    band_b[1, 1] = 0  # a VALID pixel of b.tif whose value equals the nodata of a.tif
    for name, arr, nodata in [('a.tif', band_a, 0), ('b.tif', band_b, 255)]:
        with rio.open(
            os.path.join(tmp, name), 'w', driver='GTiff', dtype='uint8', count=1, width=W, height=H, crs=crs,
            transform=transform, nodata=nodata
        ) as ds:
            ds.write(arr, 1)

    # stack them, as `gdalbuildvrt -separate stack.vrt a.tif b.tif` does
    vrt = f'''<VRTDataset rasterXSize="{W}" rasterYSize="{H}">
  <SRS>{crs.to_wkt()}</SRS>
  <GeoTransform>100, 2, 0, 500, 0, -2</GeoTransform>
  <VRTRasterBand dataType="Byte" band="1">
    <NoDataValue>0</NoDataValue>
    <ComplexSource><SourceFilename relativeToVRT="1">a.tif</SourceFilename><SourceBand>1</SourceBand><NODATA>0</NODATA></ComplexSource>
  </VRTRasterBand>
  <VRTRasterBand dataType="Byte" band="2">
    <NoDataValue>255</NoDataValue>
    <ComplexSource><SourceFilename relativeToVRT="1">b.tif</SourceFilename><SourceBand>1</SourceBand><NODATA>255</NODATA></ComplexSource>
  </VRTRasterBand>
</VRTDataset>'''
    vrt_fn = os.path.join(tmp, 'stack.vrt')
    with open(vrt_fn, 'w') as f:
        f.write(vrt)

    win = Window(-1, -1, W + 2, H + 2)  # a window partly outside the image
    with rio.open(vrt_fn) as ds:
        print('dataset nodatavals:', ds.nodatavals, ' mask flags:', ds.mask_flag_enums)
        gdal_valid = ds.read_masks(2) > 0  # GDAL's own validity mask of band 2
        ra = RasterArray.from_rio_dataset(ds, indexes=2, window=win)

    exp_valid = np.zeros((H + 2, W + 2), bool)
    exp_valid[1:-1, 1:-1] = gdal_valid
    print('band 2 as stored:\n', band_b)
    print('property demands: valid mask of the band 2 block (nodata 255 at image [3, 3] and outside the image):\n',
          exp_valid.astype(int))
    print(f'happened: RasterArray.nodata={ra.nodata}, RasterArray.mask:\n', ra.mask.astype(int))
    print('RasterArray.array:\n', ra.array)

    if not np.array_equal(ra.mask, exp_valid):
        wrong = np.argwhere(ra.mask != exp_valid) - 1
        print('pixels (image row, col) with the wrong validity:', wrong.tolist())
        violations.append('mask of band 2 is wrong')
    if ra.mask[4, 4]:
        print(f'the nodata pixel [3, 3] of band 2 is returned as valid data with value {ra.array[4, 4]}')
    if not ra.mask[2, 2]:
        print(f'the valid pixel [1, 1] of band 2 (value 0) is returned as nodata')

print('VIOLATION' if violations else 'no violation', violations)
sys.exit(1 if violations else 0)
