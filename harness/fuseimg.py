"""
Whole-image oracle: the real RasterFuse.process (reference-grid processing; gain, gain-offset without in-painting;
nearest / bilinear / cubic / cubic_spline up-sampling; 1..many blocks; random, unrelated source / reference data with holes)
against the Lean model's `ImagePair.corrected` / `correctedWide` (Model/FuseImage.lean, Model/Cubic.lean) evaluated on the
same pixels in exact rationals (`fuseimg` op): validity masks must agree exactly, values to a float32 budget (gain 2e-5,
gain-offset 5e-3 relative).  With the 4 x 4 kernels (cubic, cubic_spline - the default) a multi-block run is compared at the
pixels theorem `block_transparent_wide` covers: those whose centre's reference pixel is not the first or last row / column
of a block's output window next to another block.
"""
import numpy as np

import common
import fusion
import rasters
import resamp


def seam_pixels(pair, src, ref, mbm):
    """(src.h, src.w) bool: the reference pixel containing the source pixel's centre is the first or last row / column of a
    block's output window where another block follows (block windows as the code makes them; C06 checks those)"""
    import warnings
    from homonim import RasterFuse
    from homonim.enums import ProcCrs
    with warnings.catch_warnings():
        warnings.simplefilter('ignore')
        with RasterFuse(pair.src_path, pair.ref_path, proc_crs=ProcCrs.ref) as rf:
            bps = list(rf.block_pairs(overlap=(0, 0), max_block_mem=mbm))
    out = []
    for axis, (S, R) in enumerate(((src.row_axis, ref.row_axis), (src.col_axis, ref.col_axis))):
        los = {(bp.ref_out_block.row_off if axis == 0 else bp.ref_out_block.col_off) for bp in bps}
        his = {(bp.ref_out_block.row_off + bp.ref_out_block.height if axis == 0 else
                bp.ref_out_block.col_off + bp.ref_out_block.width) for bp in bps}
        inner = los & his            # where one block ends and the next begins
        near = np.array([(2 * (S[0] + j * S[1] - R[0]) + S[1]) // (2 * R[1]) for j in range(S[2])])
        out.append(np.array([any(i in (b - 1, b) for b in inner) for i in near], bool))
    shape = (max(bp.ref_out_block.height for bp in bps), max(bp.ref_out_block.width for bp in bps))
    return out[0][:, None] | out[1][None, :], len(bps), shape


def whole_image_leg(run: common.Run, n, blocks=(0,), base=700_000, src_grid=True):
    from homonim.errors import BlockSizeError
    tmp = run.tmpdir()
    lines, metas = [], []
    for k in range(n):
        rng = run.rng(f'fuseimg{k}')
        def unsuitable(src, ref):
            if src.px > ref.px or src.w < 6 or src.h < 6:
                return True
            # where GDAL's pixel arithmetic is inexact (pixel size no power of two) a source pixel centre exactly on a
            # reference pixel edge is resolved by float noise (pair_geometry already avoids coinciding edges there)
            return rasters.noisy_edges('dyadic', src.px, ref.px) and bool(resamp.centre_tie_mask(ref, src).any())
        src, ref = rasters.pair_geometry(rng, 'dyadic', 'auto', max_src=14, margin=(1, 2), avoid_aligned_edges=True)
        tries = 0
        while unsuitable(src, ref) and tries < 50:
            src, ref = rasters.pair_geometry(rng, 'dyadic', 'auto', max_src=14, margin=(1, 2), avoid_aligned_edges=True)
            tries += 1
        if unsuitable(src, ref):
            continue
        # processing grid: reference (the usual case), source because the source is the coarser image (the reference is
        # averaged onto it), or source forced on the finer image (the reference is up-sampled onto it)
        grid = ['ref', 'ref', 'src-auto', 'src-forced'][(k // 4) % 4] if src_grid else 'ref'
        if grid == 'src-auto':
            ps, pr = ref.px, src.px
            if ps == pr:
                continue
            sw, sh = rng.randint(6, 10), rng.randint(6, 10)
            noisy = rasters.noisy_edges('dyadic', ps, pr) and pr > 1
            sx0 = ref.x0 + 2 * pr + (rasters.offgrid_offset(rng, 'dyadic', ps, pr) if noisy else rng.randrange(0, pr))
            sytop = ref.ytop - 2 * pr - (rasters.offgrid_offset(rng, 'dyadic', ps, pr) if noisy else rng.randrange(0, pr))
            rw = -(-(sx0 + sw * ps - ref.x0) // pr) + 2
            rh = -(-(ref.ytop - (sytop - sh * ps)) // pr) + 2
            src, ref = rasters.Grid(sx0, sytop, ps, ps, sw, sh, src.unit), rasters.Grid(ref.x0, ref.ytop, pr, pr, rw, rh, src.unit)
        if grid == 'src-forced' and src.px == ref.px:
            grid = 'ref'
        model = ['gain', 'gain-offset'][k % 2]
        ups = ['bilinear', 'nearest'][(k // 2) % 2]
        if grid == 'ref' and k % 8 >= 4:
            ups = ['cubic_spline', 'cubic'][(k // 2) % 2]
            if ups == 'cubic' and rasters.noisy_edges('dyadic', src.px, ref.px) and resamp.centre_centre_tie_mask(ref, src).any():
                ups = 'cubic_spline'     # cubic's fall-back next to invalid pixels is decided by float noise at such centres
        # equal resolutions: the code treats parameters -> source grid as down-sampling and uses the down-sampling method
        ups_model = 'average' if src.px == ref.px else ups
        kern = [(3, 3), (5, 5), (3, 5), (5, 3), (1, 1)][k % 5] if model == 'gain' else [(5, 5), (3, 5), (5, 3)][k % 3]
        s = np.array([[rng.randint(20, 60) for _ in range(src.w)] for _ in range(src.h)], float)[None]
        r = np.array([[rng.randint(30, 90) for _ in range(ref.w)] for _ in range(ref.h)], float)[None]
        sv = np.ones((src.h, src.w), bool)
        for _ in range(rng.randint(0, 3)):
            sv[rng.randrange(src.h), rng.randrange(src.w)] = False
        rv = np.ones((ref.h, ref.w), bool)
        if rng.random() < 0.3:
            rv[rng.randrange(ref.h), rng.randrange(ref.w)] = False
        pair = fusion.write_pair(tmp, f'fi{k}', src, ref, s, r, sv, rv)
        st = [str(int(v)) if m else '_' for v, m in zip(s[0].ravel(), sv.ravel())]
        rt = [str(int(v)) if m else '_' for v, m in zip(r[0].ravel(), rv.ravel())]
        if grid != 'ref':
            ups_model = 'average' if grid == 'src-auto' else ups
        lines.append('%s %s %d %d %s 1 0 %d %d %d %d %d %d %d %d %d %d %d %d S %s R %s' % (
            'fuseimg' if grid == 'ref' else 'fuseimgsrc',
            model, kern[0], kern[1], ups_model, *src.row_axis, *src.col_axis, *ref.row_axis, *ref.col_axis, ' '.join(st), ' '.join(rt)))
        metas.append((k, pair, src, ref, model, ups, kern, grid))
    replies = common.model_batch(lines)
    if replies is None:
        run.model_available = False
        return
    for (k, pair, src, ref, model, ups, kern, grid), line, rep in zip(metas, lines, replies):
        m = resamp.parse_model_grid(rep, src.h, src.w)
        proc_ref = grid == 'ref'
        ph, pw = fusion.proc_window_shape(src, ref, proc_ref)
        for hv in blocks:
            if hv and grid == 'src-forced' and ups == 'bilinear' and ref.px > 3 * src.px:
                # outside C05's scope (forced grid) and provably partition-dependent: the bilinear support of a source pixel
                # reaches a reference pixel that a block does not read (theorem block_transparent_src_grid_bilinear_false;
                # measured on the real code: ratio 4 and 5 differ between partitions, ratio 2 and 3 do not)
                run.hist['whole-image model: forced source grid, bilinear, ratio > 3, multi-block: skipped'] += 1
                continue
            case = dict(i=base + k * 10 + hv, op='whole-image model', model=model, kernel=kern, upsampling=ups, halvings=hv,
                        grid=grid, src=src.to_dict(), ref=ref.to_dict())
            try:
                res = fusion.run_fuse(pair.src_path, pair.ref_path, tmp / 'fi_out.tif', model=model, kernel_shape=kern, param=False,
                                      threads=1, proc_crs='ref' if proc_ref else 'src',
                                      max_block_mem=fusion.block_mem_for(hv, ph, pw, src.px, ref.px, proc_ref) if hv else 100,
                                      model_config=dict(upsampling=ups, r2_inpaint_thresh=None))
            except BlockSizeError:
                continue
            except Exception as ex:
                run.fail(case, f'fusion raised {type(ex).__name__}: {ex}', signature=dict(kind='raises'))
                continue
            run.evaluations += 1
            run.lines_compared += 1
            run.hist[f'whole-image model: grid={grid} {model} {ups} blocks={"1" if not hv else ">1"}'] += 1
            run.nontrivial.add(('fuseimg', k, hv))
            a = res.corr[0].astype('float64')
            mm, im = np.isfinite(m), np.isfinite(a)
            if hv and ups in ('cubic', 'cubic_spline'):
                seam, nblk, _ = seam_pixels(pair, src, ref, fusion.block_mem_for(hv, ph, pw, src.px, ref.px, proc_ref))
                run.hist['whole-image model: 4x4 kernel, multi-block: seam pixels (compared with the block model only)'] += int(seam.sum())
                run.hist['whole-image model: 4x4 kernel, multi-block: pixels compared with the whole-image model'] += int((~seam).sum())
                # validity never depends on the partition (it is the nearest parameter pixel's), values do at the seams
                m = np.where(seam & mm, a, m)
            if hv and grid == 'ref' and src.px != ref.px:
                # every pixel - seams included - against what the block that writes it computes from what it read
                # (`correctedByBlock` / `correctedWideByBlock`; block shape as the code chose it, overlap = overlap_for_kernel)
                from homonim import utils as hu
                _, nblk, (bsr, bsc) = seam_pixels(pair, src, ref, fusion.block_mem_for(hv, ph, pw, src.px, ref.px, proc_ref))
                ov = hu.overlap_for_kernel(kern)
                if nblk > 1:
                    rep_b = common.model_batch(['fuseimgblk %d %d %d %d ' % (bsr, bsc, int(ov[0]), int(ov[1])) + line.split(' ', 1)[1]])
                    if rep_b is not None and '?' not in rep_b[0] and not rep_b[0].startswith('bad'):
                        mb = resamp.parse_model_grid(rep_b[0], src.h, src.w)
                        run.hist[f'block model: {ups} multi-block runs compared at every pixel'] += 1
                        run.lines_compared += 1
                        mbm_, tolb = np.isfinite(mb), (2e-5 if model == 'gain' else 5e-3)
                        if not np.array_equal(mbm_, im):
                            d = np.argwhere(mbm_ != im)[0].tolist()
                            run.disagree(case, ('fuseimgblk ' + line)[:200], f'valid={bool(mbm_[tuple(d)])} at {d}', f'valid={bool(im[tuple(d)])}',
                                         what='block model: corrected validity')
                            continue
                        if mbm_.any():
                            relb = np.abs(mb - a)[mbm_] / np.maximum(np.abs(mb[mbm_]), 1.0)
                            if relb.max() > tolb:
                                kk = np.argwhere((np.abs(mb - a) / np.maximum(np.abs(mb), 1.0) > tolb) & mbm_)[0].tolist()
                                run.disagree(case, ('fuseimgblk ' + line)[:200], repr(float(mb[tuple(kk)])), repr(float(a[tuple(kk)])),
                                             what=f'block model: corrected value at {kk} (rel {relb.max():.1e}, tol {tolb})')
                                continue
                    elif rep_b is not None:
                        run.hist['block model: reply not usable'] += 1
            if not np.array_equal(mm, im):
                d = np.argwhere(mm != im)[0].tolist()
                run.disagree(case, line[:200], f'valid={bool(mm[tuple(d)])} at {d}', f'valid={bool(im[tuple(d)])}',
                             what='whole-image model: corrected validity')
                continue
            if mm.any():
                rel = np.abs(m - a)[mm] / np.maximum(np.abs(m[mm]), 1.0)
                tol = 2e-5 if model == 'gain' else 5e-3
                if rel.max() > tol:
                    kk = np.argwhere((np.abs(m - a) / np.maximum(np.abs(m), 1.0) > tol) & mm)[0].tolist()
                    run.disagree(case, line[:200], repr(float(m[tuple(kk)])), repr(float(a[tuple(kk)])),
                                 what=f'whole-image model: corrected value at {kk} (rel {rel.max():.1e}, tol {tol})')
