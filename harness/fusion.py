"""
Helpers shared by the end-to-end checks: build a source/reference file pair on integer-unit grids and run the real
RasterFuse / RasterCompare on it, returning plain numpy results.
"""
import pathlib
import warnings

import numpy as np
import rasterio as rio

import rasters


class Pair:
    def __init__(self, src_path, ref_path, src_grid, ref_grid, src, ref, src_valid, ref_valid):
        self.src_path, self.ref_path = src_path, ref_path
        self.src_grid, self.ref_grid = src_grid, ref_grid
        self.src, self.ref, self.src_valid, self.ref_valid = src, ref, src_valid, ref_valid


def write_pair(dirpath, name, src_grid, ref_grid, src, ref, src_valid=None, ref_valid=None, dtype='float32',
               src_kw=None, ref_kw=None, src_nodata='nan', ref_nodata='nan'):
    """
    src, ref: (bands, h, w) arrays; *_valid: (h, w) bool or None.
    *_nodata: 'nan' (NaN nodata), a number (numeric nodata written under invalid pixels) or 'mask' (no nodata value,
    internal mask band; invalid pixels hold an arbitrary finite number) or 'mask+tag' (the same with a nodata tag as well)
    or 'alpha' (8-bit file with an alpha band holding semi-transparent valid pixels).
    """
    dirpath = pathlib.Path(dirpath)
    src = np.asarray(src, dtype='float64')
    ref = np.asarray(ref, dtype='float64')
    if src.ndim == 2:
        src = src[None]
    if ref.ndim == 2:
        ref = ref[None]
    sv = np.ones(src.shape[1:], bool) if src_valid is None else np.asarray(src_valid, bool)
    rv = np.ones(ref.shape[1:], bool) if ref_valid is None else np.asarray(ref_valid, bool)
    sp, rp = dirpath / f'{name}_src.tif', dirpath / f'{name}_ref.tif'
    for path, grid, arr, valid, enc, kw in ((sp, src_grid, src, sv, src_nodata, src_kw), (rp, ref_grid, ref, rv, ref_nodata, ref_kw)):
        a = arr.copy()
        if enc == 'nan':
            a[:, ~valid] = np.nan
            rasters.write_tif(path, grid, a, dtype=dtype, nodata=float('nan'), **(kw or {}))
        elif enc == 'mask':
            a[:, ~valid] = 77.0
            rasters.write_tif(path, grid, a, dtype=dtype, nodata=None, mask=valid, **(kw or {}))
        elif enc == 'nodata_values':
            # validity by the dataset metadata item NODATA_VALUES (one value per band; a pixel is invalid where all bands hold it)
            a[:, ~valid] = 0.0
            kw2 = dict(kw or {})
            kw2['tags'] = dict(kw2.get('tags') or {}, NODATA_VALUES=' '.join(['0'] * a.shape[0]))
            rasters.write_tif(path, grid, a, dtype=dtype, nodata=None, **kw2)
        elif enc == 'alpha':
            # 8-bit image with an alpha band whose valid pixels are partly semi-transparent (alpha 1..254 is valid for GDAL);
            # values must be integers in 0..255 and the band count 1 or 3
            a[:, ~valid] = 77.0
            pat = np.array([255, 128, 1, 254, 200, 255, 17])
            av = np.where(valid, pat[(np.add.outer(np.arange(grid.h), 3 * np.arange(grid.w))) % len(pat)], 0)
            rasters.write_tif(path, grid, a, dtype='uint8', nodata=None, alpha=av, **(kw or {}))
        elif enc == 'mask+tag':
            # an internal mask band *and* a nodata tag (GDAL: the mask band decides; the tag value is just a number)
            a[:, ~valid] = 77.0
            rasters.write_tif(path, grid, a, dtype=dtype, nodata=-9999.0 if np.dtype(dtype).kind == 'f' else 255, mask=valid, **(kw or {}))
        else:
            a[:, ~valid] = enc
            rasters.write_tif(path, grid, a, dtype=dtype, nodata=enc, **(kw or {}))
    return Pair(sp, rp, src_grid, ref_grid, src, ref, sv, rv)


class FuseResult:
    pass


def run_fuse(src_path, ref_path, out_path, model='gain-blk-offset', kernel_shape=(5, 5), proc_crs='auto',
             param=True, threads=1, max_block_mem=100, model_config=None, out_profile=None, src_bands=None,
             ref_bands=None, force=False, build_ovw=False, overwrite=True):
    """run the real RasterFuse; returns FuseResult with corr / param arrays, masks, tags, profile, proc_crs"""
    from homonim import RasterFuse
    from homonim.enums import ProcCrs, Model
    out_path = pathlib.Path(out_path)
    param_path = out_path.parent / (out_path.stem + '_PARAM.tif') if param else None
    block_config = dict(threads=threads, max_block_mem=max_block_mem)
    res = FuseResult()
    with warnings.catch_warnings():
        warnings.simplefilter('ignore')
        with RasterFuse(src_path, ref_path, proc_crs=ProcCrs(proc_crs), src_bands=src_bands, ref_bands=ref_bands,
                        force=force) as rf:
            res.proc_crs = rf.proc_crs.name
            res.src_bands, res.ref_bands = rf.src_bands, rf.ref_bands
            rf.process(out_path, Model(model), tuple(kernel_shape), param_filename=param_path, build_ovw=build_ovw,
                       overwrite=overwrite, model_config=model_config, out_profile=out_profile,
                       block_config=block_config)
    with rio.Env(GDAL_TIFF_INTERNAL_MASK=True, GTIFF_FORCE_RGBA=False):
        with rio.open(out_path) as ds:
            res.corr = ds.read()
            res.corr_mask = ds.dataset_mask().astype(bool)
            res.corr_masks = ds.read_masks().astype(bool)
            res.profile = dict(ds.profile)
            res.tags = ds.tags()
            res.band_tags = [ds.tags(i + 1) for i in range(ds.count)]
            res.descriptions = ds.descriptions
            res.colorinterp = [c.name for c in ds.colorinterp]
        if param_path:
            with rio.open(param_path) as ds:
                res.param = ds.read()
                res.param_masks = ds.read_masks().astype(bool)
                res.param_profile = dict(ds.profile)
                res.param_tags = ds.tags()
                res.param_band_tags = [ds.tags(i + 1) for i in range(ds.count)]
                res.param_descriptions = ds.descriptions
    res.corr_path, res.param_path = out_path, param_path
    res.max_block_mem, res.model_config = max_block_mem, dict(model_config or {})
    return res


def run_fuse_blocks(halvings, src_grid, ref_grid, proc_ref, *args, **kwargs):
    """run_fuse with `halvings` halvings of the processing window; fewer if the blocks would be smaller than the overlap"""
    from homonim.errors import BlockSizeError
    ph, pw = proc_window_shape(src_grid, ref_grid, proc_ref)
    while True:
        mbm = block_mem_for(halvings, ph, pw, src_grid.px, ref_grid.px, proc_ref)
        try:
            return run_fuse(*args, max_block_mem=mbm, **kwargs), halvings
        except BlockSizeError:
            if halvings <= 0:
                raise
            halvings = max(0, halvings - 2)


def block_mem_for(n_halvings, proc_h, proc_w, src_px, ref_px, proc_ref):
    """max_block_mem (MB) that makes _auto_block_shape halve the processing window `n_halvings` times"""
    if n_halvings == 0:
        return 100
    area = lambda p: p[0] * p[1] if isinstance(p, (tuple, list)) else p * p   # a pixel size, or (px, py) for non-square pixels
    src_area, ref_area = area(src_px), area(ref_px)
    if proc_ref:
        mem_scale = src_area / ref_area if ref_area > src_area else 1.
    else:
        mem_scale = 1. if ref_area > src_area else ref_area / src_area
    return (proc_h * proc_w * 4 / 2 ** n_halvings) * 1.0001 / 2 ** 20 / mem_scale


def proc_window_shape(src_grid, ref_grid, proc_ref):
    """(h, w) of the processing window (integer arithmetic replica of RasterPairReader.open, for sizing only)"""
    def expand(P, O, lo, hi):
        po, pp, _ = P
        oo, op, _ = O
        return (po + lo * pp - oo) // op, -((-(po + hi * pp - oo)) // op)
    out = []
    for S, R in ((src_grid.row_axis, ref_grid.row_axis), (src_grid.col_axis, ref_grid.col_axis)):
        lo, hi = expand(S, R, 0, S[2])
        if not proc_ref:
            lo, hi = expand(R, S, lo, hi)
        out.append(hi - lo)
    return tuple(out)


def bytes_equal(a, b):
    """bit identity, NaN-aware (NaN payloads are not compared)"""
    a, b = np.asarray(a), np.asarray(b)
    if a.shape != b.shape or a.dtype != b.dtype:
        return False
    if np.issubdtype(a.dtype, np.floating):
        na, nb = np.isnan(a), np.isnan(b)
        if not np.array_equal(na, nb):
            return False
        return a[~na].tobytes() == b[~nb].tobytes()
    return a.tobytes() == b.tobytes()
