"""
Translator from the *source text* of homonim's arithmetic core to Lean definitions (lean/Homonim/GeneratedCode.lean).

The hand-written model says what the code is believed to compute; this translator re-derives, on every run and from the
Python AST of the functions in /repo as they are now, the closed-form expressions the code actually evaluates:

  kernel_model.py  _fit_gain, _fit_gain_offset (gain, offset, in-paint test, re-estimated gain), _r2_array (both branches),
                   _fit_gain_blk_offset (normalisation, parameter incorporation), _fit_block_norm, apply
  compare.py       get_band_stats (means, Pearson numerator / the two radicands, RMSE radicand, rRMSE)
  stats.py         _get_image_stats (mean, variance radicand, in-paint percentage)
  raster_pair.py   block_pairs (row / column ranges, block corners, in / out windows), _auto_block_shape (memory scale)
  utils.py         overlap_for_kernel, expand_window_to_grid, round_bounds_to_grid, covers_bounds (final predicate)
  fuse.py          parameter band indexes of _process_block

It is a small symbolic executor over straight-line numeric code: assignments are substituted forward into an environment of
Lean expression strings; `cv.boxFilter(X, -1, kernel_shape[::-1], ...)` becomes the window-sum symbol of X; `np.divide(a, b,
out=t, where=m)` assigns a / b to t.  Anything it does not recognise is a TranslationError - reported by the check as a
broken tie, never guessed.  The theorems `Homonim.Src.* = model` (in Props/C01, C05, C06, C11, C12, C14, C16) are then
re-checked by `lake build` against what the source says now.
"""
import ast
import inspect
import pathlib
import textwrap

import common


class TranslationError(Exception):
    pass


def src_of(obj):
    return ast.parse(textwrap.dedent(inspect.getsource(obj)))


def fn_body(tree, name=None):
    for node in ast.walk(tree):
        if isinstance(node, ast.FunctionDef) and (name is None or node.name == name):
            return node
    raise TranslationError(f'function {name} not found')


def U(node):
    return ast.unparse(node)


class Tr:
    """expression translator: Python AST -> Lean term (string) under an environment {python source text -> Lean term}"""

    def __init__(self, env, typ='Rat'):
        self.env, self.typ = dict(env), typ

    def __call__(self, node):
        key = U(node)
        if key in self.env:
            return self.env[key]
        if isinstance(node, ast.Constant) and isinstance(node.value, (int, float)) and not isinstance(node.value, bool):
            v = node.value
            if isinstance(v, float):
                if not v.is_integer():
                    raise TranslationError(f'non-integer constant {v}')
                v = int(v)
            return f'({v} : {self.typ})'
        if isinstance(node, ast.BinOp):
            if isinstance(node.op, ast.Pow):
                if not (isinstance(node.right, ast.Constant) and isinstance(node.right.value, int) and node.right.value >= 0):
                    raise TranslationError(f'power with non-constant exponent: {key}')
                return f'({self(node.left)} ^ {node.right.value})'
            ops = {ast.Add: '+', ast.Sub: '-', ast.Mult: '*', ast.Div: '/', ast.BitAnd: '&&'}
            for t, o in ops.items():
                if isinstance(node.op, t):
                    return f'({self(node.left)} {o} {self(node.right)})'
            raise TranslationError(f'operator in {key}')
        if isinstance(node, ast.UnaryOp):
            if isinstance(node.op, ast.USub):
                return f'(-{self(node.operand)})'
            if isinstance(node.op, (ast.Invert, ast.Not)):
                return f'(!{self(node.operand)})'
        if isinstance(node, ast.Compare) and len(node.ops) == 1:
            a, b = self(node.left), self(node.comparators[0])
            op = node.ops[0]
            if isinstance(op, ast.Gt):
                return f'(decide ({b} < {a}))'
            if isinstance(op, ast.Lt):
                return f'(decide ({a} < {b}))'
            if isinstance(op, ast.GtE):
                return f'(decide ({b} ≤ {a}))'
            if isinstance(op, ast.LtE):
                return f'(decide ({a} ≤ {b}))'
            raise TranslationError(f'comparison in {key}')
        if isinstance(node, ast.Call):
            f = U(node.func)
            if f == 'np.sqrt' and len(node.args) == 1:
                return f'(sqrt {self(node.args[0])})'
            if f == 'np.fmax' and len(node.args) == 2:
                return f'(max {self(node.args[0])} {self(node.args[1])})'
            if f == 'np.maximum' and len(node.args) == 2:
                return f'(max {self(node.args[0])} {self(node.args[1])})'
            if f == 'np.fmin' and len(node.args) == 2:
                return f'(min {self(node.args[0])} {self(node.args[1])})'
            if f == 'np.clip' and len(node.args) == 3:
                return f'(min (max {self(node.args[0])} {self(node.args[1])}) {self(node.args[2])})'
            if f == 'max' and len(node.args) == 2:
                return f'(max {self(node.args[0])} {self(node.args[1])})'
            if f == 'int' and len(node.args) == 1:
                return self(node.args[0])
            if f == 'np.prod' and U(node.args[0]) == 'param_array[:2]':
                return f"({self.env['param_array[0]']} * {self.env['param_array[1]']})"
        raise TranslationError(f'cannot translate `{key}`')


def assigns(fn):
    """(target text, value node, statement) for every simple assignment in `fn`, in source order (nested blocks included)"""
    out = []
    for node in ast.walk(fn):
        if isinstance(node, ast.Assign) and len(node.targets) == 1:
            out.append((U(node.targets[0]), node.value, node))
        if isinstance(node, ast.AugAssign):
            out.append((U(node.target) + ' ' + type(node.op).__name__ + '=', node.value, node))
    out.sort(key=lambda t: (t[2].lineno, t[2].col_offset))
    return out


def the_assign(fn, target, nth=0):
    hits = [v for t, v, _ in assigns(fn) if t == target]
    if len(hits) <= nth:
        raise TranslationError(f'assignment to `{target}` (#{nth}) not found in {fn.name}')
    return hits[nth]


def calls(fn, fname):
    out = [n for n in ast.walk(fn) if isinstance(n, ast.Call) and U(n.func) == fname]
    out.sort(key=lambda n: (n.lineno, n.col_offset))
    return out


def kw(call, name):
    for k in call.keywords:
        if k.arg == name:
            return k.value
    raise TranslationError(f'keyword {name} missing in `{U(call)}`')


# ---------------------------------------------------------------------------------------------------------------------
BOX = {('cv.boxFilter', 'src_array'): 'S', ('cv.boxFilter', 'ref_array'): 'R', ('cv.boxFilter', 'src_array * ref_array'): 'SR',
       ('cv.sqrBoxFilter', 'src_array'): 'SS', ('cv.sqrBoxFilter', 'ref_array'): 'RR'}
SUMNAME = {'src_sum': 'S', 'ref_sum': 'R', 'src_ref_sum': 'SR', 'src2_sum': 'SS', 'ref2_sum': 'RR', 'mask_sum': 'N'}
KSYM = '(S R SS RR SR N : Rat)'


def box_symbol(call):
    """the window-sum symbol of a cv.boxFilter / cv.sqrBoxFilter call; checks depth -1, the kernel argument, and the options"""
    f = U(call.func)
    if len(call.args) != 3 or U(call.args[1]) != '-1' or U(call.args[2]) != 'kernel_shape[::-1]':
        raise TranslationError(f'box filter with unexpected arguments: `{U(call)}`')
    if [k.arg for k in call.keywords] != [None] or U(call.keywords[0].value) != 'filter_args':
        raise TranslationError(f'box filter without **filter_args: `{U(call)}`')
    arg = U(call.args[0])
    if f == 'cv.boxFilter' and arg.startswith('mask.astype('):
        # the count of valid pixels must be summed in the working float type (a byte would saturate at 255)
        if arg.replace(' ', '') not in ('mask.astype(RasterArray.default_dtype)', 'mask.astype(RasterArray.default_dtype,copy=False)'):
            raise TranslationError(f'the valid-pixel count is summed over `{arg}`')
        return 'N'
    if (f, arg) in BOX:
        return BOX[(f, arg)]
    raise TranslationError(f'box filter over an unexpected array: `{U(call)}`')


def check_box_sums(fn):
    """every `name = cv.*boxFilter(...)` in fn computes the sum its name says; filter_args is the zero-border, un-normalised one"""
    fa = the_assign(fn, 'filter_args')
    if U(fa).replace(' ', '') != 'dict(normalize=False,borderType=cv.BORDER_CONSTANT)':
        raise TranslationError(f'filter_args = `{U(fa)}`')
    seen = {}
    for t, v, _ in assigns(fn):
        if isinstance(v, ast.Call) and U(v.func) in ('cv.boxFilter', 'cv.sqrBoxFilter'):
            sym = box_symbol(v)
            if SUMNAME.get(t) != sym:
                raise TranslationError(f'`{t}` is assigned the window sum {sym}: `{U(v)}`')
            seen[t] = sym
    return seen


def _k_fit_gain():
    from homonim.kernel_model import KernelModel
    env0 = dict(SUMNAME)
    out = []
    # ---- _fit_gain
    fn = fn_body(src_of(KernelModel._fit_gain))
    seen = check_box_sums(fn)
    if set(seen) != {'src_sum', 'ref_sum'}:
        raise TranslationError(f'_fit_gain computes the sums {sorted(seen)}')
    if U(the_assign(fn, 'mask')) != 'ref_ra.mask & src_ra.mask':
        raise TranslationError('_fit_gain joint mask')
    d = calls(fn, 'np.divide')
    if len(d) != 1 or U(kw(d[0], 'out')) != 'param_ra.array[0]' or U(kw(d[0], 'where')) != 'mask':
        raise TranslationError('_fit_gain: expected one np.divide into param_ra.array[0] where=mask')
    tr = Tr(env0)
    out.append(('fitGain_gain', KSYM, 'Rat', f'{tr(d[0].args[0])} / {tr(d[0].args[1])}', '_fit_gain: ' + U(d[0])))
    if U(the_assign(fn, 'param_ra.array[1, mask]')) != '0':
        raise TranslationError('_fit_gain offsets')
    r2c = calls(fn, 'self._r2_array')
    if len(r2c) != 1 or U(r2c[0].args[2]) != 'param_ra.array[:1]' or any(
            U(k.value) != k.arg for k in r2c[0].keywords if k.arg in SUMNAME or k.arg in ('mask', 'kernel_shape')):
        raise TranslationError('_fit_gain: call of _r2_array')
    return out


def _k_fit_gain_offset():
    from homonim.kernel_model import KernelModel
    env0 = dict(SUMNAME)
    out = []
    # ---- _fit_gain_offset
    fn = fn_body(src_of(KernelModel._fit_gain_offset))
    seen = check_box_sums(fn)
    if set(seen) != set(SUMNAME) - {'ref2_sum'}:
        raise TranslationError(f'_fit_gain_offset computes the sums {sorted(seen)}')
    if U(the_assign(fn, 'mask')) != 'ref_ra.mask & src_ra.mask':
        raise TranslationError('_fit_gain_offset joint mask')
    env = dict(env0)
    tr = Tr(env)
    env['m_num_array'] = tr(the_assign(fn, 'm_num_array'))
    env['m_den_array'] = tr(the_assign(fn, 'm_den_array'))
    d = calls(fn, 'np.divide')
    if len(d) != 3 or [U(kw(c, 'out')) for c in d] != ['param_ra.array[0]', 'param_ra.array[1]', 'param_ra.array[0]'] or \
            [U(kw(c, 'where')) for c in d] != ['mask', 'mask', 'r2_mask']:
        raise TranslationError('_fit_gain_offset: expected three np.divide calls (gain, offset, re-estimated gain)')
    tr = Tr(env)
    out.append(('fitGainOffset_gainNum', KSYM, 'Rat', tr(d[0].args[0]), '_fit_gain_offset: m_num_array'))
    out.append(('fitGainOffset_gainDen', KSYM, 'Rat', tr(d[0].args[1]), '_fit_gain_offset: m_den_array'))
    env['param_ra.array[0]'] = 'g'
    tr = Tr(env)
    out.append(('fitGainOffset_offset', KSYM + ' (g : Rat)', 'Rat', f'{tr(d[1].args[0])} / {tr(d[1].args[1])}',
                '_fit_gain_offset: ' + U(d[1])))
    r2c = calls(fn, 'self._r2_array')
    if len(r2c) != 1 or U(r2c[0].args[2]) != 'param_ra.array[:2]' or any(
            U(k.value) != k.arg for k in r2c[0].keywords if k.arg in SUMNAME or k.arg in ('mask', 'kernel_shape')) or \
            not ({k.arg for k in r2c[0].keywords} >= set(SUMNAME) - {'ref2_sum'}):
        raise TranslationError('_fit_gain_offset: call of _r2_array')
    env.update({'param_ra.array[2]': 'r2', 'self._r2_inpaint_thresh': 't', 'mask': 'true'})
    tr = Tr(env)
    out.append(('fitGainOffset_keep', '(g r2 t : Rat)', 'Bool', tr(the_assign(fn, 'r2_mask', 0)),
                '_fit_gain_offset: r2_mask = ' + U(the_assign(fn, 'r2_mask', 0))))
    if U(the_assign(fn, 'r2_mask', 1)) != '~r2_mask & mask':
        raise TranslationError('_fit_gain_offset: complement mask')
    fill = the_assign(fn, 'param_ra.array[1]')
    if U(fill) != 'fillnodata(param_ra.array[1], r2_mask)':
        raise TranslationError('_fit_gain_offset: fillnodata call')
    env['param_ra.array[1]'] = 'oF'
    tr = Tr(env)
    out.append(('fitGainOffset_regain', KSYM + ' (oF : Rat)', 'Rat', f'{tr(d[2].args[0])} / {tr(d[2].args[1])}',
                '_fit_gain_offset: ' + U(d[2])))
    return out


def _k_r2():
    from homonim.kernel_model import KernelModel
    env0 = dict(SUMNAME)
    out = []
    # ---- _r2_array
    fn = fn_body(src_of(KernelModel._r2_array))
    for t, v, _ in assigns(fn):
        if isinstance(v, ast.Call) and U(v.func) in ('cv.boxFilter', 'cv.sqrBoxFilter'):
            if SUMNAME.get(t) != box_symbol(v):
                raise TranslationError(f'_r2_array: `{t}` = `{U(v)}`')
    env = dict(env0)
    env.update({'param_array[0]': 'g', 'param_array[1]': 'o'})
    tr = Tr(env)
    tot = tr(the_assign(fn, 'ss_tot_array'))
    res2 = tr(the_assign(fn, 'ss_res_array', 0))
    res1 = tr(the_assign(fn, 'ss_res_array', 1))
    branch = [n for n in ast.walk(fn) if isinstance(n, ast.If) and U(n.test) == 'param_array.shape[0] > 1']
    if len(branch) != 1:
        raise TranslationError('_r2_array: branch on the number of parameters')
    mul = the_assign(fn, 'ss_res_array Mult=')
    d, sb = calls(fn, 'np.divide'), calls(fn, 'np.subtract')
    if len(d) != 1 or len(sb) != 1 or U(d[0].args[0]) != 'ss_res_array' or U(d[0].args[1]) != 'ss_tot_array' or \
            U(kw(d[0], 'out')) != 'dest_array' or U(sb[0].args[0]) != '1' or U(sb[0].args[1]) != 'dest_array' or \
            U(kw(sb[0], 'out')) != 'dest_array':
        raise TranslationError('_r2_array: final 1 - RSS/TSS')
    m = tr(mul)
    out.append(('r2_tot', KSYM, 'Rat', tot, '_r2_array: ss_tot_array'))
    out.append(('r2_res1', KSYM + ' (g : Rat)', 'Rat', f'({res1} * {m})', '_r2_array: one-parameter ss_res_array * mask_sum'))
    out.append(('r2_res2', KSYM + ' (g o : Rat)', 'Rat', f'({res2} * {m})', '_r2_array: two-parameter ss_res_array * mask_sum'))
    return out


def _k_blk():
    from homonim.kernel_model import KernelModel
    env0 = dict(SUMNAME)
    out = []
    # ---- _fit_gain_blk_offset / _fit_block_norm / apply
    fn = fn_body(src_of(KernelModel._fit_gain_blk_offset))
    env = {'src_ra.array': 'x', 'norm_model[0]': 'n0', 'norm_model[1]': 'n1', 'param_ra.array[0]': 'g'}
    tr = Tr(env)
    out.append(('blk_normalise', '(x n0 n1 : Rat)', 'Rat', tr(the_assign(fn, 'src_ra.array')), '_fit_gain_blk_offset: src_ra.array ='))
    out.append(('blk_offset', '(g n0 n1 : Rat)', 'Rat', tr(the_assign(fn, 'param_ra.array[1]')), '_fit_gain_blk_offset: param_ra.array[1] ='))
    out.append(('blk_gain', '(g n0 n1 : Rat)', 'Rat', f"(g * {tr(the_assign(fn, 'param_ra.array[0] Mult='))})",
                '_fit_gain_blk_offset: param_ra.array[0] *='))
    order = [t for t, _, _ in assigns(fn) if t in ('src_ra.nodata', 'src_ra.array', 'param_ra', 'param_ra.array[1]',
                                                    'param_ra.array[0] Mult=')]
    if order != ['src_ra.nodata', 'src_ra.array', 'param_ra', 'param_ra.array[1]', 'param_ra.array[0] Mult=']:
        raise TranslationError(f'_fit_gain_blk_offset: statement order {order}')
    if U(the_assign(fn, 'param_ra')) != 'self._fit_gain(src_ra, ref_ra, kernel_shape=kernel_shape)':
        raise TranslationError('_fit_gain_blk_offset: inner fit')
    fn = fn_body(src_of(KernelModel._fit_block_norm))
    env = {'np.std(ref_ra.array[mask])': 'stdR', 'np.std(src_ra.array[mask])': 'stdS',
           'np.percentile(ref_ra.array[mask], 1)': 'pR', 'np.percentile(src_ra.array[mask], 1)': 'pS'}
    tr = Tr(env)
    n0 = tr(the_assign(fn, 'norm_model[0]'))
    env['norm_model[0]'] = 'n0'
    out.append(('blockNorm_gain', '(stdS stdR pS pR : Rat)', 'Rat', n0, '_fit_block_norm: norm_model[0]'))
    out.append(('blockNorm_offset', '(stdS stdR pS pR n0 : Rat)', 'Rat', Tr(env)(the_assign(fn, 'norm_model[1]')),
                '_fit_block_norm: norm_model[1]'))
    if U(the_assign(fn, 'mask')) != 'ref_ra.mask & src_ra.mask':
        raise TranslationError('_fit_block_norm joint mask')
    fn = fn_body(src_of(KernelModel.apply))
    tr = Tr({'param_ra.array[0]': 'g', 'param_ra.array[1]': 'o', 'src_ra.array': 'x'})
    out.append(("applyParams", '(g o x : Rat)', 'Rat', tr(the_assign(fn, 'corr_array')), 'apply: corr_array ='))
    return out


def _s_cmp():
    from homonim.compare import RasterCompare
    from homonim.stats import ParamStats
    out = []
    fn = fn_body(src_of(RasterCompare._get_image_stats), 'get_band_stats')
    env = {'src_sum': 'S', 'ref_sum': 'R', 'src2_sum': 'SS', 'ref2_sum': 'RR', 'src_ref_sum': 'SR', 'res2_sum': 'D2', 'mask_sum': 'N'}
    sym = '(S R SS RR SR D2 N : Rat)'
    tr = Tr(env)
    env['src_mean'] = tr(the_assign(fn, 'src_mean'))
    env['ref_mean'] = Tr(env)(the_assign(fn, 'ref_mean'))
    tr = Tr(env)
    out.append(('cmp_srcMean', sym, 'Rat', env['src_mean'], 'get_band_stats: src_mean'))
    out.append(('cmp_refMean', sym, 'Rat', env['ref_mean'], 'get_band_stats: ref_mean'))
    out.append(('cmp_pccNum', sym, 'Rat', tr(the_assign(fn, 'pcc_num')), 'get_band_stats: pcc_num'))
    den = the_assign(fn, 'pcc_den')
    if not (isinstance(den, ast.BinOp) and isinstance(den.op, ast.Mult) and all(
            isinstance(s, ast.Call) and U(s.func) == 'np.sqrt' for s in (den.left, den.right))):
        raise TranslationError('get_band_stats: pcc_den is not a product of two square roots')
    out.append(('cmp_pccDenSrc', sym, 'Rat', tr(den.left.args[0]), 'get_band_stats: first radicand of pcc_den'))
    out.append(('cmp_pccDenRef', sym, 'Rat', tr(den.right.args[0]), 'get_band_stats: second radicand of pcc_den'))
    if U(the_assign(fn, 'pcc')) != 'pcc_num / pcc_den':
        raise TranslationError('get_band_stats: pcc')
    rm = the_assign(fn, 'rmse')
    if not (isinstance(rm, ast.Call) and U(rm.func) == 'np.sqrt'):
        raise TranslationError('get_band_stats: rmse is not a square root')
    out.append(('cmp_rmse2', sym, 'Rat', tr(rm.args[0]), 'get_band_stats: radicand of rmse'))
    env['rmse'] = 'rmse'
    out.append(('cmp_rrmse', sym + ' (rmse : Rat)', 'Rat', Tr(env)(the_assign(fn, 'rrmse')), 'get_band_stats: rrmse'))
    ret = [n for n in ast.walk(fn) if isinstance(n, ast.Return)][0]
    if U(ret.value).replace(' ', '') != 'dict(r2=pcc**2,rmse=rmse,rrmse=rrmse,n=int(mask_sum))':
        raise TranslationError(f'get_band_stats returns `{U(ret.value)}`')
    return out


def _s_cmp_mean():
    from homonim.compare import RasterCompare
    from homonim.stats import ParamStats
    out = []
    # the Mean row: division by the number of compared bands
    fn2 = fn_body(src_of(RasterCompare._get_image_stats), '_get_image_stats')
    ms = U(the_assign(fn2, 'mean_stats')).replace(' ', '')
    if ms != '{k:int(v/len(image_sums))ifisinstance(v,int)elsev/len(image_sums)fork,vinsum_over_bands.items()}':
        raise TranslationError(f'_get_image_stats: mean_stats = `{ms}`')
    if U(the_assign(fn2, 'sum_over_bands', 1)).replace(' ', '') != '{k:sum_over_bands.get(k,0)+vfork,vinband_stats.items()}':
        raise TranslationError('_get_image_stats: accumulation over bands')
    out.append(('cmp_meanRow', '(total nbands : Rat)', 'Rat', '(total / nbands)', '_get_image_stats: v / len(image_sums)'))
    # float `+`: a nan term makes the sum nan (the model's addO: undefined absorbs); the dictionary starts empty, `.get(k, 0)` = 0
    out.append(('cmp_meanAcc', '(acc v : Option Rat)', 'Option Rat', '(addO acc v)', '_get_image_stats: sum_over_bands.get(k, 0) + v (float addition: nan absorbs)'))
    if U(the_assign(fn2, 'sum_over_bands', 0)) != '{}':
        raise TranslationError('_get_image_stats: sum_over_bands does not start empty')
    out.append(('cmp_meanStart', '', 'Option Rat', '(some 0)', '_get_image_stats: sum_over_bands.get(k, 0) of an empty dictionary'))
    return out


def _s_stats():
    from homonim.compare import RasterCompare
    from homonim.stats import ParamStats
    out = []
    # stats.py
    fn = fn_body(src_of(ParamStats._get_image_stats))
    d = [n for n in ast.walk(fn) if isinstance(n, ast.Call) and U(n.func) == 'dict'][0]
    env = {"band_accum['sum']": 's1', "band_accum['sum2']": 's2', "band_accum['n']": 'n', "band_accum['inpaint_sum']": 'k'}
    tr = Tr(env)
    sym = '(s1 s2 n k : Rat)'
    out.append(('stats_mean', sym, 'Rat', tr(kw(d, 'mean')), 'ParamStats._get_image_stats: mean'))
    std = kw(d, 'std')
    if not (isinstance(std, ast.Call) and U(std.func) == 'np.sqrt'):
        raise TranslationError('ParamStats: std is not a square root')
    out.append(('stats_var', sym, 'Rat', tr(std.args[0]), 'ParamStats._get_image_stats: radicand of std'))
    if U(kw(d, 'min')) != "band_accum['min']" or U(kw(d, 'max')) != "band_accum['max']":
        raise TranslationError('ParamStats: min / max')
    out.append(('stats_inpaintP', sym, 'Rat', tr(the_assign(fn, "band_stats['inpaint_p']")), 'ParamStats: inpaint_p'))
    return out


def _g_blocks():
    from homonim.raster_pair import RasterPairReader
    from homonim import utils
    from homonim.fuse import RasterFuse
    out = []
    fn = fn_body(src_of(RasterPairReader.block_pairs))
    for axis, k in (('Row', 0), ('Col', 1)):
        fields = ('row_off', 'height') if k == 0 else ('col_off', 'width')
        env = {f'proc_win.{fields[0]}': 'A', f'proc_win.{fields[1]}': 'L', f'overlap[{k}]': 'v', f'block_shape[{k}]': 's'}
        rng = the_assign(fn, 'ul_row_range' if k == 0 else 'ul_col_range')
        if not (isinstance(rng, ast.Call) and U(rng.func) == 'range' and len(rng.args) == 3):
            raise TranslationError('block_pairs: range of block corners')
        tr = Tr(env, 'Int')
        for nm, a in zip(('Start', 'Stop', 'Step'), rng.args):
            out.append((f'blocks_range{axis}{nm}', '(A L s v : Int)', 'Int', tr(a), f'block_pairs: ul_{axis.lower()}_range {nm.lower()}'))
    loop = [n for n in ast.walk(fn) if isinstance(n, ast.For) and U(n.target) == '(ul_row, ul_col)']
    if len(loop) != 1 or U(loop[0].iter) != 'product(ul_row_range, ul_col_range)':
        raise TranslationError('block_pairs: loop over block corners')
    if U(the_assign(fn, 'ul')) != 'np.array((ul_row, ul_col))':
        raise TranslationError('block_pairs: ul')
    if U(the_assign(fn, 'proc_win_ul')) != 'np.array((proc_win.row_off, proc_win.col_off))' or \
            U(the_assign(fn, 'proc_win_br')) != 'np.array((proc_win.height + proc_win.row_off, proc_win.width + proc_win.col_off))':
        raise TranslationError('block_pairs: processing window corners')
    env = {'ul': 'ul', 'block_shape': 's', 'overlap': 'v', 'proc_win_ul': 'A', 'proc_win_br': 'B'}
    env['br'] = Tr(env, 'Int')(the_assign(fn, 'br'))
    tr = Tr(env, 'Int')
    sym = '(ul s v A B : Int)'
    for nm in ('in_ul', 'in_br', 'out_ul', 'out_br'):
        out.append(('blocks_' + nm.replace('_', '').replace('ul', 'Ul').replace('br', 'Br'), sym, 'Int', tr(the_assign(fn, nm)),
                    f'block_pairs: {nm}'))
    pin, pout = U(the_assign(fn, 'proc_in_block')), U(the_assign(fn, 'proc_out_block'))
    if pin != 'Window(*in_ul[::-1], *np.subtract(in_br, in_ul)[::-1])' or pout != 'Window(*out_ul[::-1], *np.subtract(out_br, out_ul)[::-1])':
        raise TranslationError('block_pairs: proc windows')
    if U(the_assign(fn, 'other_in_block')) != 'utils.expand_window_to_grid(other_im.window(*proc_im.window_bounds(proc_in_block)))' or \
            U(the_assign(fn, 'other_out_block')) != 'utils.round_bounds_to_grid(other_im, *proc_im.window_bounds(proc_out_block))':
        raise TranslationError('block_pairs: other-grid windows')
    bps = [U(v) for t, v, _ in assigns(fn) if t == 'block_pair']
    if bps != ['BlockPair(band_i, other_in_block, proc_in_block, other_out_block, proc_out_block, outer)',
               'BlockPair(band_i, proc_in_block, other_in_block, proc_out_block, other_out_block, outer)']:
        raise TranslationError(f'block_pairs: BlockPair construction {bps}')
    return out


def _g_resolve():
    from homonim.raster_pair import RasterPairReader
    from homonim import utils
    from homonim.fuse import RasterFuse
    out = []
    # _resolve_proc_crs: auto -> the coarser image (the reference when equal); an explicit choice is returned unchanged
    fn = fn_body(src_of(RasterPairReader._resolve_proc_crs))
    if U(the_assign(fn, 'src_pixel_smaller')) != 'np.prod(np.abs(src_im.res)) <= np.prod(np.abs(ref_im.res))':
        raise TranslationError(f"_resolve_proc_crs: src_pixel_smaller = `{U(the_assign(fn, 'src_pixel_smaller'))}`")
    pcs = [U(v) for t, v, _ in assigns(fn) if t == 'proc_crs']
    iff = [n for n in ast.walk(fn) if isinstance(n, ast.If)]
    rets = [U(n.value) for n in ast.walk(fn) if isinstance(n, ast.Return)]
    if pcs != ['ProcCrs.ref if src_pixel_smaller else ProcCrs.src'] or U(iff[0].test) != 'proc_crs == ProcCrs.auto' or rets != ['proc_crs']:
        raise TranslationError(f'_resolve_proc_crs: resolution logic {pcs} {rets}')
    out.append(('resolveAutoIsRef', '(sa ra : Int)', 'Bool', '(decide (sa ≤ ra))', '_resolve_proc_crs: src_pixel_smaller (areas |res_x res_y|)'))
    return out


def _g_auto():
    from homonim.raster_pair import RasterPairReader
    from homonim import utils
    from homonim.fuse import RasterFuse
    out = []
    # _auto_block_shape: memory scale per processing grid
    fn = fn_body(src_of(RasterPairReader._auto_block_shape))
    ms = [U(v).replace(' ', '') for t, v, _ in assigns(fn) if t == 'mem_scale']
    if ms != ['src_pix_area/ref_pix_areaifref_pix_area>src_pix_areaelse1.0', '1.0ifref_pix_area>src_pix_areaelseref_pix_area/src_pix_area']:
        raise TranslationError(f'_auto_block_shape: mem_scale {ms}')
    out.append(('autoBlock_memScaleRef', '(sa ra : Rat)', 'Rat', '(if sa < ra then sa / ra else 1)', '_auto_block_shape: mem_scale (proc_crs ref)'))
    out.append(('autoBlock_memScaleSrc', '(sa ra : Rat)', 'Rat', '(if sa < ra then 1 else ra / sa)', '_auto_block_shape: mem_scale (proc_crs src)'))
    wh = [n for n in ast.walk(fn) if isinstance(n, ast.While)]
    if len(wh) != 1 or U(wh[0].test) != 'np.prod(block_shape) * dtype_size > max_block_mem' or \
            [U(s) for s in wh[0].body] != ['div_dim = np.argmax(block_shape)', 'block_shape[div_dim] /= 2']:
        raise TranslationError('_auto_block_shape: halving loop')
    if U(the_assign(fn, 'block_shape', 1)) != "np.ceil(block_shape).astype('int')":
        raise TranslationError('_auto_block_shape: final ceil')
    return out


def _g_overlap():
    from homonim.raster_pair import RasterPairReader
    from homonim import utils
    from homonim.fuse import RasterFuse
    out = []
    # utils.overlap_for_kernel
    fn = fn_body(src_of(utils.overlap_for_kernel))
    ret = [n for n in ast.walk(fn) if isinstance(n, ast.Return)][0]
    if U(ret.value) != "tuple(np.ceil(kernel_shape / 2).astype('int'))" or U(the_assign(fn, 'kernel_shape')) != 'np.array(kernel_shape).astype(int)':
        raise TranslationError(f'overlap_for_kernel returns `{U(ret.value)}`')
    out.append(('overlapForKernel', '(k : Int)', 'Int', '(-((-k) / 2))', 'overlap_for_kernel: ceil(kernel_shape / 2), per axis'))
    return out


def _g_expand():
    from homonim.raster_pair import RasterPairReader
    from homonim import utils
    from homonim.fuse import RasterFuse
    out = []
    # utils.expand_window_to_grid, per axis: offset x, size w, expansion e (rational window coordinates)
    fn = fn_body(src_of(utils.expand_window_to_grid))
    want = {'(col_off, col_frac)': 'np.divmod(win.col_off - expand_pixels[1], 1)', '(row_off, row_frac)': 'np.divmod(win.row_off - expand_pixels[0], 1)',
            'width': 'np.ceil(win.width + 2 * expand_pixels[1] + col_frac)', 'height': 'np.ceil(win.height + 2 * expand_pixels[0] + row_frac)',
            'exp_win': "Window(col_off.astype('int'), row_off.astype('int'), width.astype('int'), height.astype('int'))"}
    for t, v in want.items():
        if U(the_assign(fn, t)) != v:
            raise TranslationError(f'expand_window_to_grid: `{t}` = `{U(the_assign(fn, t))}`')
    out.append(('expandWindow_off', '(x w e : Rat)', 'Int', '(x - e).floor', 'expand_window_to_grid: divmod(off - e, 1)[0]'))
    out.append(('expandWindow_size', '(x w e : Rat)', 'Int', '(w + 2 * e + ((x - e) - ((x - e).floor : Rat))).ceil',
                'expand_window_to_grid: ceil(size + 2 e + frac)'))
    return out


def _g_round():
    from homonim.raster_pair import RasterPairReader
    from homonim import utils
    from homonim.fuse import RasterFuse
    out = []
    # utils.round_bounds_to_grid, per axis: the two corners are rounded independently
    fn = fn_body(src_of(utils.round_bounds_to_grid))
    want = {'(cols, rows)': '~im.transform * (np.array([left, right]), np.array([top, bottom]))',
            'col_range': "np.round(cols).astype('int')", 'row_range': "np.round(rows).astype('int')"}
    for t, v in want.items():
        if U(the_assign(fn, t)) != v:
            raise TranslationError(f'round_bounds_to_grid: `{t}` = `{U(the_assign(fn, t))}`')
    ret = [n for n in ast.walk(fn) if isinstance(n, ast.Return)][0]
    if U(ret.value).replace(' ', '') != ('Window(col_off=col_range[0],row_off=row_range[0],width=max(col_range[1]-col_range[0],0),'
                                          'height=max(row_range[1]-row_range[0],0))'):
        raise TranslationError(f'round_bounds_to_grid returns `{U(ret.value)}`')
    out.append(('roundBounds_size', '(r0 r1 : Int)', 'Int', '(max (r1 - r0) 0)', 'round_bounds_to_grid: max(range[1] - range[0], 0)'))
    return out


def _g_covers():
    from homonim.raster_pair import RasterPairReader
    from homonim import utils
    from homonim.fuse import RasterFuse
    out = []
    # utils.covers_bounds, per axis: window offset x and size w of im2 in im1 (n pixels), tolerance tol
    fn = fn_body(src_of(utils.covers_bounds))
    if U(the_assign(fn, 'win_ul')) != 'np.array((im1_win.row_off, im1_win.col_off))' or \
            U(the_assign(fn, 'win_br')) != 'win_ul + np.array((im1_win.height, im1_win.width))':
        raise TranslationError('covers_bounds: corners')
    ret = [n for n in ast.walk(fn) if isinstance(n, ast.Return)][-1]
    if U(ret.value).replace(' ', '') != 'Falseifnp.any(win_ul<-1e-06)ornp.any(win_br>np.array(im1.shape)+1e-06)elseTrue':
        raise TranslationError(f'covers_bounds returns `{U(ret.value)}`')
    out.append(('covers_axis', '(x w n tol : Rat)', 'Bool', '(!(decide (x < -tol) || decide (n + tol < x + w)))',
                'covers_bounds: not (win_ul < -tol or win_br > shape + tol), per axis'))
    return out


def _g_pindex():
    from homonim.raster_pair import RasterPairReader
    from homonim import utils
    from homonim.fuse import RasterFuse
    out = []
    # fuse._process_block: parameter band indexes
    fn = fn_body(src_of(RasterFuse._process_block))
    ix = U(the_assign(fn, 'indexes'))
    if ix != 'np.arange(param_ra.count) * len(self.src_bands) + block_pair.band_i + 1':
        raise TranslationError(f'_process_block: indexes = `{ix}`')
    out.append(('paramIndex', '(n i k : Nat)', 'Nat', '(k * n + i + 1)', '_process_block: np.arange(count) * len(src_bands) + band_i + 1'))


    return out


def _s_cmp_block():
    """compare.py get_block_sums: what one jointly valid pixel (x = source, y = reference) adds to each of the seven sums"""
    from homonim.compare import RasterCompare
    fn = fn_body(src_of(RasterCompare.process), 'get_block_sums')
    want = [('src_array', 'src_ra.array'), ('ref_array', 'ref_ra.array'), ('mask', 'ref_ra.mask & src_ra.mask'),
            ('src_array[~mask]', '0'), ('ref_array[~mask]', '0')]
    got = [(t, U(v)) for t, v, _ in assigns(fn) if t in dict(want)]
    if got != want:
        raise TranslationError(f'get_block_sums: masking statements {got}')
    d = the_assign(fn, 'sums_dict')
    if not (isinstance(d, ast.Call) and U(d.func) == 'dict'):
        raise TranslationError('get_block_sums: sums_dict')
    tr = Tr({'src_array': 'x', 'ref_array': 'y'})
    out = []
    names = {'src_sum': 'src', 'ref_sum': 'ref', 'src2_sum': 'src2', 'ref2_sum': 'ref2', 'src_ref_sum': 'srcRef', 'res2_sum': 'res2'}
    if [k.arg for k in d.keywords] != list(names) + ['mask_sum']:
        raise TranslationError(f'get_block_sums: keys {[k.arg for k in d.keywords]}')
    for k in d.keywords[:-1]:
        v = k.value
        if not (isinstance(v, ast.Call) and isinstance(v.func, ast.Attribute) and v.func.attr == 'sum' and not v.args):
            raise TranslationError(f'get_block_sums: `{U(v)}` is not a plain sum')
        out.append((f'cmpPx_{names[k.arg]}', '(x y : Rat)', 'Rat', tr(v.func.value), f'get_block_sums: {k.arg} = {U(v)}'))
    if U(d.keywords[-1].value) != 'mask.sum()':
        raise TranslationError('get_block_sums: mask_sum')
    out.append(('cmpPx_n', '(x y : Rat)', 'Rat', '(1 : Rat)', 'get_block_sums: mask_sum = mask.sum()'))
    return out


def _m_cover():
    """kernel_model.py _full_coverage_mask: coverage threshold, combination with the parameter mask, erosion element"""
    from homonim.kernel_model import KernelModel
    fn = fn_body(src_of(KernelModel._full_coverage_mask))
    want = {'mask_ra': 'in_mask_ra.reproject(**param_ra.proj_profile, nodata=None, resampling=Resampling.average)',
            'mask': "(mask_ra.array >= 1).astype('uint8', copy=False)",
            'se': 'cv.getStructuringElement(cv.MORPH_RECT, tuple(np.array(self._kernel_shape[::-1]) + 2))',
            'mask_ra.array': 'cv.erode(mask, se, borderType=cv.BORDER_CONSTANT, borderValue=0)'}
    for t, v in want.items():
        if U(the_assign(fn, t)) != v:
            raise TranslationError(f'_full_coverage_mask: `{t}` = `{U(the_assign(fn, t))}`')
    if U(the_assign(fn, 'mask BitAnd=')) != 'param_ra.mask':
        raise TranslationError('_full_coverage_mask: combination with the parameter mask')
    return [('cover_full', '(a : Rat)', 'Bool', '(decide ((1 : Rat) ≤ a))', '_full_coverage_mask: mask_ra.array >= 1 (average of the 0/1 mask)'),
            ('cover_erodeSize', '(k : Nat)', 'Nat', '(k + 2)', '_full_coverage_mask: structuring element kernel_shape + 2, false border')]


def _a_bounded():
    """raster_array.py bounded_window_slices, per axis: window [lo, hi) on a dataset axis of n pixels"""
    from homonim.raster_array import RasterArray
    fn = fn_body(src_of(RasterArray.bounded_window_slices))
    if U(the_assign(fn, 'win_ul')) != 'np.array((window.row_off, window.col_off))' or \
            U(the_assign(fn, 'win_br')) != 'win_ul + np.array((window.height, window.width))':
        raise TranslationError('bounded_window_slices: window corners')
    env = {'win_ul': 'lo', 'win_br': 'hi', '(0, 0)': '(0 : Int)', 'rio_dataset.shape': 'n'}
    tr = Tr(env, 'Int')
    env['bounded_ul'] = tr(the_assign(fn, 'bounded_ul'))
    tr = Tr(env, 'Int')
    env['bounded_br'] = tr(the_assign(fn, 'bounded_br'))
    tr = Tr(env, 'Int')
    env['bounded_start'] = tr(the_assign(fn, 'bounded_start'))
    tr = Tr(env, 'Int')
    stop = tr(the_assign(fn, 'bounded_stop'))
    bw = U(the_assign(fn, 'bounded_window')).replace(' ', '').replace('\n', '')
    if bw != 'Window(col_off=bounded_ul[1],row_off=bounded_ul[0],width=bounded_br[1]-bounded_ul[1],height=bounded_br[0]-bounded_ul[0])':
        raise TranslationError(f'bounded_window_slices: bounded_window = `{bw}`')
    sl = U(the_assign(fn, 'bounded_slices')).replace(' ', '')
    if sl != '(slice(bounded_start[0],bounded_stop[0],None),slice(bounded_start[1],bounded_stop[1],None))':
        raise TranslationError(f'bounded_window_slices: bounded_slices = `{sl}`')
    sym = '(n lo hi : Int)'
    return [('bounded_ul', sym, 'Int', env['bounded_ul'], 'bounded_window_slices: bounded_ul'),
            ('bounded_br', sym, 'Int', env['bounded_br'], 'bounded_window_slices: bounded_br'),
            ('bounded_start', sym, 'Int', env['bounded_start'], 'bounded_window_slices: bounded_start'),
            ('bounded_stop', sym, 'Int', stop, 'bounded_window_slices: bounded_stop')]


def _p_r2band():
    """stats.py: which bands of a parameter image are R2 bands (in-paint percentage is reported for them)"""
    from homonim.stats import ParamStats
    fn = fn_body(src_of(ParamStats.stats), 'get_block_sums')
    tests = [U(n.test).replace(' ', '') for n in ast.walk(fn) if isinstance(n, ast.If)]
    if tests != ['self._model==Model.gain_offsetandself._r2_inpaint_threshisnotNoneand(band_i>=self._param_im.count*2/3)']:
        raise TranslationError(f'ParamStats.get_block_sums: R2 band test {tests}')
    upd = [U(n) for n in ast.walk(fn) if isinstance(n, ast.Call) and U(n.func) == '_block_dict.update']
    if upd != ['_block_dict.update(inpaint_sum=(array < self._r2_inpaint_thresh).sum())']:
        raise TranslationError(f'ParamStats.get_block_sums: in-paint count {upd}')
    return [('stats_isR2Band', '(count b : Nat)', 'Bool', '(decide (((count : Rat) * 2) / 3 ≤ (b : Rat)))',
             'ParamStats: band_i >= count * 2 / 3'),
            ('stats_inpainted', '(v t : Rat)', 'Bool', '(decide (v < t))', 'ParamStats: array < r2_inpaint_thresh')]


def _f_prog():
    """fuse.py _process_block + raster_pair.py read: the per-block program of lock and dataset operations, in order"""
    from homonim.fuse import RasterFuse
    from homonim.raster_pair import RasterPairReader
    LOCKS = {'self._src_lock': 'S', 'self._ref_lock': 'R', 'self._corr_lock': 'C', 'self._param_lock': 'P'}
    DATASETS = {'self._src_im': 'S', 'self._ref_im': 'R', 'corr_im': 'C', 'param_im': 'P'}
    read_fn = fn_body(src_of(RasterPairReader.read))
    blk_fn = fn_body(src_of(RasterFuse._process_block))

    def calls_in(node):
        cs = [n for n in ast.walk(node) if isinstance(n, ast.Call)]
        cs.sort(key=lambda n: (n.lineno, n.col_offset))
        return cs

    def emit(stmts, out, param_out):
        for st in stmts:
            if isinstance(st, ast.Expr) and isinstance(st.value, ast.Constant):
                continue  # docstring
            if isinstance(st, ast.With):
                if len(st.items) != 1 or U(st.items[0].context_expr) not in LOCKS:
                    raise TranslationError(f'unexpected `with {U(st.items[0].context_expr)}`')
                lk = LOCKS[U(st.items[0].context_expr)]
                out.append(f'.acq .{lk}')
                emit(st.body, out, param_out)
                out.append(f'.rel .{lk}')
                continue
            if isinstance(st, ast.If):
                if U(st.test) != 'param_im' or st.orelse:
                    raise TranslationError(f'unexpected branch `if {U(st.test)}`')
                emit(st.body, param_out, param_out)
                continue
            if isinstance(st, ast.Return):
                continue
            for c in calls_in(st):
                f = U(c.func)
                if f == 'self.read':
                    emit(read_fn.body, out, param_out)
                elif f in ('model.fit', 'model.apply'):
                    out.append('.compute')
                elif f.endswith('from_rio_dataset') or f.endswith('to_rio_dataset'):
                    ds = U(c.args[0])
                    if ds not in DATASETS:
                        raise TranslationError(f'dataset access through `{ds}`')
                    out.append(f'.io .{DATASETS[ds]}')
                elif f in ('self._assert_open', 'np.arange', 'len'):
                    pass
                else:
                    raise TranslationError(f'unexpected call `{U(c)}` in the block program')

    base, par = [], []
    emit(blk_fn.body, base, par)
    return [('progBase', '', 'List Instr', '[' + ', '.join(base) + ']', '_process_block (with read inlined): lock / dataset / compute steps'),
            ('progParam', '', 'List Instr', '[' + ', '.join(par) + ']', '_process_block: the steps under `if param_im:`')]


def _f_outfiles():
    """fuse.py _out_files: the order of the existence checks and the `rio.open(..., 'w')` calls"""
    from homonim.fuse import RasterFuse
    import inspect as _i
    fn = fn_body(ast.parse(textwrap.dedent(_i.getsource(RasterFuse._out_files.__wrapped__ if hasattr(RasterFuse._out_files, '__wrapped__')
                                                       else RasterFuse._out_files))))
    ev = []
    for st in fn.body:
        if isinstance(st, ast.Expr) and isinstance(st.value, ast.Constant):
            continue
        if isinstance(st, ast.Assign):
            t, v = U(st.targets[0]), U(st.value)
            if t == 'corr_filename' and v == 'Path(corr_filename)':
                continue
            if t == 'param_filename' and v == 'Path(param_filename) if param_filename else None':
                continue
            if t == 'out_im' and v.startswith("rio.open(corr_filename, 'w', "):
                ev.append('.openCorr')
                continue
            if t == 'param_im' and v.startswith("rio.open(param_filename, 'w', ") and v.endswith('if param_filename else None'):
                ev.append('.openParam')
                continue
            raise TranslationError(f'_out_files: unexpected assignment `{t} = {v}`')
        if isinstance(st, ast.If):
            test = U(st.test)
            raises = len(st.body) == 1 and isinstance(st.body[0], ast.Raise) and U(st.body[0].exc).startswith('FileExistsError(')
            if test == 'not overwrite and corr_filename.exists()' and raises and not st.orelse:
                ev.append('.checkCorr')
                continue
            if test == 'not overwrite and param_filename and param_filename.exists()' and raises and not st.orelse:
                ev.append('.checkParam')
                continue
            raise TranslationError(f'_out_files: unexpected test `{test}`')
        if isinstance(st, ast.Try):
            if not (len(st.body) == 1 and U(st.body[0]) == 'yield (out_im, param_im)') or not st.finalbody:
                raise TranslationError('_out_files: the `try: yield ... finally:` block')
            # the one handler allowed: after a failed block no overviews are built (finding D42) - and the exception is re-raised
            hs = [(U(h.type) if h.type else None, [U(x) for x in h.body]) for h in st.handlers]
            if hs not in ([], [('BaseException', ['build_ovw = False', 'raise'])]):
                raise TranslationError(f'_out_files: exception handlers {hs} (a failure must be re-raised)')
            fin = [U(x) for x in st.finalbody]
            want = ['self._set_corr_metadata(out_im, **kwargs)', 'if build_ovw:\n    self._build_overviews(out_im)', 'out_im.close()',
                    'if param_im:\n    self._set_param_metadata(param_im, **kwargs)\n    if build_ovw:\n        self._build_overviews(param_im)\n    param_im.close()']
            if fin != want:
                raise TranslationError(f'_out_files: finalisation {fin}')
            continue
        raise TranslationError(f'_out_files: unexpected statement `{U(st)[:60]}`')
    return [('outFilesEvents', '', 'List FsEvent', '[' + ', '.join(ev) + ']', '_out_files: existence checks and opens, in source order')]


def bool_expr(node, atoms):
    """a Python boolean expression over named atoms (source text -> Lean Bool variable)"""
    key = U(node)
    if key in atoms:
        return atoms[key]
    if isinstance(node, ast.BoolOp):
        op = ' || ' if isinstance(node.op, ast.Or) else ' && '
        return '(' + op.join(bool_expr(v, atoms) for v in node.values) + ')'
    if isinstance(node, ast.UnaryOp) and isinstance(node.op, ast.Not):
        return f'(!{bool_expr(node.operand, atoms)})'
    raise TranslationError(f'cannot translate the condition `{key}`')


def _c_invoke():
    """cli.py FuseCommand.invoke: when a configuration-file value replaces a parameter; default creation options"""
    from homonim import cli
    fn = fn_body(src_of(cli.FuseCommand.invoke))
    loops = [n for n in ast.walk(fn) if isinstance(n, ast.For)]
    if len(loops) != 1 or U(loops[0].target) != '(conf_key, conf_value)' or U(loops[0].iter) != 'config_dict.items()':
        raise TranslationError('FuseCommand.invoke: loop over the configuration file')
    body = loops[0].body
    if len(body) != 1 or not isinstance(body[0], ast.If) or U(body[0].test) != 'conf_key not in ctx.params' or \
            not (len(body[0].body) == 1 and isinstance(body[0].body[0], ast.Raise) and U(body[0].body[0].exc).startswith('click.BadParameter(')):
        raise TranslationError('FuseCommand.invoke: unknown keys must raise click.BadParameter')
    els = body[0].orelse
    if len(els) != 2 or U(els[0]) != 'param_src = ctx.get_parameter_source(conf_key)' or not isinstance(els[1], ast.If):
        raise TranslationError('FuseCommand.invoke: merge branch')
    cond = bool_expr(els[1].test, {'ctx.params[conf_key] is None': 'valIsNone', 'param_src == ParameterSource.DEFAULT': 'srcIsDefault'})
    if [U(x) for x in els[1].body] != ['ctx.params[conf_key] = conf_value', 'ctx.set_parameter_source(conf_key, ParameterSource.COMMANDLINE)'] \
            or els[1].orelse:
        raise TranslationError('FuseCommand.invoke: what a merged key becomes')
    ifs = [n for n in fn.body if isinstance(n, ast.If)]
    co = ifs[-1]
    cocond = bool_expr(co.test, {"ctx.get_parameter_source('driver') == ParameterSource.DEFAULT": 'driverIsDefault',
                                 "ctx.get_parameter_source('creation_options') == ParameterSource.DEFAULT": 'coIsDefault'})
    if [U(x) for x in co.body] != ["ctx.params['creation_options'] = RasterFuse.create_out_profile()['creation_options']"]:
        raise TranslationError('FuseCommand.invoke: default creation options')
    fn2 = fn_body(src_of(cli._update_existing_keys))
    ret = [n for n in ast.walk(fn2) if isinstance(n, ast.Return)][0]
    if U(ret.value) != '{k: kwargs.get(k, v) for k, v in default_dict.items()}':
        raise TranslationError(f'_update_existing_keys returns `{U(ret.value)}`')
    return [('cli_mergeCond', '(valIsNone srcIsDefault : Bool)', 'Bool', cond, 'FuseCommand.invoke: ' + U(els[1].test)),
            ('cli_defaultCoCond', '(driverIsDefault coIsDefault : Bool)', 'Bool', cocond, 'FuseCommand.invoke: ' + U(co.test).replace('\n', ' '))]


def _f_process():
    """fuse.py process: the block fan-out (submit every block, await every future in completion order, re-raise)"""
    from homonim.fuse import RasterFuse
    fn = fn_body(src_of(RasterFuse.process))
    withs = [n for n in ast.walk(fn) if isinstance(n, ast.With) and U(n.items[0].context_expr).startswith('self._out_files(')]
    if len(withs) != 1 or len(withs[0].body) != 1 or not isinstance(withs[0].body[0], ast.If):
        raise TranslationError('process: body of `with self._out_files(...)`')
    br = withs[0].body[0]
    if U(br.test) != "block_config['threads'] == 1":
        raise TranslationError(f'process: branch `{U(br.test)}`')
    seq = [U(x) for x in br.body]
    if seq != ['block_pairs = [block_pair for block_pair in self.block_pairs(**block_pair_args)]',
               'for block_pair in tqdm(block_pairs, bar_format=bar_format):\n    self._process_block(block_pair, model, corr_im=out_im, param_im=param_im)']:
        raise TranslationError(f'process: single-thread branch {seq}')
    ops = ['.sequentialWhenOneThread']
    if len(br.orelse) != 1 or not isinstance(br.orelse[0], ast.With) or \
            U(br.orelse[0].items[0].context_expr) != "futures.ThreadPoolExecutor(max_workers=block_config['threads'])":
        raise TranslationError('process: thread pool')
    body = br.orelse[0].body
    if len(body) != 2:
        raise TranslationError(f'process: thread-pool body has {len(body)} statements')
    sub = U(body[0]).replace('\n', ' ').replace('  ', ' ')
    if ' '.join(sub.split()) != ('proc_futures = [executor.submit(self._process_block, block_pair, model, out_im, param_im) '
                                 'for block_pair in self.block_pairs(**block_pair_args)]'):
        raise TranslationError(f'process: submission `{sub}`')
    ops.append('.submitEvery')
    loop = body[1]
    if not (isinstance(loop, ast.For) and U(loop.target) == 'future' and 'futures.as_completed(proc_futures)' in U(loop.iter)):
        raise TranslationError('process: loop over completed futures')
    ops.append('.awaitEveryCompleted')
    if [U(x) for x in loop.body] != ['future.result()'] or loop.orelse:
        raise TranslationError(f'process: body of the completion loop {[U(x) for x in loop.body]}')
    ops.append('.reraise')
    return [('fanOut', '', 'List FanOp', '[' + ', '.join(ops) + ']', 'RasterFuse.process: the block fan-out')]


def _k_resampling():
    """kernel_model.py / compare.py _get_resampling: down-sampling method iff the pixel AREA does not shrink"""
    from homonim.kernel_model import KernelModel
    from homonim.compare import RasterCompare
    fn = fn_body(src_of(KernelModel._get_resampling))
    ret = [U(n.value) for n in ast.walk(fn) if isinstance(n, ast.Return)]
    if ret != ['self._downsampling if np.prod(np.abs(from_res)) <= np.prod(np.abs(to_res)) else self._upsampling']:
        raise TranslationError(f'KernelModel._get_resampling returns {ret}')
    fn = fn_body(src_of(RasterCompare._get_resampling))
    ret = [U(n.value) for n in ast.walk(fn) if isinstance(n, ast.Return)]
    if ret != ["config['downsampling'] if np.prod(np.abs(from_res)) <= np.prod(np.abs(to_res)) else config['upsampling']"]:
        raise TranslationError(f'RasterCompare._get_resampling returns {ret}')
    return [('resamplingIsDown', '(fromArea toArea : Rat)', 'Bool', '(decide (fromArea ≤ toArea))',
             '_get_resampling (fuse and compare): down-sampling method iff prod|from_res| <= prod|to_res|')]


def _a_convert():
    """raster_array.py _convert_array_dtype: the order of the steps and the conditions under which each is skipped"""
    from homonim.raster_array import RasterArray
    fn = fn_body(src_of(RasterArray._convert_array_dtype))
    body = [st for st in fn.body if not (isinstance(st, ast.Expr) and isinstance(st.value, ast.Constant))]
    texts = [U(st) for st in body]
    want = [
        "if nodata is not None and (not rio.dtypes.can_cast_dtype(nodata, dtype)):\n    raise ValueError(f\"'nodata' value: {nodata} cannot be safely cast to '{dtype}'\")",
        "unsafe_cast = not np.can_cast(self.dtype, dtype, casting='safe')",
        'nodata_change = nodata is not None and (self.nodata is None or not utils.nan_equals(nodata, self.nodata))',
        'array = self._array',
        'if nodata_change or unsafe_cast:\n    array = array.astype(np.promote_types(self.dtype, dtype), copy=True)',
        'if unsafe_cast and np.issubdtype(self.dtype, np.floating) and np.issubdtype(dtype, np.integer):\n    np.round(array, out=array)',
    ]
    for k, w in enumerate(want):
        if texts[k] != w:
            raise TranslationError(f'_convert_array_dtype: statement {k} reads `{texts[k][:120]}`')
    clip = body[6]
    if not (isinstance(clip, ast.If) and U(clip.test) == 'unsafe_cast and np.issubdtype(dtype, np.integer)' and len(clip.body) == 3):
        raise TranslationError('_convert_array_dtype: clip block')
    if U(clip.body[0]) != 'src_info = np.iinfo(self.dtype) if np.issubdtype(self.dtype, np.integer) else np.finfo(self.dtype)' or \
            U(clip.body[1]) != 'dst_info = np.iinfo(dtype)':
        raise TranslationError('_convert_array_dtype: type ranges')
    inner = clip.body[2]
    if not (isinstance(inner, ast.If) and [U(x) for x in inner.body] == ['np.clip(array, dst_info.min, dst_info.max, out=array)'] and not inner.orelse):
        raise TranslationError('_convert_array_dtype: clip call')
    cond = bool_expr_cmp(inner.test, {'src_info.min': 'smin', 'src_info.max': 'smax', 'dst_info.min': 'dmin', 'dst_info.max': 'dmax'})
    rest = texts[7:]
    if rest != ["with np.errstate(invalid='ignore', over='ignore'):\n    array = array.astype(dtype, copy=False, casting='unsafe')",
                'if nodata_change or (nodata is not None and unsafe_cast):\n    array[..., ~self.mask] = nodata', 'return array']:
        raise TranslationError(f'_convert_array_dtype: final steps {rest}')
    return [('convert_clipNeeded', '(smin smax dmin dmax : Int)', 'Bool', cond, '_convert_array_dtype: ' + U(inner.test))]


def bool_expr_cmp(node, atoms):
    """boolean combination of integer comparisons over named atoms"""
    if isinstance(node, ast.BoolOp):
        op = ' || ' if isinstance(node.op, ast.Or) else ' && '
        return '(' + op.join(bool_expr_cmp(v, atoms) for v in node.values) + ')'
    if isinstance(node, ast.Compare) and len(node.ops) == 1 and U(node.left) in atoms and U(node.comparators[0]) in atoms:
        a, b = atoms[U(node.left)], atoms[U(node.comparators[0])]
        if isinstance(node.ops[0], ast.Lt):
            return f'(decide ({a} < {b}))'
        if isinstance(node.ops[0], ast.Gt):
            return f'(decide ({b} < {a}))'
    raise TranslationError(f'cannot translate the condition `{U(node)}`')


def _g_orient():
    """utils.py north_up and same_orientation_crs: when an image counts as north-up, and which image is wrapped in a WarpedVRT
    (to north-up in its own CRS; into the other image's CRS)"""
    from homonim import utils
    out = []
    fn = fn_body(src_of(utils.north_up))
    ret = [n for n in ast.walk(fn) if isinstance(n, ast.Return)][-1]
    want = 'np.sign(im.transform.a) == 1 and np.sign(im.transform.e) == -1 and (im.transform.b == 0) and (im.transform.d == 0)'
    if U(ret.value) != want:
        raise TranslationError(f'north_up returns `{U(ret.value)}`')
    out.append(('orient_northUp', '(a b d e : Rat)', 'Bool', '(decide (0 < a) && decide (e < 0) && decide (b = 0) && decide (d = 0))',
                'north_up: ' + want))
    fn = fn_body(src_of(utils.same_orientation_crs))
    if U(the_assign(fn, 'same_crs')) != 'src_im.crs == ref_im.crs':
        raise TranslationError('same_orientation_crs: same_crs')
    ifs = [n for n in fn.body if isinstance(n, ast.If)]
    bodies = ['src_im = WarpedVRT(src_im, crs=src_im.crs, resampling=resampling)', 'ref_im = WarpedVRT(ref_im, crs=ref_im.crs, resampling=resampling)',
              'src_im = WarpedVRT(src_im, crs=ref_im.crs, resampling=resampling)', 'ref_im = WarpedVRT(ref_im, crs=src_im.crs, resampling=resampling)']
    if len(ifs) != 4 or [[U(x) for x in i.body] for i in ifs] != [[b] for b in bodies] or any(i.orelse for i in ifs):
        raise TranslationError(f'same_orientation_crs: the four re-projection steps read {[[U(x) for x in i.body] for i in ifs]}')
    rets = [n for n in fn.body if isinstance(n, ast.Return)]
    if len(rets) != 1 or U(rets[0].value) != '(src_im, ref_im)' or fn.body.index(rets[0]) < fn.body.index(ifs[-1]):
        raise TranslationError('same_orientation_crs: return')
    atoms = {'north_up(src_im)': 'srcNorthUp', 'north_up(ref_im)': 'refNorthUp', 'same_crs': 'sameCrs',
             'proc_crs != ProcCrs.src': '(!procIsSrc)', 'proc_crs == ProcCrs.src': 'procIsSrc'}
    names = [('orient_flipSrc', '(srcNorthUp sameCrs procIsSrc : Bool)'), ('orient_flipRef', '(refNorthUp sameCrs procIsSrc : Bool)'),
             ('orient_srcToRefCrs', '(sameCrs procIsSrc : Bool)'), ('orient_refToSrcCrs', '(sameCrs procIsSrc : Bool)')]
    for (nm, sig), i in zip(names, ifs):
        out.append((nm, sig, 'Bool', bool_expr(i.test, atoms), 'same_orientation_crs: if ' + U(i.test)))
    return out


def _m_naneq():
    """utils.py nan_equals and RasterArray.mask: nodata comparison is exact equality, or both NaN; a pixel is valid iff it does
    not compare equal to the nodata value (all pixels when there is no nodata value)"""
    from homonim import utils
    from homonim.raster_array import RasterArray
    fn = fn_body(src_of(utils.nan_equals))
    ret = [n for n in ast.walk(fn) if isinstance(n, ast.Return)][-1]
    if U(ret.value) != '(a == b) | np.isnan(a) & np.isnan(b)' or not (isinstance(ret.value, ast.BinOp) and isinstance(ret.value.op, ast.BitOr)
                                                                  and isinstance(ret.value.right, ast.BinOp) and isinstance(ret.value.right.op, ast.BitAnd)):
        raise TranslationError(f'nan_equals returns `{U(ret.value)}`')
    out = [('mask_nanEquals', '(eqAB isNanA isNanB : Bool)', 'Bool', '(eqAB || (isNanA && isNanB))', 'nan_equals: (a == b) | (np.isnan(a) & np.isnan(b))')]
    fn = fn_body(src_of(RasterArray.mask.fget))
    outer = [n for n in fn.body if isinstance(n, ast.If)]
    if len(outer) != 1 or U(outer[0].test) != 'self._mask is None' or len(outer[0].body) != 1 or not isinstance(outer[0].body[0], ast.If):
        raise TranslationError('RasterArray.mask: cache test')
    inner = outer[0].body[0]
    if U(inner.test) != 'self._nodata is None' or [U(x) for x in inner.body] != ['self._mask = np.full(self._array.shape[-2:], True)']:
        raise TranslationError('RasterArray.mask: no nodata value means all valid')
    els = [U(x) for x in inner.orelse]
    if els != ['self._mask = ~utils.nan_equals(self._array, self._nodata)', 'if self._array.ndim > 2:\n    self._mask = np.any(self._mask, axis=0)']:
        raise TranslationError(f'RasterArray.mask: {els}')
    out.append(('mask_pixelValid', '(hasNodata eqNodata isNanPx isNanNodata : Bool)', 'Bool',
                '(if hasNodata then !(mask_nanEquals eqNodata isNanPx isNanNodata) else true)',
                'RasterArray.mask: ~nan_equals(array, nodata), all valid without a nodata value'))
    return out


def _f_accumulate():
    """compare.py RasterCompare.process and stats.py ParamStats.stats: the workers only *return* their block's sums; the sums are
    accumulated by the calling thread, one completed future at a time (no shared accumulator is touched by a worker)"""
    from homonim.compare import RasterCompare
    from homonim.stats import ParamStats
    out = []
    for cls, meth, acc, ret_want, unpack in ((RasterCompare, 'process', 'image_sums', '(sums_dict, block_pair)', 'block_sums_dict, block_pair = future.result()'),
                                             (ParamStats, 'stats', 'image_accum', '(_block_dict, band_i)', 'block_dict, band_i = future.result()')):
        fn = fn_body(src_of(getattr(cls, meth)))
        worker = [n for n in fn.body if isinstance(n, ast.FunctionDef) and n.name == 'get_block_sums']
        if len(worker) != 1:
            raise TranslationError(f'{cls.__name__}.{meth}: worker function get_block_sums')
        w = worker[0]
        rets = [n for n in ast.walk(w) if isinstance(n, ast.Return)]
        if len(rets) != 1 or U(rets[0].value) != ret_want:
            raise TranslationError(f'{cls.__name__}.{meth}: the worker returns `{[U(r.value) for r in rets]}`')
        names = {n.id for n in ast.walk(w) if isinstance(n, ast.Name)}
        stores = {n.id for n in ast.walk(w) if isinstance(n, ast.Name) and isinstance(n.ctx, ast.Store)}
        if acc in names or any(isinstance(n, (ast.Global, ast.Nonlocal)) for n in ast.walk(w)):
            raise TranslationError(f'{cls.__name__}.{meth}: the worker touches the accumulator `{acc}` / non-local state')
        # every container the worker writes into (subscript / attribute stores) must be its own local
        for n in ast.walk(w):
            if isinstance(n, (ast.Subscript, ast.Attribute)) and isinstance(n.ctx, ast.Store):
                base = n
                while isinstance(base, (ast.Subscript, ast.Attribute)):
                    base = base.value
                if not (isinstance(base, ast.Name) and base.id in stores):
                    raise TranslationError(f'{cls.__name__}.{meth}: the worker writes into `{U(n)}`, which is not one of its locals')
        pool = [n for n in fn.body if isinstance(n, ast.With) and 'ThreadPoolExecutor' in U(n.items[0].context_expr)]
        if len(pool) != 1:
            raise TranslationError(f'{cls.__name__}.{meth}: thread pool')
        loops = [n for n in pool[0].body if isinstance(n, ast.For)]
        if len(loops) != 1 or 'as_completed(' not in U(loops[0].iter) or U(loops[0].target) != 'future':
            raise TranslationError(f'{cls.__name__}.{meth}: loop over completed futures')
        body = [U(x) for x in loops[0].body]
        if body[0] != unpack:
            raise TranslationError(f'{cls.__name__}.{meth}: the completion loop starts with `{body[0]}`')
        if not all(b.startswith(acc + '[') or b.startswith('if ') for b in body[1:]) or not any(b.startswith(acc + '[') for b in body[1:]):
            raise TranslationError(f'{cls.__name__}.{meth}: the completion loop accumulates by {body[1:]}')
        subs = [n for n in pool[0].body if isinstance(n, ast.Assign) and 'executor.submit(get_block_sums' in U(n.value)]
        if len(subs) != 1:
            raise TranslationError(f'{cls.__name__}.{meth}: submission of the workers')
        # the pool size is the thread count and (compare) the partition is a matter of max_block_mem alone
        want_pool = "max_workers=config['threads']" if cls is RasterCompare else 'max_workers=threads'
        if want_pool not in U(pool[0].items[0].context_expr):
            raise TranslationError(f'{cls.__name__}.{meth}: the pool is created by `{U(pool[0].items[0].context_expr)}`')
        if cls is RasterCompare and "self.block_pairs(max_block_mem=config['max_block_mem'])" not in U(subs[0].value):
            raise TranslationError(f'{cls.__name__}.{meth}: the blocks submitted are `{U(subs[0].value)[:160]}`')
        nm = 'accumulate_compare' if cls is RasterCompare else 'accumulate_stats'
        out.append((nm, '', 'List AccOp', '[.workerReturnsOwnSums, .submitEvery, .awaitEveryCompleted, .accumulateInCaller]',
                    f'{cls.__name__}.{meth}: who adds the block sums up'))
    return out


def _c_loops():
    """cli.py fuse / compare: the per-source loop re-binds none of the command's options (every source of one call is processed
    with the options as given; `compare` unpacks the per-source band selection as its loop target)"""
    import textwrap
    from homonim import cli
    out = []
    for name, lean in (('fuse', 'cli_fuseLoopRebinds'), ('compare', 'cli_compareLoopRebinds')):
        f = fn_body(src_of(getattr(cli, name).callback))
        params = {a.arg for a in f.args.args + f.args.kwonlyargs} | ({f.args.kwarg.arg} if f.args.kwarg else set())
        loops = [n for n in ast.walk(f) if isinstance(n, ast.For) and 'src_file' in U(n.iter)]
        if len(loops) != 1:
            raise TranslationError(f'cli.{name}: loop over the source files')
        lp = loops[0]
        # names bound before the loop (configuration dictionaries) count as options too
        pre = set()
        for st in ast.walk(f):
            if isinstance(st, ast.Assign) and st.lineno < lp.lineno:
                pre |= {n.id for t in st.targets for n in ast.walk(t) if isinstance(n, ast.Name)}
        stores = {n.id for n in ast.walk(lp) if isinstance(n, ast.Name) and isinstance(n.ctx, ast.Store)}
        inplace = sorted(U(n.func.value) for n in ast.walk(lp) if isinstance(n, ast.Call) and isinstance(n.func, ast.Attribute)
                         and n.func.attr in ('update', 'pop', 'clear', 'setdefault', 'append', 'extend')
                         and isinstance(n.func.value, ast.Name) and n.func.value.id in (params | pre))
        rebinds = sorted((stores & (params | pre)) - {'comp_files'}) + inplace
        out.append((lean, '', 'List String', '[' + ', '.join(f'"{x}"' for x in rebinds) + ']',
                    f'cli.{name}: options (parameters, configuration dictionaries) re-bound or updated inside the per-source loop'))
    return out


def _f_profiles():
    """fuse.py _merge_corr_profile / _merge_param_profile / create_out_profile / _set_metadata: the caller's out_profile is only
    read (a fresh dictionary is built from it), the parameter image's float32 / NaN / 3n-band encoding is forced on the merged
    copy, and every configuration value becomes a FUSE_* tag"""
    from homonim.fuse import RasterFuse
    def steps(fn):
        return [U(st) for st in fn.body if not (isinstance(st, ast.Expr) and isinstance(st.value, ast.Constant))]
    got = steps(fn_body(src_of(RasterFuse._merge_param_profile)))
    want = ['if self.proc_crs == ProcCrs.ref:\n    init_profile = self.ref_im.profile\nelse:\n    init_profile = self.src_im.profile',
            'out_profile = self.create_out_profile(**out_profile or {})',
            'param_profile = utils.combine_profiles(init_profile, out_profile)',
            'param_profile.update(dtype=RasterArray.default_dtype, count=len(self.src_bands) * 3, nodata=RasterArray.default_nodata)',
            'return param_profile']
    if got != want:
        raise TranslationError(f'_merge_param_profile: {got}')
    got = steps(fn_body(src_of(RasterFuse._merge_corr_profile)))
    want = ['out_profile = self.create_out_profile(**out_profile or {})', 'corr_profile = utils.combine_profiles(self.src_im.profile, out_profile)',
            "corr_profile['count'] = len(self.src_bands)", 'return corr_profile']
    if got != want:
        raise TranslationError(f'_merge_corr_profile: {got}')
    got = steps(fn_body(src_of(RasterFuse.create_out_profile)))
    if len(got) != 2 or not got[0].startswith('creation_options = creation_options or dict(') or \
            got[1] != 'return dict(driver=driver, dtype=dtype, nodata=nodata, creation_options=creation_options)':
        raise TranslationError(f'create_out_profile: {got}')
    got = steps(fn_body(src_of(RasterFuse._set_metadata)))
    want_meta = "kwargs_meta_dict = {f'FUSE_{k.upper()}': v.name if hasattr(v, 'name') else v for k, v in kwargs.items()}"
    if len(got) != 6 or got[1] != want_meta or \
            got[4] != 'meta_dict = dict(FUSE_SRC_FILE=src_name, FUSE_REF_FILE=ref_name, FUSE_PROC_CRS=self.proc_crs.name, **kwargs_meta_dict)' or \
            got[5] != 'im.update_tags(**meta_dict)':
        raise TranslationError(f'_set_metadata: {got}')
    return [('profile_paramSteps', '', 'List ProfileStep', '[.initFromProcImage, .freshOutProfile, .combineIntoNew, .forceParamEncodingOnMerged]',
             '_merge_param_profile'),
            ('profile_corrSteps', '', 'List ProfileStep', '[.initFromSource, .freshOutProfile, .combineIntoNew, .countFromBands]', '_merge_corr_profile'),
            ('profile_metaTags', '', 'List ProfileStep', '[.everyConfigKeyTagged, .srcRefProcTagged]', '_set_metadata')]


def _c_nodata():
    """cli.py _nodata_cb: which words mean "no nodata value", and that a number is parsed by Python's float (a double: the value
    reaches the API as typed, not rounded to the working data type)"""
    from homonim import cli
    fn = fn_body(src_of(cli._nodata_cb))
    top = [st for st in fn.body if not (isinstance(st, ast.Expr) and isinstance(st.value, ast.Constant))]
    if len(top) != 1 or not isinstance(top[0], ast.If):
        raise TranslationError('_nodata_cb: shape')
    test = top[0].test
    if not (isinstance(test, ast.BoolOp) and isinstance(test.op, ast.Or) and U(test.values[0]) == 'value is None' and
            isinstance(test.values[1], ast.Compare) and U(test.values[1].left) == 'value.lower()' and isinstance(test.values[1].ops[0], ast.In)):
        raise TranslationError(f'_nodata_cb: test `{U(test)}`')
    words = ast.literal_eval(test.values[1].comparators[0])
    if [U(x) for x in top[0].body] != ['return None']:
        raise TranslationError('_nodata_cb: the null words must return None')
    els = top[0].orelse
    if len(els) != 2 or not isinstance(els[0], ast.Try) or U(els[1]) != 'return value':
        raise TranslationError('_nodata_cb: number branch')
    if [U(x) for x in els[0].body] != ['value = float(value.lower())']:
        raise TranslationError(f'_nodata_cb: the number is parsed by `{[U(x) for x in els[0].body]}`')
    h = els[0].handlers
    if len(h) != 1 or len(h[0].body) != 1 or not isinstance(h[0].body[0], ast.Raise) or 'click.BadParameter' not in U(h[0].body[0]):
        raise TranslationError('_nodata_cb: a non-number must raise click.BadParameter')
    return [('cli_nodataNullWords', '', 'List String', '[' + ', '.join(f'"{w}"' for w in words) + ']', "_nodata_cb: value.lower() in [...] -> None"),
            ('cli_nodataParser', '', 'String', '"float"', '_nodata_cb: value = float(value.lower())')]


def _b_match():
    """matched_pair.py _match_pair_bands: relative wavelength distance |s - r| / s (normalised by the SOURCE wavelength), when
    wavelengths are used at all, the greedy step, and the tolerance test"""
    from homonim.matched_pair import MatchedPairReader
    fn = fn_body(src_of(MatchedPairReader._match_pair_bands))
    guard = [n for n in ast.walk(fn) if isinstance(n, ast.If) and 'any(src_wavelengths)' in U(n.test)]
    if len(guard) != 1:
        raise TranslationError('_match_pair_bands: wavelength branch')
    g = guard[0]
    use = bool_expr(g.test, {'any(src_wavelengths)': 'anySrc', 'any(ref_wavelengths)': 'anyRef', 'self._force': 'force'})
    if U(the_assign(g, 'abs_dist')) != 'np.abs(src_wavelengths[:, np.newaxis] - ref_wavelengths[np.newaxis, :])':
        raise TranslationError(f"_match_pair_bands: abs_dist = `{U(the_assign(g, 'abs_dist'))}`")
    if U(the_assign(g, 'rel_dist')) != 'abs_dist / src_wavelengths[:, np.newaxis]':
        raise TranslationError(f"_match_pair_bands: rel_dist = `{U(the_assign(g, 'rel_dist'))}`")
    gm = fn_body(g, 'greedy_match')
    loops = [n for n in gm.body if isinstance(n, ast.While)]
    if len(loops) != 1 or U(loops[0].test) != 'not dist.mask.all()':
        raise TranslationError('greedy_match: loop')
    body = [U(x) for x in loops[0].body]
    want = ['min_dist = dist.min(axis=1)', 'min_dist_row_idx = np.ma.argmin(min_dist)', 'min_dist_row = dist[min_dist_row_idx, :]',
            'match_idx[min_dist_row_idx] = np.ma.argmin(min_dist_row)', 'match_dist[min_dist_row_idx] = min_dist[min_dist_row_idx]',
            'dist[:, int(match_idx[min_dist_row_idx])] = np.ma.masked', 'dist[min_dist_row_idx, :] = np.ma.masked']
    if body != want:
        raise TranslationError(f'greedy_match: step {body}')
    if U(the_assign(g, '(match_dist, match_idx)')) != 'greedy_match(rel_dist)':
        raise TranslationError('_match_pair_bands: the matcher runs on rel_dist')
    tests = [n for n in g.body if isinstance(n, ast.If)]
    if not tests or U(tests[0].test) != 'any(match_dist > MatchedPairReader._max_rel_wavelength_diff)' or \
            not any(isinstance(x, ast.Raise) and U(x.exc).startswith('ValueError(') for x in tests[0].body):
        raise TranslationError('_match_pair_bands: tolerance test')
    return [('match_useWavelengths', '(anySrc anyRef force : Bool)', 'Bool', use, '_match_pair_bands: ' + U(g.test)),
            ('match_relDist', '(s r : Rat)', 'Rat', '((if s - r < 0 then r - s else s - r) / s)', '_match_pair_bands: |src - ref| / src'),
            ('match_tooFar', '(d tol : Rat)', 'Bool', '(decide (tol < d))', '_match_pair_bands: match_dist > _max_rel_wavelength_diff'),
            ('match_greedySteps', '', 'List GreedyStep',
             '[.rowMinima, .rowOfSmallestMinimum, .nearestColumnOfThatRow, .record, .maskColumn, .maskRow]', 'greedy_match: one step of the loop')]


def _f_locks():
    """where the locks are created: the four file locks by the constructors of RasterPairReader / RasterFuse (by the constructing
    thread, once per object), the read locks of ParamStats by the calling thread before any worker is started - never by a worker"""
    from homonim.fuse import RasterFuse
    from homonim.raster_pair import RasterPairReader
    from homonim.stats import ParamStats
    out = []
    def top_level_locks(fn):
        return [U(st.targets[0]) for st in fn.body if isinstance(st, ast.Assign) and U(st.value) == 'threading.Lock()']
    def any_locks(fn):
        return [n for n in ast.walk(fn) if isinstance(n, ast.Call) and U(n) == 'threading.Lock()']
    got = top_level_locks(fn_body(src_of(RasterFuse.__init__)))
    if got != ['self._corr_lock', 'self._param_lock']:
        raise TranslationError(f'RasterFuse.__init__ creates the locks {got}')
    got = top_level_locks(fn_body(src_of(RasterPairReader.__init__)))
    if got != ['self._src_lock', 'self._ref_lock']:
        raise TranslationError(f'RasterPairReader.__init__ creates the locks {got}')
    sites = ['.fuseCorrInInit', '.fuseParamInInit', '.pairSrcInInit', '.pairRefInInit']
    for meth, site in (('_get_data_window', '.statsWindowBeforeWorkers'), ('stats', '.statsSumsBeforeWorkers')):
        fn = fn_body(src_of(getattr(ParamStats, meth)))
        if top_level_locks(fn) != ['read_lock'] or len(any_locks(fn)) != 1:
            raise TranslationError(f'ParamStats.{meth}: the read lock must be created once, by the caller, before the workers start')
        sites.append(site)
    # no other lock creation anywhere in the classes that process blocks
    for cls, allowed in ((RasterFuse, 2), (RasterPairReader, 2)):
        n = sum(len(any_locks(f)) for f in ast.walk(src_of(cls)) if isinstance(f, ast.FunctionDef))
        if n != allowed:
            raise TranslationError(f'{cls.__name__}: {n} lock creations, expected {allowed} (in __init__ only)')
    out.append(('locks_created', '', 'List LockSite', '[' + ', '.join(sites) + ']', 'where threading.Lock() is called'))
    return out


def _a_write():
    """raster_array.py to_rio_dataset: crop the window, return if empty, slice the block, check, convert, write data, write the
    mask OF THE CROPPED BLOCK when the dataset has no nodata value and band 1 is among the bands written"""
    from homonim.raster_array import RasterArray
    fn = fn_body(src_of(RasterArray.to_rio_dataset))
    texts = [U(st) for st in fn.body if not (isinstance(st, ast.Expr) and isinstance(st.value, ast.Constant))]
    tail = texts[texts.index('if window is None:\n    window = utils.round_window_to_grid(rio_dataset.window(*self.bounds))'):]
    want = ['if window is None:\n    window = utils.round_window_to_grid(rio_dataset.window(*self.bounds))',
            'window, _ = self.bounded_window_slices(rio_dataset, window)',
            'if window.width <= 0 or window.height <= 0:\n    return',
            'bounded_ra = self.slice_to_bounds(*rio_dataset.window_bounds(window))']
    for k, w in enumerate(want):
        if tail[k] != w:
            raise TranslationError(f'to_rio_dataset: statement reads `{tail[k][:120]}`, expected `{w}`')
    if not tail[4].startswith('if np.any(bounded_ra.shape != np.array((window.height, window.width))):\n    raise ValueError('):
        raise TranslationError('to_rio_dataset: shape check')
    rest = tail[5:]
    if rest != ['array = bounded_ra._convert_array_dtype(rio_dataset.dtypes[0], nodata=rio_dataset.nodata)',
                'rio_dataset.write(array, window=window, indexes=indexes, **kwargs)',
                'if rio_dataset.nodata is None and 1 in np.array(indexes):\n    rio_dataset.write_mask(bounded_ra.mask, window=window)']:
        raise TranslationError(f'to_rio_dataset: conversion / write steps {rest}')
    return [('writeSteps', '', 'List WriteStep',
             '[.cropToDataset, .emptyIsNoop, .sliceBlockToWindow, .shapeMustMatch, .convertDtype, .writeData, .writeCroppedMaskIfNoNodataBand1]',
             'to_rio_dataset: the steps after the argument checks, in order')]


def _a_read():
    """raster_array.py from_rio_dataset: masked datasets and datasets without nodata get the internal nodata value; the array is
    pre-filled with nodata; pixels hidden by the dataset mask are overwritten with nodata"""
    from homonim.raster_array import RasterArray
    fn = fn_body(src_of(RasterArray.from_rio_dataset))
    checks = {
        'is_masked': 'any([MaskFlags.per_dataset in rio_dataset.mask_flag_enums[bi - 1] for bi in index_list])',
        'nodata': 'cls.default_nodata if is_masked or rio_dataset.nodata is None else rio_dataset.nodata',
        '(bounded_window, bounded_slices)': 'cls.bounded_window_slices(rio_dataset, window)',
        'bounded_mask': "rio_dataset.dataset_mask(window=bounded_window).astype('bool', copy=False)",
    }
    for t, v in checks.items():
        if U(the_assign(fn, t)) != v:
            raise TranslationError(f'from_rio_dataset: `{t}` = `{U(the_assign(fn, t))}`')
    fills = [U(v) for t, v, _ in assigns(fn) if t == 'array']
    if fills != ['np.full((len(index_list), window.height, window.width), fill_value=nodata, dtype=cls.default_dtype)',
                 'np.full((window.height, window.width), fill_value=nodata, dtype=cls.default_dtype)']:
        raise TranslationError(f'from_rio_dataset: nodata pre-fill {fills}')
    masked = [U(v) for t, v, _ in assigns(fn) if t in ('bounded_array[~bounded_mask]', 'bounded_array[:, ~bounded_mask]')]
    if masked != ['nodata', 'nodata']:
        raise TranslationError('from_rio_dataset: masked pixels')
    ret = [U(n.value) for n in ast.walk(fn) if isinstance(n, ast.Return)]
    if ret != ['cls(array, rio_dataset.crs, rio_dataset.transform, nodata=nodata, window=window)']:
        raise TranslationError(f'from_rio_dataset returns {ret}')
    return [('read_usesInternalNodata', '(isMasked hasNodata : Bool)', 'Bool', '(isMasked || !hasNodata)',
             'from_rio_dataset: nodata = default_nodata if is_masked or rio_dataset.nodata is None else rio_dataset.nodata')]


def _stmts(fn):
    """top-level statements of a function without its docstring"""
    return [st for st in fn.body if not (isinstance(st, ast.Expr) and isinstance(st.value, ast.Constant))]


def _raises(stmts, exc):
    return len(stmts) == 1 and isinstance(stmts[0], ast.Raise) and U(stmts[0].exc).startswith(exc + '(')


def _u_kernel():
    """utils.py validate_kernel_shape: odd in both dimensions, at least 2 elements for gain-offset (a warning below 25), at least
    one in both dimensions; the shape is returned unchanged"""
    import re
    from homonim import utils
    fn = fn_body(src_of(utils.validate_kernel_shape))
    st = _stmts(fn)
    if len(st) != 5 or U(st[0]) != 'kernel_shape = np.array(kernel_shape).astype(int)' or U(st[4]) != 'return tuple(kernel_shape)':
        raise TranslationError(f'validate_kernel_shape: shape {[U(x)[:60] for x in st]}')
    m = re.fullmatch(r'not np\.all\(np\.mod\(kernel_shape, (\d+)\) == (\d+)\)', U(st[1].test)) if isinstance(st[1], ast.If) else None
    if not m or not _raises(st[1].body, 'ValueError') or st[1].orelse:
        raise TranslationError(f'validate_kernel_shape: parity test `{U(st[1])[:100]}`')
    mod, rem = m.groups()
    if not isinstance(st[2], ast.If) or U(st[2].test) != 'model == Model.gain_offset' or len(st[2].body) != 1 or st[2].orelse:
        raise TranslationError('validate_kernel_shape: gain-offset branch')
    inner = st[2].body[0]
    m2 = re.fullmatch(r'np\.prod\(kernel_shape\) < (\d+)', U(inner.test)) if isinstance(inner, ast.If) else None
    if not m2 or not _raises(inner.body, 'ValueError') or len(inner.orelse) != 1 or not isinstance(inner.orelse[0], ast.If):
        raise TranslationError('validate_kernel_shape: gain-offset area test')
    m3 = re.fullmatch(r'np\.prod\(kernel_shape\) < (\d+)', U(inner.orelse[0].test))
    w = inner.orelse[0].body
    if not m3 or len(w) != 1 or not U(w[0]).startswith('warnings.warn(') or inner.orelse[0].orelse:
        raise TranslationError('validate_kernel_shape: small-kernel warning')
    m4 = re.fullmatch(r'not np\.all\(kernel_shape >= (\d+)\)', U(st[3].test)) if isinstance(st[3], ast.If) else None
    if not m4 or not _raises(st[3].body, 'ValueError') or st[3].orelse:
        raise TranslationError(f'validate_kernel_shape: minimum test `{U(st[3])[:100]}`')
    amin, awarn, kmin = m2.group(1), m3.group(1), m4.group(1)
    acc = (f'(decide (kh % {mod} = {rem}) && decide (kw % {mod} = {rem}) && !(gainOffset && decide (kh * kw < {amin})) && '
           f'decide ({kmin} ≤ kh) && decide ({kmin} ≤ kw))')
    warn = f'(gainOffset && !(decide (kh * kw < {amin})) && decide (kh * kw < {awarn}))'
    return [('kernel_accepts', '(kh kw : Int) (gainOffset : Bool)', 'Bool', acc, 'validate_kernel_shape: no ValueError is raised'),
            ('kernel_warns', '(kh kw : Int) (gainOffset : Bool)', 'Bool', warn, 'validate_kernel_shape: the ConfigWarning branch')]


def _u_threads():
    """utils.py validate_threads: 0 means every processor, more than the processors is refused, anything else is kept; the CLI
    callback and create_block_config both go through it"""
    from homonim import cli, utils
    from homonim.fuse import RasterFuse
    st = [U(x) for x in _stmts(fn_body(src_of(utils.validate_threads)))]
    want = ['_cpu_count = cpu_count()', 'threads = _cpu_count if threads == 0 else threads']
    if st[:2] != want or len(st) != 4 or st[3] != 'return threads' or \
            not st[2].startswith('if threads > _cpu_count:\n    raise ValueError('):
        raise TranslationError(f'validate_threads: {st}')
    cb = _stmts(fn_body(src_of(cli._threads_cb)))
    if len(cb) != 2 or not isinstance(cb[0], ast.Try) or [U(x) for x in cb[0].body] != ['threads = utils.validate_threads(value)'] or \
            U(cb[1]) != 'return threads' or len(cb[0].handlers) != 1 or not _raises(cb[0].handlers[0].body, 'click.BadParameter'):
        raise TranslationError('_threads_cb: shape')
    ret = [U(n.value) for n in ast.walk(fn_body(src_of(RasterFuse.create_block_config))) if isinstance(n, ast.Return)]
    if ret != ['dict(threads=utils.validate_threads(threads), max_block_mem=max_block_mem)']:
        raise TranslationError(f'create_block_config returns {ret}')
    return [('threads_resolve', '(threads cpu : Int)', 'Option Int',
             '(let t := if threads = 0 then cpu else threads; if cpu < t then none else some t)',
             'validate_threads: cpu_count if threads == 0 else threads; ValueError if above cpu_count'),
            ('threads_users', '', 'List String', '["_threads_cb", "create_block_config"]', 'who validates the thread count through validate_threads')]


def _u_param_image():
    """utils.py validate_param_image: band count a non-zero multiple of three, the four FUSE_* tags present, and band descriptions
    ending (case-insensitively) in gain x n, offset x n, r2 x n"""
    from homonim import utils
    fn = fn_body(src_of(utils.validate_param_image))
    ifs = [n for n in ast.walk(fn) if isinstance(n, ast.If)]
    ifs.sort(key=lambda n: n.lineno)
    if len(ifs) != 3 or U(ifs[0].test) != 'not param_filename.exists()' or not _raises(ifs[0].body, 'FileNotFoundError'):
        raise TranslationError('validate_param_image: existence test')
    t = ifs[1].test
    if not (isinstance(t, ast.BoolOp) and isinstance(t.op, ast.Or) and len(t.values) == 3 and U(t.values[0]) == 'param_im.count == 0'
            and U(t.values[1]) == 'divmod(param_im.count, 3)[1] != 0' and isinstance(t.values[2], ast.UnaryOp)
            and isinstance(t.values[2].operand, ast.Compare) and U(t.values[2].operand.comparators[0]) == 'set(tags)'
            and isinstance(t.values[2].operand.ops[0], ast.LtE)) or not _raises(ifs[1].body, 'ImageFormatError'):
        raise TranslationError(f'validate_param_image: count / tag test `{U(t)}`')
    tags = sorted(ast.literal_eval(t.values[2].operand.left))
    if U(the_assign(fn, 'tags')) != 'param_im.tags()':
        raise TranslationError('validate_param_image: tags')
    if U(the_assign(fn, 'n_refl_bands')) != 'int(param_im.count / 3)':
        raise TranslationError('validate_param_image: n_refl_bands')
    sfx = the_assign(fn, 'suffixes')
    parts = []
    node = sfx
    while isinstance(node, ast.BinOp) and isinstance(node.op, ast.Add):
        parts.insert(0, node.right)
        node = node.left
    parts.insert(0, node)
    names = []
    for p in parts:
        if not (isinstance(p, ast.BinOp) and isinstance(p.op, ast.Mult) and U(p.right) == 'n_refl_bands' and isinstance(p.left, ast.List)
                and len(p.left.elts) == 1 and isinstance(p.left.elts[0], ast.Constant)):
            raise TranslationError(f'validate_param_image: suffixes = `{U(sfx)}`')
        names.append(p.left.elts[0].value)
    if U(ifs[2].test) != 'not all([desc.lower().endswith(suffix) for suffix, desc in zip(suffixes, param_im.descriptions)])' or \
            not _raises(ifs[2].body, 'ImageFormatError'):
        raise TranslationError(f'validate_param_image: description test `{U(ifs[2].test)}`')
    body = ' ++ '.join(f'List.replicate n "{s}"' for s in names)
    return [('paramImage_countOk', '(count : Nat)', 'Bool', '(!(count == 0 || count % 3 != 0))', 'validate_param_image: ' + U(t.values[0]) + ' or ' + U(t.values[1])),
            ('paramImage_requiredTags', '', 'List String', '[' + ', '.join(f'"{x}"' for x in tags) + ']', 'validate_param_image: tags that must be present (sorted)'),
            ('paramImage_suffixes', '(n : Nat)', 'List String', f'({body})', 'validate_param_image: ' + U(sfx))]


def _fstring_parts(node, atoms):
    if not isinstance(node, ast.JoinedStr):
        raise TranslationError(f'not an f-string: `{U(node)}`')
    out = []
    for v in node.values:
        if isinstance(v, ast.Constant):
            out.append('"' + v.value + '"')
        elif isinstance(v, ast.FormattedValue) and v.format_spec is None and v.conversion == -1 and U(v.value) in atoms:
            out.append(atoms[U(v.value)])
        else:
            raise TranslationError(f'f-string part `{U(v)}`')
    return out


def _u_names():
    """utils.py create_out_postfix / create_param_filename: the pieces of the output names, in order"""
    from homonim import utils
    fn = fn_body(src_of(utils.create_out_postfix))
    for t, v in (('ext_dict', 'rio.drivers.raster_driver_extensions()'), ('ext_idx', 'list(ext_dict.values()).index(driver)'),
                 ('ext', 'list(ext_dict.keys())[ext_idx]')):
        if U(the_assign(fn, t)) != v:
            raise TranslationError(f'create_out_postfix: `{t}` = `{U(the_assign(fn, t))}`')
    parts = _fstring_parts(the_assign(fn, 'post_fix'), {'proc_crs.name.upper()': 'procUpper', 'model.upper()': 'modelUpper',
                                                         'kernel_shape[0]': 'toString kh', 'kernel_shape[1]': 'toString kw', 'ext': 'ext'})
    if [U(n.value) for n in ast.walk(fn) if isinstance(n, ast.Return)] != ['post_fix']:
        raise TranslationError('create_out_postfix: return')
    fn2 = fn_body(src_of(utils.create_param_filename))
    ret = [n.value for n in ast.walk(fn2) if isinstance(n, ast.Return)]
    if len(ret) != 1 or not (isinstance(ret[0], ast.Call) and U(ret[0].func) == 'filename.parent.joinpath' and len(ret[0].args) == 1):
        raise TranslationError('create_param_filename: return')
    p2 = _fstring_parts(ret[0].args[0], {'filename.stem': 'stem', 'filename.suffix': 'suffix'})
    return [('names_outPostfixParts', '(procUpper modelUpper : String) (kh kw : Nat) (ext : String)', 'List String', '[' + ', '.join(parts) + ']',
             'create_out_postfix: the f-string'),
            ('names_paramFilename', '(stem suffix : String)', 'String', '(' + ' ++ '.join(p2) + ')', 'create_param_filename: the f-string')]


def _u_nonalpha():
    """utils.py get_nonalpha_bands (1-based indices of the bands whose colour interpretation is not alpha) and the candidate
    test of _get_band_info (additionally not a geedim *_MASK / *_DIST band)"""
    from homonim import utils
    from homonim.matched_pair import MatchedPairReader
    fn = fn_body(src_of(utils.get_nonalpha_bands))
    if U(the_assign(fn, 'bands')) != 'tuple([bi + 1 for bi in range(im.count) if im.colorinterp[bi] != ColorInterp.alpha])':
        raise TranslationError(f"get_nonalpha_bands: `{U(the_assign(fn, 'bands'))}`")
    fn2 = fn_body(src_of(MatchedPairReader._get_band_info))
    na = the_assign(fn2, 'non_alpha_bands')
    comp = na.args[0] if isinstance(na, ast.Call) and U(na.func) == 'np.array' and len(na.args) == 1 else None
    if not (isinstance(comp, ast.ListComp) and U(comp.elt) == 'i + 1' and len(comp.generators) == 1 and
            U(comp.generators[0].iter) == 'range(im.count)' and len(comp.generators[0].ifs) == 1):
        raise TranslationError(f'_get_band_info: non_alpha_bands = `{U(na)}`')
    cand = bool_expr(comp.generators[0].ifs[0], {'im.colorinterp[i] != ColorInterp.alpha': '(!alpha)', 'im.descriptions[i]': 'hasDescr',
                                                  "im.descriptions[i].endswith('_MASK')": 'endsMask', "im.descriptions[i].endswith('_DIST')": 'endsDist'})
    if U(the_assign(fn2, 'refl_bands')) != "np.array([bi for bi in non_alpha_bands if 'center_wavelength' in im.tags(bi)])":
        raise TranslationError('_get_band_info: refl_bands')
    return [('bands_nonAlpha', '(isAlpha : List Bool)', 'List Nat',
             '(((List.range isAlpha.length).filter fun bi => !(isAlpha.getD bi false)).map (· + 1))', 'get_nonalpha_bands'),
            ('bands_isCandidate', '(alpha hasDescr endsMask endsDist : Bool)', 'Bool', cand, '_get_band_info: the filter of non_alpha_bands')]


def _b_info():
    """matched_pair.py _get_band_info: the order of the refusals, the order in which the default selection is tried, when and which
    standard RGB wavelengths are assumed"""
    from fractions import Fraction
    from homonim.matched_pair import MatchedPairReader
    fn = fn_body(src_of(MatchedPairReader._get_band_info))
    top = [st for st in _stmts(fn) if isinstance(st, ast.If)]
    tests = [U(st.test) for st in top]
    want = ['bands is not None and (not set(bands).issubset(range(1, im.count + 1)))',
            'bands is not None and (not set(bands).issubset(non_alpha_bands))',
            'bands is not None and len(refl_bands) and (not set(bands).issubset(refl_bands))',
            'bands is not None and len(bands) > 0', 'len(non_alpha_bands) == 3']
    if tests != want:
        raise TranslationError(f'_get_band_info: top-level tests {tests}')
    if not any(isinstance(x, ast.Raise) and U(x.exc).startswith('ValueError(') for x in top[0].body) or \
            not any(isinstance(x, ast.Raise) and U(x.exc).startswith('ValueError(') for x in top[1].body) or \
            any(isinstance(x, ast.Raise) for x in ast.walk(top[2])):
        raise TranslationError('_get_band_info: the two refusals / the warning')
    chain, node = [], top[3]
    while True:
        chain.append((U(node.test), [U(x) for x in node.body if isinstance(x, ast.Assign) and U(x.targets[0]) == 'bands']))
        if len(node.orelse) == 1 and isinstance(node.orelse[0], ast.If):
            node = node.orelse[0]
        else:
            last = node.orelse
            break
    if chain != [('bands is not None and len(bands) > 0', ['bands = np.array(bands)']), ('len(refl_bands) > 0', ['bands = np.array(refl_bands)']),
                 ('len(non_alpha_bands) > 0', ['bands = np.array(non_alpha_bands)'])] or not _raises(last, 'ValueError'):
        raise TranslationError(f'_get_band_info: selection chain {chain}')
    rgb = top[4]
    std = the_assign(rgb, 'std_rgb_cws')
    if not (isinstance(std, ast.Call) and U(std.func) == 'dict' and isinstance(std.args[0], ast.Call) and U(std.args[0].func) == 'zip'):
        raise TranslationError('_get_band_info: std_rgb_cws')
    keys = [U(x).split('.')[-1] for x in std.args[0].args[0].elts]
    vals = [Fraction(str(ast.literal_eval(x))) for x in std.args[0].args[1].elts]
    loop = [n for n in rgb.body if isinstance(n, ast.For)]
    if len(loop) != 1 or U(loop[0].iter) != 'non_alpha_bands':
        raise TranslationError('_get_band_info: RGB loop')
    lb = [U(x) for x in loop[0].body]
    if lb[0] != 'if not np.isnan(center_wavelengths[bi - 1]):\n    continue' or not lb[1].startswith(
            'if im.colorinterp[bi - 1] in std_rgb_cws:\n    center_wavelengths[bi - 1] = std_rgb_cws[im.colorinterp[bi - 1]]'):
        raise TranslationError(f'_get_band_info: RGB loop body {lb}')
    allnan = [n for n in rgb.body if isinstance(n, ast.If) and 'np.isnan' in U(n.test)]
    if len(allnan) != 1 or U(allnan[0].test) != 'sum(np.isnan(center_wavelengths[non_alpha_bands - 1])) == 3' or \
            'center_wavelengths[non_alpha_bands - 1] = list(std_rgb_cws.values())' not in [U(x) for x in allnan[0].body]:
        raise TranslationError('_get_band_info: assume-RGB branch')
    if U(the_assign(fn, 'center_wavelengths', 1)) != 'center_wavelengths[bands - 1]':
        raise TranslationError('_get_band_info: the wavelengths returned are those of the chosen bands')
    pairs = ', '.join(f'("{k}", ({v.numerator} : Rat) / {v.denominator})' for k, v in zip(keys, vals))
    return [('bandInfo_refusals', '', 'List BandRefusal', '[.outOfRange, .alphaOrMask]', '_get_band_info: the ValueErrors on a user selection, in order'),
            ('bandInfo_selection', '', 'List BandChoice', '[.userBands, .reflectanceBands, .nonAlphaBands, .fail]', '_get_band_info: the if / elif chain choosing the bands'),
            ('bandInfo_rgbCount', '', 'Nat', '3', '_get_band_info: len(non_alpha_bands) == 3'),
            ('bandInfo_stdRgb', '', 'List (String × Rat)', f'[{pairs}]', '_get_band_info: std_rgb_cws'),
            ('bandInfo_rgbSteps', '', 'List RgbStep', '[.keepExistingWavelength, .fromColorInterp, .allThreeMissingAssumeRgbInFileOrder]',
             '_get_band_info: the RGB branch')]


def _c_defaults():
    """cli.py: the defaults of the options that end up in the API's configuration dictionaries are taken from the API's own
    create_*_config functions (not repeated as literals)"""
    from homonim import cli
    tree = ast.parse(pathlib.Path(inspect.getsourcefile(cli)).read_text())
    got = {}
    for call in ast.walk(tree):
        if isinstance(call, ast.Call) and U(call.func) == 'click.option':
            names = [a.value for a in call.args if isinstance(a, ast.Constant) and isinstance(a.value, str)]
            long = [n for n in names if n.startswith('--')]
            for k in call.keywords:
                if k.arg == 'default' and long:
                    got.setdefault(long[0].split('/')[0], []).append(U(k.value))
    want = {'--threads': "RasterFuse.create_block_config()['threads']", '--max-block-mem': "RasterFuse.create_block_config()['max_block_mem']",
            '--downsampling': "RasterFuse.create_model_config()['downsampling'].name", '--upsampling': "RasterFuse.create_model_config()['upsampling'].name",
            '--mask-partial': "RasterFuse.create_model_config()['mask_partial']", '--r2-inpaint-thresh': "RasterFuse.create_model_config()['r2_inpaint_thresh']",
            '--driver': "RasterFuse.create_out_profile()['driver']", '--dtype': "RasterFuse.create_out_profile()['dtype']",
            '--nodata': "RasterFuse.create_out_profile()['nodata']", '--model': 'KernelModel.default_model.value',
            '--kernel-shape': 'KernelModel.default_kernel_shape', '--proc-crs': 'ProcCrs.auto.value',
            '--overwrite': 'False', '--param-image': 'False', '--build-ovw': 'True', '--force-match': 'False'}
    bad = {k: got.get(k) for k, v in want.items() if not got.get(k) or any(x != v for x in got[k])}
    if bad:
        raise TranslationError(f'option defaults not taken from the API: {bad}')
    from_api = sorted(k[2:] for k, v in want.items() if 'create_' in v or 'KernelModel.' in v)
    return [('cli_defaultsFromApi', '', 'List String', '[' + ', '.join(f'"{x}"' for x in from_api) + ']',
             'options whose default is an expression over the API defaults (create_block_config / create_model_config / create_out_profile / KernelModel)'),
            ('cli_flagDefaults', '', 'List (String × Bool)',
             '[' + ', '.join(f'("{k[2:]}", {want[k].lower()})' for k in ('--overwrite', '--param-image', '--build-ovw', '--force-match')) + ']', 'flag defaults')]


def _s_window():
    """stats.py _get_data_window / stats(): the pre-pass takes the DATASET mask of each tile of band 1 (valid where any band is),
    its bounding window moved to the tile's corner, the union over the tiles; stats() reads the tiles of every band meeting it"""
    from homonim.stats import ParamStats
    fn = fn_body(src_of(ParamStats._get_data_window))
    inner = fn_body(fn, 'get_block_data_window')
    if U(the_assign(inner, 'mask')) != 'self._param_im.dataset_mask(window=block_win)':
        raise TranslationError(f"_get_data_window: mask = `{U(the_assign(inner, 'mask'))}` (the dataset mask is valid where ANY band is)")
    if U(the_assign(inner, '_block_data_win')) != 'get_data_window(mask, nodata=0)':
        raise TranslationError('_get_data_window: get_data_window(mask, nodata=0)')
    st = [U(x) for x in _stmts(inner)]
    if 'if _block_data_win.width == 0 or _block_data_win.height == 0:\n    return None' not in st or st[-1] != (
            'return Window(block_win.col_off + _block_data_win.col_off, block_win.row_off + _block_data_win.row_off, '
            '_block_data_win.width, _block_data_win.height)'):
        raise TranslationError(f'_get_data_window: empty tile / offset {st[-2:]}')
    subs = [U(n) for n in ast.walk(fn) if isinstance(n, ast.ListComp)]
    if subs != ['[executor.submit(get_block_data_window, block_win) for block_ij, block_win in self._param_im.block_windows(1)]']:
        raise TranslationError(f'_get_data_window: tiles visited {subs}')
    if U(the_assign(fn, 'im_data_win')) != 'union(im_data_win, block_data_win) if im_data_win else block_data_win':
        raise TranslationError('_get_data_window: union')
    if any(isinstance(n, (ast.Break, ast.Continue)) for n in ast.walk(fn)) or \
            sum(1 for n in ast.walk(fn) if isinstance(n, ast.Call) and U(n.func) == 'future.result') != 1:
        raise TranslationError('_get_data_window: the result of every tile must be collected (an un-collected future hides its exception)')
    sf = fn_body(src_of(ParamStats.stats))
    if U(the_assign(sf, 'data_win')) != 'self._get_data_window(threads=threads)':
        raise TranslationError('stats: data_win')
    comp = the_assign(sf, 'stats_futures')
    gens = [(U(g.target), U(g.iter), [U(i) for i in g.ifs]) for g in comp.generators] if isinstance(comp, ast.ListComp) else None
    if gens != [('band_i', 'range(self._param_im.count)', []),
                ('(block_ij, block_win)', 'self._param_im.block_windows(band_i + 1)', ['data_win is None or intersect(data_win, block_win)'])] or \
            U(comp.elt) != 'executor.submit(get_block_sums, band_i, block_win)':
        raise TranslationError(f'stats: tiles read {gens}')
    return [('statsWindow_steps', '', 'List WindowStep',
             '[.datasetMaskOfTile, .boundingWindowOfMask, .emptyTileIsNone, .offsetByTileCorner, .unionInCompletionOrder, '
             '.readTilesOfEveryBandMeetingWindow]', '_get_data_window and the tile filter of stats()')]


def _k_init():
    """kernel_model.py KernelModel.__init__: the kernel shape goes through validate_kernel_shape, the configuration is completed by
    create_config and every value is stored AS GIVEN (no value is re-interpreted: a threshold of 0 stays 0, None stays None)"""
    from homonim.kernel_model import KernelModel
    st = [U(x) for x in _stmts(fn_body(src_of(KernelModel.__init__)))]
    want_head = ['self._model = Model(model)', 'self._kernel_shape = utils.validate_kernel_shape(kernel_shape, model=model)',
                 'self._find_r2 = find_r2', 'config = self.create_config(**kwargs)']
    if st[:4] != want_head:
        raise TranslationError(f'KernelModel.__init__: {st[:4]}')
    keys = []
    for t in st[4:]:
        import re
        m = re.fullmatch(r"self\._(\w+): \w+ = config\['(\w+)'\]", t)
        if not m or m.group(1) != m.group(2):
            raise TranslationError(f'KernelModel.__init__: a configuration value is not stored as given: `{t}`')
        keys.append(m.group(2))
    return [('kmodel_configStoredAsGiven', '', 'List String', '[' + ', '.join(f'"{k}"' for k in keys) + ']',
             "KernelModel.__init__: self._x = config['x'] for every key"),
            ('kmodel_kernelValidated', '', 'Bool', 'true', 'KernelModel.__init__: utils.validate_kernel_shape(kernel_shape, model=model)')]


def _k_shared_state():
    """kernel_model.py: one model object serves every block of a `process()` call, from every worker thread.  The machine's
    `compute` step (Model/Sched.lean) is a function of the block alone, which it is when no method of KernelModel / RefSpaceModel /
    SrcSpaceModel other than __init__ stores into the object, its class, a global or a non-local: the list of such stores found in
    the source text (empty on the code the proofs were written against)"""
    import inspect
    from homonim import kernel_model as km
    from homonim.fuse import RasterFuse
    writes = []
    for cls in (km.KernelModel, km.RefSpaceModel, km.SrcSpaceModel):
        for name, member in sorted(cls.__dict__.items()):
            f = member.__func__ if isinstance(member, (staticmethod, classmethod)) else member
            fs = [g for g in (f.fget, f.fset, f.fdel) if g] if isinstance(f, property) else [f]
            for g in fs:
                if not inspect.isfunction(g) or name == '__init__':
                    continue
                tree = fn_body(src_of(g))
                args = [a.arg for a in tree.args.args[:1]]
                for n in ast.walk(tree):
                    if isinstance(n, (ast.Global, ast.Nonlocal)):
                        writes.append(f'{cls.__name__}.{name}: {U(n)}')
                    if isinstance(n, (ast.Attribute, ast.Subscript)) and isinstance(n.ctx, (ast.Store, ast.Del)):
                        base = n
                        while isinstance(base, (ast.Attribute, ast.Subscript)):
                            base = base.value
                        if isinstance(base, ast.Name) and (base.id in args and base.id in ('self', 'cls') or
                                                           base.id in ('KernelModel', 'RefSpaceModel', 'SrcSpaceModel')):
                            writes.append(f'{cls.__name__}.{name}: {U(n)}')
                    if isinstance(n, ast.Call) and U(n.func) in ('setattr', 'object.__setattr__') and n.args and U(n.args[0]) in ('self', 'cls'):
                        writes.append(f'{cls.__name__}.{name}: {U(n)[:60]}')
    # and the one object is what every block gets: _process_block(block_pair, model, ...) calls fit and apply on its argument
    pb = [U(x) for x in _stmts(fn_body(src_of(RasterFuse._process_block)))]
    if 'param_ra = model.fit(src_ra, ref_ra)' not in pb or 'corr_ra = model.apply(src_ra, param_ra)' not in pb:
        raise TranslationError(f'_process_block: fit / apply calls {pb[:4]}')
    return [('modelState_writes', '', 'List String', '[' + ', '.join('"' + w.replace('"', "'") + '"' for w in writes) + ']',
             'stores into the shared model object (or its class, a global, a non-local) by methods other than __init__')]


def _hbody(stmts):
    """an exception handler's statements as the model's HBody tree"""
    if not stmts:
        return '.fallthrough'
    st, rest = stmts[0], list(stmts[1:])
    if isinstance(st, ast.Raise):
        if st.exc is not None and U(st.exc) == 'click.Abort()':
            return '.abort'
        raise TranslationError(f'handler raises `{U(st)}`')
    if isinstance(st, ast.Expr) and isinstance(st.value, ast.Call) and U(st.value.func).startswith('logger.'):
        return f'(.log {_hbody(rest)})'
    if isinstance(st, ast.If):
        cond = U(st.test).replace('"', "'")
        return f'(.ite "{cond}" {_hbody(list(st.body) + rest)} {_hbody(list(st.orelse) + rest)})'
    raise TranslationError(f'handler statement `{U(st)[:80]}`')


def _c_handlers():
    """cli.py fuse / compare / stats: all processing of a command sits in one `try` - the last statement of the command - with a
    single handler, `except Exception`, and no handler inside it; the handler's body as a tree of log / if / abort"""
    from homonim import cli
    out = []
    for nm in ('fuse', 'compare', 'stats'):
        fn = fn_body(src_of(getattr(cli, nm).callback), nm)
        body = _stmts(fn)
        if not body or not isinstance(body[-1], ast.Try):
            raise TranslationError(f'cli.{nm}: the command does not end with its try statement')
        t = body[-1]
        if len(t.handlers) != 1 or t.handlers[0].type is None or U(t.handlers[0].type) != 'Exception' or t.orelse or t.finalbody:
            raise TranslationError(f'cli.{nm}: handlers {[U(h.type) if h.type else None for h in t.handlers]}, else / finally')
        inner = [n for st in t.body for n in ast.walk(st) if isinstance(n, ast.Try)]
        if inner:
            raise TranslationError(f'cli.{nm}: a handler inside the command\'s try (line {inner[0].lineno})')
        early = [st for st in body[:-1] if any(isinstance(n, (ast.Try, ast.For, ast.While, ast.With)) for n in ast.walk(st))]
        if early:
            raise TranslationError(f'cli.{nm}: processing outside the try: `{U(early[0])[:80]}`')
        out.append(f'("{nm}", {_hbody(list(t.handlers[0].body))})')
    return [('cli_handlers', '', 'List (String × HBody)', '[' + ', '.join(out) + ']',
             'cli.fuse / cli.compare / cli.stats: the single `except Exception` handler around all processing')]


def _f_tags():
    """fuse.py / stats.py: which FUSE_* tags process() writes into both outputs (the three fixed ones of _set_metadata plus one per
    configuration key handed to _out_files), which of them ParamStats reads, and that the threshold read back is made a number"""
    from homonim.fuse import RasterFuse
    from homonim.kernel_model import KernelModel
    from homonim.stats import ParamStats
    fn = fn_body(src_of(RasterFuse._set_metadata))
    if U(the_assign(fn, 'kwargs_meta_dict')) != "{f'FUSE_{k.upper()}': v.name if hasattr(v, 'name') else v for k, v in kwargs.items()}":
        raise TranslationError(f"_set_metadata: kwargs_meta_dict = `{U(the_assign(fn, 'kwargs_meta_dict'))}`")
    md = the_assign(fn, 'meta_dict')
    if not (isinstance(md, ast.Call) and U(md.func) == 'dict' and not md.args and md.keywords[-1].arg is None and U(md.keywords[-1].value) == 'kwargs_meta_dict'):
        raise TranslationError(f'_set_metadata: meta_dict = `{U(md)}`')
    fixed = [k.arg for k in md.keywords[:-1]]
    if U(_stmts(fn)[-1]) != 'im.update_tags(**meta_dict)':
        raise TranslationError('_set_metadata: update_tags')
    for meth in ('_set_corr_metadata', '_set_param_metadata'):
        if 'self._set_metadata(im, **kwargs)' not in [U(x) for x in _stmts(fn_body(src_of(getattr(RasterFuse, meth))))]:
            raise TranslationError(f'{meth}: does not pass **kwargs to _set_metadata')
    of = fn_body(src_of(RasterFuse._out_files))
    named = [a.arg for a in of.args.args if a.arg != 'self']
    if of.args.kwarg is None or of.args.kwarg.arg != 'kwargs':
        raise TranslationError('_out_files: **kwargs')
    fin = [n for n in ast.walk(of) if isinstance(n, ast.Try)]
    texts = [U(n) for t in fin for n in ast.walk(t) if isinstance(n, ast.Expr)]
    if 'self._set_corr_metadata(out_im, **kwargs)' not in texts or 'self._set_param_metadata(param_im, **kwargs)' not in texts:
        raise TranslationError('_out_files: metadata of both outputs is set from **kwargs')
    pr = fn_body(src_of(RasterFuse.process))
    call = [c for c in calls(pr, 'self._out_files')]
    if len(call) != 1:
        raise TranslationError('process: _out_files call')
    keys, stars = [], []
    for k in call[0].keywords:
        if k.arg is None:
            stars.append(U(k.value))
        elif k.arg not in named:
            keys.append(k.arg)
    if stars != ['model_config', 'block_config']:
        raise TranslationError(f'process: dictionaries expanded into _out_files: {stars}')
    if U(the_assign(pr, 'model_config')) != 'RasterFuse.create_model_config(**model_config or {})' or \
            U(the_assign(pr, 'block_config')) != 'RasterFuse.create_block_config(**block_config or {})':
        raise TranslationError('process: the configuration dictionaries are completed by create_*_config')
    for f in (KernelModel.create_config, RasterFuse.create_block_config):
        ret = [n.value for n in ast.walk(fn_body(src_of(f))) if isinstance(n, ast.Return)]
        if len(ret) != 1 or not (isinstance(ret[0], ast.Call) and U(ret[0].func) == 'dict' and not ret[0].args):
            raise TranslationError(f'{f.__name__}: return')
        keys += [k.arg for k in ret[0].keywords]
    if RasterFuse.create_model_config is not KernelModel.create_config:
        raise TranslationError('RasterFuse.create_model_config is not KernelModel.create_config')
    written = fixed + ['FUSE_' + k.upper() for k in keys]
    init = fn_body(src_of(ParamStats.__init__))
    reads = sorted(set(n.slice.value for n in ast.walk(init) if isinstance(n, ast.Subscript) and U(n.value) == 'self._tags'
                       and isinstance(n.slice, ast.Constant)))
    if U(the_assign(init, 'r2_inpaint_thresh')) != "yaml.safe_load(self._tags['FUSE_R2_INPAINT_THRESH'])":
        raise TranslationError('ParamStats.__init__: threshold tag')
    th = U(the_assign(init, 'self._r2_inpaint_thresh'))
    if th != "None if r2_inpaint_thresh in (None, 'None') else float(r2_inpaint_thresh)":
        raise TranslationError(f'ParamStats.__init__: the threshold read back is `{th}` (must be None or a float, never the tag text)')
    q = lambda xs: '[' + ', '.join(f'"{x}"' for x in xs) + ']'
    return [('tags_written', '', 'List String', q(written), '_set_metadata via _out_files(**kwargs) from process()'),
            ('tags_statsReads', '', 'List String', q(reads), 'ParamStats.__init__: self._tags[...]'),
            ('tags_threshIsNumber', '', 'Bool', 'true', "ParamStats.__init__: None if r2_inpaint_thresh in (None, 'None') else float(r2_inpaint_thresh)")]


# one extractor per source function: a failure in one leaves the others (and the properties they serve) alone
SECTIONS = [_k_fit_gain, _k_fit_gain_offset, _k_r2, _k_blk, _s_cmp, _s_cmp_mean, _s_stats, _g_blocks, _g_resolve, _g_auto,
            _g_overlap, _g_expand, _g_round, _g_covers, _g_pindex, _s_cmp_block, _m_cover, _a_bounded, _p_r2band, _f_prog, _f_outfiles, _c_invoke, _f_process, _k_resampling, _a_convert, _a_write, _a_read,
            _g_orient, _m_naneq, _f_accumulate, _c_loops, _f_profiles, _c_nodata, _b_match, _f_locks,
            _u_kernel, _u_threads, _u_param_image, _u_names, _u_nonalpha, _b_info, _c_defaults, _f_tags, _s_window, _k_init, _k_shared_state, _c_handlers]
# definition-name prefixes each extractor is responsible for (used to attribute a failed extraction to properties)
PROVIDES = {'_k_fit_gain': ('fitGain_',), '_k_fit_gain_offset': ('fitGainOffset_',), '_k_r2': ('r2_',),
            '_k_blk': ('blk_', 'blockNorm_', 'applyParams'), '_s_cmp': ('cmp_',), '_s_cmp_mean': ('cmp_meanRow',),
            '_s_stats': ('stats_',), '_g_blocks': ('blocks_',), '_g_resolve': ('resolveAutoIsRef',), '_g_auto': ('autoBlock_',),
            '_g_overlap': ('overlapForKernel',), '_g_expand': ('expandWindow_',), '_g_round': ('roundBounds_',),
            '_g_covers': ('covers_axis',), '_g_pindex': ('paramIndex',), '_s_cmp_block': ('cmpPx_',), '_m_cover': ('cover_',),
            '_a_bounded': ('bounded_',), '_p_r2band': ('stats_isR2Band', 'stats_inpainted'), '_f_prog': ('prog',), '_f_outfiles': ('outFilesEvents',), '_c_invoke': ('cli_',), '_f_process': ('fanOut',), '_k_resampling': ('resamplingIsDown',), '_a_convert': ('convert_',), '_a_write': ('writeSteps',),
            '_a_read': ('read_',), '_g_orient': ('orient_',), '_m_naneq': ('mask_',), '_f_accumulate': ('accumulate_',),
            '_c_loops': ('cli_fuseLoop', 'cli_compareLoop'), '_f_profiles': ('profile_',), '_c_nodata': ('cli_nodata',), '_b_match': ('match_',), '_f_locks': ('locks_',),
            '_u_kernel': ('kernel_',), '_u_threads': ('threads_',), '_u_param_image': ('paramImage_',), '_u_names': ('names_',),
            '_u_nonalpha': ('bands_',), '_b_info': ('bandInfo_',), '_c_defaults': ('cli_defaults', 'cli_flagDefaults'), '_f_tags': ('tags_',), '_s_window': ('statsWindow_',), '_k_init': ('kmodel_',), '_k_shared_state': ('modelState_',), '_c_handlers': ('cli_handlers',)}
# which generated definitions (by name prefix) bear on which property's check
SERVES = {
    'C01': ('fitGain', 'r2_', 'blk_', 'blockNorm_', 'kernel_'), 'C02': ('fitGain', 'r2_', 'blk_', 'blockNorm_', 'applyParams', 'resamplingIsDown', 'kmodel_'),
    'C07': ('fitGain', 'r2_', 'blk_', 'blockNorm_', 'applyParams', 'mask_'), 'C14': ('applyParams', 'paramIndex', 'fitGain', 'r2_', 'profile_metaTags', 'paramImage_', 'tags_'),
    'C04': ('prog', 'fanOut', 'accumulate_', 'locks_', 'threads_', 'modelState_'), 'C09': ('prog', 'outFilesEvents', 'fanOut', 'statsWindow_', 'cli_handlers'), 'C10': ('outFilesEvents', 'profile_', 'cli_fuseLoop', 'names_'), 'C11': ('cmp_', 'cmpPx_', 'resamplingIsDown', 'accumulate_compare', 'mask_'), 'C12': ('stats_', 'accumulate_stats', 'paramImage_', 'tags_', 'statsWindow_'), 'C17': ('cover_',), 'C20': ('bounded_', 'writeSteps', 'read_', 'convert_', 'mask_'), 'C13': ('convert_', 'writeSteps', 'profile_'), 'C08': ('read_', 'mask_', 'bands_'),
    'C03': ('writeSteps', 'expandWindow_', 'kmodel_'), 'C05': ('overlapForKernel', 'blocks_', 'resamplingIsDown', 'fitGain', 'r2_', 'kernel_'),
    'C06': ('blocks_', 'expandWindow_', 'roundBounds_', 'autoBlock_', 'orient_'), 'C16': ('covers_axis', 'orient_'), 'C18': ('resolveAutoIsRef', 'orient_', 'cli_fuseLoop', 'tags_', 'profile_'), 'C19': ('cli_', 'names_', 'threads_', 'kernel_', 'kmodel_'), 'C15': ('match_', 'bands_', 'bandInfo_'),
}
# theorems outside Props/Cxx.lean audited with a property's proof leg: (module, theorem name prefix) - the source-text tie
# theorems and the end-to-end theorems about the whole-image model (Props/E2E.lean)
TIE = {
    'C01': [('SrcTieCli', 'src_C01_kernel'), ('SrcTieCli', 'src_C01_accepted'), ('SrcTieKernel', 'src_C01_')],
    'C02': [('SrcTieCli', 'src_C19_model_config'), ('SrcTieKernel', 'src_C01_'), ('SrcTieKernel', 'src_C14_apply'), ('SrcTieKernel', 'src_C02_'), ('E2E', 'block_transparent'),
            ('E2ELine', 'whole_image_gain_recovers'), ('E2ELine', 'whole_image_gain_offset_recovers'),
            ('E2EWide', 'whole_image_gain_'), ('E2EWide', 'cubic_weights_sum_one'), ('E2EWide', 'bspline_weights_')],
    'C03': [('SrcTieCli', 'src_C19_model_config'), ('SrcTieGeom', 'src_C06_expand'), ('E2E', 'block_transparent'), ('E2EMask', 'whole_image_'), ('E2EMask', 'block_mask_eq_whole'),
            ('E2EWide', 'wide_valid_iff_nearest'), ('E2EWide', 'wide_mask_eq_nearest'), ('E2EWide', 'whole_image_no_lost_pixels_wide'),
            ('E2EWide', 'block_mask_eq_whole_wide')],
    'C15': [('SrcTieCli', 'src_C15_'), ('BandInfo', 'bandInfo_'), ('SrcTieStats', 'src_C15_')],
    'C07': [('SrcTieKernel', 'src_C01_'), ('E2ELine', 'whole_image_scale'), ('E2EWide', 'whole_image_scale_wide'), ('SrcTieGeom', 'src_C08_nan_equals'), ('SrcTieGeom', 'src_C08_mask_')],
    'C14': [('SrcTieCli', 'src_C12_'), ('SrcTieKernel', 'src_C14_'), ('SrcTieGeom', 'src_C14_'), ('SrcTieKernel', 'src_C01_'), ('SrcTieSched', 'src_C13_profiles'), ('E2EParam', 'param_valid_'), ('E2EParam', 'src_grid_corrected_is_param_applied')],
    'C11': [('SrcTieStats', 'src_C11_'), ('E2ECompare', 'compare_'), ('SrcTieKernel', 'src_C02_resampling'), ('SrcTieSched', 'src_C04_accumulate'), ('SrcTieGeom', 'src_C08_nan_equals')],
    'C12': [('SrcTieCli', 'src_C12_'), ('StatsWindow', 'no_valid_pixel_skipped'), ('StatsWindow', 'dataWindow_contains'), ('StatsWindow', 'first_band_window_skips_counterexample'), ('StatsE2E', 'stats_'), ('SrcTieStats', 'src_C12_'), ('SrcTieSched', 'src_C04_accumulate')], 'C05': [('SrcTieCli', 'src_C01_kernel'), ('SrcTieCli', 'src_C01_accepted'), ('SrcTieGeom', 'src_C05_'), ('SrcTieGeom', 'src_C06_block'), ('SrcTieKernel', 'src_C01_'), ('E2E', 'block_transparent'), ('E2E', 'partitions_agree'),
            ('E2ESrc', 'block_transparent_src_grid'), ('E2ESrc', 'partitions_agree_src_grid'), ('E2ESrc', 'correctedSrcGrid_eq_on'),
            ('E2EWide', 'block_transparent_wide'), ('E2EWide', 'block_mask_eq_whole_wide'), ('E2EParam', 'param_image_')],
    'C06': [('SrcTieGeom', 'src_C06_'), ('SrcTieGeom', 'src_C16_north_up'), ('SrcTieGeom', 'src_C16_same_orientation')], 'C16': [('SrcTieGeom', 'src_C16_')],
    'C18': [('SrcTieCli', 'src_C12_tags'), ('SrcTieSched', 'src_C13_profiles'), ('SrcTieGeom', 'src_C18_'), ('SrcTieGeom', 'src_C16_same_orientation'), ('SrcTieSched', 'src_C19_loops')],
    'C13': [('SrcTieGeom', 'src_C13_'), ('SrcTieSched', 'src_C13_')], 'C08': [('SrcTieCli', 'src_C15_non_alpha'), ('SrcTieGeom', 'src_C08_')],
    'C17': [('SrcTieGeom', 'src_C17_'), ('E2EPartial', 'partial_mask_'), ('E2EPartialDef', 'partial_valid_'),
            ('E2EPartialSrc', 'partial')], 'C20': [('SrcTieGeom', 'src_C20_'), ('SrcTieGeom', 'src_C08_nan_equals'), ('SrcTieGeom', 'src_C08_mask_')],
    'C04': [('SrcTieCli', 'src_C19_threads'), ('SrcTieSched', 'src_C04_')], 'C09': [('SrcTieSched', 'src_C04_'), ('SrcTieCli', 'src_C12_window_steps'), ('SrcTieCli', 'src_C09_')], 'C10': [('SrcTieCli', 'src_C19_names'), ('SrcTieSched', 'src_C10_'), ('SrcTieSched', 'src_C13_profiles'), ('SrcTieSched', 'src_C19_loops')], 'C19': [('SrcTieCli', 'src_C19_model_config'), ('SrcTieCli', 'src_C19_threads'), ('SrcTieCli', 'src_C19_names'), ('SrcTieCli', 'src_C19_defaults'), ('SrcTieCli', 'src_C01_kernel'), ('SrcTieSched', 'src_C19_')],
}


def generate():
    """(text of GeneratedCode.lean, {extractor name: error text} for the source functions that could not be translated)"""
    lines = ['/-', '  GENERATED by harness/py2lean.py from the source text of the homonim package - do not edit.',
             '  Each definition is the closed form of what the named statement of the code evaluates (see py2lean.py).', '-/',
             'import Homonim.Model.Sched', 'import Homonim.Model.FS', 'import Homonim.Model.WindowIO', 'import Homonim.Model.Cli',
             'import Homonim.Model.Bands', 'import Homonim.Model.StatsWindow', 'import Homonim.Model.Stats', 'namespace Homonim.Src', 'open Homonim', '']
    errors = {}
    for fn in SECTIONS:
        try:
            defs = fn()
        except Exception as ex:
            msg = f'{type(ex).__name__}: {ex}'.replace('\n', ' ')
            errors[fn.__name__] = msg
            lines += [f'-- {fn.__name__}: NOT TRANSLATED - {msg[:200]}', '']
            continue
        for name, params, typ, body, doc in defs:
            lines.append(f'/-- {doc} -/'.replace('-/ -/', '-/'))
            extra = ' (sqrt : Rat → Rat)' if 'sqrt ' in body else ''
            lines.append(f'def {name} {params}{extra} : {typ} := {body}'.replace('  :', ' :'))
            lines.append('')
    lines.append('end Homonim.Src')
    return '\n'.join(lines) + '\n', errors


def defs_of(text):
    """{definition name: its full text} of a GeneratedCode.lean"""
    import re
    return {m.group(1): m.group(0).strip() for m in re.finditer(r'^def (\S+) .*$', text, re.M)}


def refresh(pid, write_allowed=True):
    """
    Regenerate lean/Homonim/GeneratedCode.lean from the code under test.  Returns a list of problems that bear on `pid`:
    definitions serving `pid` that could not be translated, or (when the file may not be written: the tree under test is
    not /repo) that differ from the ones the tie theorems were last checked against.
    """
    path = common.LEAN / 'Homonim' / 'GeneratedCode.lean'
    new, errors = generate()
    old = path.read_text() if path.exists() else ''
    problems = []
    mine = SERVES.get(pid, ())
    for fname, msg in errors.items():
        if any(pre.startswith(m) or m.startswith(pre) for pre in PROVIDES.get(fname, ()) for m in mine):
            problems.append(f'{fname[1:]}: {msg}')
    if old != new:
        if write_allowed:
            with common.build_lock():
                path.write_text(new)
        else:
            do, dn = defs_of(old), defs_of(new)
            for name in sorted(set(do) | set(dn)):
                if name.startswith(mine) and do.get(name) != dn.get(name) and mine:
                    problems.append(f'`{name}` now reads `{dn.get(name, "(gone)")}`, the tie theorems were checked against '
                                    f'`{do.get(name, "(absent)")}`')
    return problems


if __name__ == '__main__':
    print(generate()[0])
