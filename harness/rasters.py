"""
Raster factory: north-up (optionally south-up stored) GeoTIFFs whose geometry is described by integers in a common
ground unit, so that the Lean model (integer `Axis` structures) and the real code see the same grids.
"""
import pathlib
from fractions import Fraction

import numpy as np
import rasterio as rio
from rasterio.crs import CRS
from rasterio.enums import ColorInterp
from rasterio.transform import Affine

CRS3857 = CRS.from_epsg(3857)
CRS4326 = CRS.from_epsg(4326)


class Grid:
    """north-up image grid; x0, ytop, px, py in integer multiples of `unit` (a Fraction, metres per unit)"""

    def __init__(self, x0, ytop, px, py, w, h, unit=Fraction(1, 8)):
        self.x0, self.ytop, self.px, self.py, self.w, self.h, self.unit = x0, ytop, px, py, w, h, Fraction(unit)

    @property
    def transform(self):
        u = float(self.unit)
        return Affine(self.px * u, 0, self.x0 * u, 0, -self.py * u, self.ytop * u)

    # axes as (o, p, n) integer triples for the model: rows in the negated y coordinate
    @property
    def col_axis(self):
        return (self.x0, self.px, self.w)

    @property
    def row_axis(self):
        return (-self.ytop, self.py, self.h)

    @property
    def bounds_units(self):
        """(left, bottom, right, top) in units"""
        return (self.x0, self.ytop - self.h * self.py, self.x0 + self.w * self.px, self.ytop)

    def dyadic(self):
        d = self.unit.denominator
        return d & (d - 1) == 0

    def to_dict(self):
        return dict(x0=self.x0, ytop=self.ytop, px=self.px, py=self.py, w=self.w, h=self.h, unit=str(self.unit))

    @staticmethod
    def from_dict(d):
        return Grid(d['x0'], d['ytop'], d['px'], d['py'], d['w'], d['h'], Fraction(d['unit']))

    def __repr__(self):
        return f'Grid({self.to_dict()})'


def write_tif(
    path, grid: Grid, array=None, dtype='float32', nodata=float('nan'), mask=None, alpha=None, count=None,
    band_tags=None, descriptions=None, colorinterp=None, tags=None, south_up=False, crs=CRS3857, internal_mask=True, **profile
):
    """
    Write `array` (bands, h, w) or (h, w) on `grid`.
      mask   : bool (h, w) written as an internal mask band (GDAL_TIFF_INTERNAL_MASK) - use with nodata=None
      alpha  : bool (h, w) appended as an alpha band (honoured by GDAL as dataset mask for 1/3 uint8|uint16 bands); an integer
               array gives the alpha values themselves (semi-transparent pixels 1..254 are valid pixels)
      internal_mask: False writes the mask as a side-car file `<name>.msk` instead of inside the TIFF
      south_up: store the rows bottom-to-top with a positive `e` transform term (same ground content)
    """
    path = pathlib.Path(path)
    if array is None:
        array = np.ones((count or 1, grid.h, grid.w), dtype=dtype)
    array = np.asarray(array)
    if array.ndim == 2:
        array = array[None]
    nb = array.shape[0]
    total = nb + (1 if alpha is not None else 0)
    transform = grid.transform
    if south_up:
        u = float(grid.unit)
        transform = Affine(grid.px * u, 0, grid.x0 * u, 0, grid.py * u, (grid.ytop - grid.h * grid.py) * u)
        array = array[:, ::-1, :]
        mask = None if mask is None else mask[::-1, :]
        alpha = None if alpha is None else alpha[::-1, :]
    prof = dict(
        driver='GTiff', width=grid.w, height=grid.h, count=total, dtype=dtype, crs=crs, transform=transform,
        nodata=nodata
    )
    prof.update(profile)
    for side in (pathlib.Path(str(path) + '.msk'), pathlib.Path(str(path) + '.aux.xml')):
        if side.exists():
            side.unlink()      # side-car files of whatever the path held before
    with rio.Env(GDAL_TIFF_INTERNAL_MASK=bool(internal_mask), GTIFF_FORCE_RGBA=False):
        with rio.open(path, 'w', **prof) as ds:
            ds.write(array.astype(dtype), indexes=list(range(1, nb + 1)))
            if alpha is not None:
                info_max = np.iinfo(dtype).max if np.issubdtype(np.dtype(dtype), np.integer) else 1
                # a bool array: fully opaque where True; an integer array: the alpha values themselves (any non-zero = valid)
                av = (alpha * info_max) if np.asarray(alpha).dtype == bool else np.asarray(alpha)
                ds.write(av.astype(dtype), indexes=total)
                ci = list(colorinterp or ([ColorInterp.gray] * nb if nb != 3 else
                                          [ColorInterp.red, ColorInterp.green, ColorInterp.blue]))
                ds.colorinterp = ci[:nb] + [ColorInterp.alpha]
            elif colorinterp is not None:
                ds.colorinterp = list(colorinterp)
            if mask is not None:
                ds.write_mask(mask.astype(bool))
            if tags:
                ds.update_tags(**tags)
            if band_tags:
                for bi, bt in enumerate(band_tags):
                    if bt:
                        ds.update_tags(bi + 1, **bt)
            if descriptions:
                for bi, d in enumerate(descriptions):
                    if d:
                        ds.set_band_description(bi + 1, d)
    return path


def read_all(path, masked=False):
    """(array (bands,h,w), dataset mask bool (h,w), profile, tags, descriptions)"""
    with rio.Env(GDAL_TIFF_INTERNAL_MASK=True, GTIFF_FORCE_RGBA=False):
        with rio.open(path) as ds:
            return (ds.read(), ds.dataset_mask().astype(bool), ds.profile, ds.tags(), ds.descriptions)


def noisy_edges(family, ps, pr):
    """True when GDAL's pixel<->map arithmetic is inexact for this pair of pixel sizes (see pair_geometry)"""
    pow2 = lambda n: n > 0 and n & (n - 1) == 0
    return family != 'dyadic' or not (pow2(ps) and pow2(pr))


def offgrid_offset(rng, family, ps, pr):
    """sub-pixel offset in [0, pr) of a source origin on the reference grid; where the arithmetic is inexact
    (noisy_edges) the offset is no multiple of gcd(ps, pr), so that no source pixel edge coincides with a reference edge"""
    import math
    g = math.gcd(ps, pr)
    sub = rng.randrange(0, pr)
    if noisy_edges(family, ps, pr) and g > 1 and sub % g == 0:
        sub += rng.randrange(1, g)
    return sub


def pair_geometry(rng, family='dyadic', proc='auto', max_src=40, margin=(0, 3), avoid_aligned_edges=False):
    """
    Random source grid inside a reference grid.  Returns (src Grid, ref Grid).
      family 'dyadic' : unit 1/8 m, pixel sizes multiples of the unit - every float the code computes is exact
      family 'decimal': unit 0.05 m with metre-sized decimal pixel sizes and large map coordinates
    `proc` biases the resolution order: 'auto' → source finer or equal (reference grid processing) 2/3 of the time.
    """
    if family == 'dyadic':
        unit = Fraction(1, 8)
        fine = rng.choice([2, 4, 8, 8, 16, 12, 18])
        ratio = rng.choice([(1, 1), (2, 1), (2, 1), (5, 2), (3, 1), (4, 1), (20, 9), (3, 2)])
        big_origin = rng.choice([8 * 20_000, 8 * 20_000, 8 * 6_500_000, -8 * 3_000_000])
    else:
        unit = Fraction(1, 20)
        fine = rng.choice([8, 9, 10, 20, 30])  # 0.4, 0.45, 0.5, 1.0, 1.5 m
        ratio = rng.choice([(1, 1), (2, 1), (2, 1), (5, 2), (20, 9), (3, 1), (7, 3)])
        big_origin = rng.choice([20 * 20_000 + 2, 20 * 6_500_000 + 8, -20 * 3_000_000 - 6, 20 * 250_000 + 2])
    coarse_num = fine * ratio[0]
    if coarse_num % ratio[1] != 0:
        fine *= ratio[1]
        coarse_num = fine * ratio[0]
    coarse = coarse_num // ratio[1]
    src_finer = rng.random() < (0.67 if proc == 'auto' else 0.5)
    ps, pr = (fine, coarse) if src_finer else (coarse, fine)
    sw, sh = rng.randint(3, max_src), rng.randint(3, max_src)
    # sub-pixel offset of the source origin relative to the reference grid, in units
    sub = rng.choice([0, 0, pr // 2, pr // 4, 1, pr - 1, rng.randrange(pr)])
    suby = rng.choice([0, 0, pr // 2, pr // 4, 1, pr - 1, rng.randrange(pr)])
    ml, mt = rng.randint(*margin), rng.randint(*margin)
    rx0 = big_origin + rng.randrange(-50, 50) * pr + 3
    rytop = big_origin // 2 + rng.randrange(-50, 50) * pr + 5
    if avoid_aligned_edges and noisy_edges(family, ps, pr):
        # decimal geometry carries float noise: where a source pixel edge coincides with a reference pixel edge GDAL's
        # area weights of the neighbouring pixel are ~1e-10 instead of 0, which changes *validity* when the neighbour is
        # the only valid contributor (GDAL behaviour, not homonim's).  Value oracles avoid exact edge coincidences there.
        # The same holds in the dyadic family when a pixel size is not a power of two (GDAL multiplies by the inverse
        # geotransform, and 1/1.5 is not exact); dyadic grids with power-of-two pixel sizes cover the coinciding edges.
        import math
        g = math.gcd(ps, pr)
        if g > 1:
            if sub % g == 0:
                sub += rng.randrange(1, g)
            if suby % g == 0:
                suby += rng.randrange(1, g)
    sx0 = rx0 + ml * pr + sub
    sytop = rytop - mt * pr - suby
    # reference must cover the source plus a right/bottom margin
    need_w = -(-(sx0 + sw * ps - rx0) // pr) + rng.randint(*margin)
    need_h = -(-(rytop - (sytop - sh * ps)) // pr) + rng.randint(*margin)
    src = Grid(sx0, sytop, ps, ps, sw, sh, unit)
    ref = Grid(rx0, rytop, pr, pr, need_w, need_h, unit)
    return src, ref


def tie_geometry(rng, max_src=36):
    """
    Dyadic source-in-reference geometry whose reference pixel edges fall exactly on half source pixels (ratio 2:1 at an odd
    half-pixel offset, 3:1 at half a source pixel, or 5:2): every block seam on the reference grid is a rounding tie on
    the source grid.
    """
    unit = Fraction(1, 8)
    kind = rng.choice(['2:1', '2:1', '3:1', '5:2'])
    ps = rng.choice([4, 8, 12])
    if kind == '2:1':
        pr, off = 2 * ps, ps // 2 + ps * rng.randint(0, 3)
    elif kind == '3:1':
        pr, off = 3 * ps, ps // 2 + ps * rng.randint(0, 2)
    else:
        pr, off = 5 * ps // 2, ps * rng.randint(0, 2)      # boundaries at k * 2.5 source pixels
    big = rng.choice([8 * 20_000, 8 * 6_500_000])
    rx0, rytop = big + rng.randrange(-20, 20) * pr + 3, big // 2 + rng.randrange(-20, 20) * pr + 5
    ml, mt = rng.randint(1, 2), rng.randint(1, 2)
    sx0, sytop = rx0 + ml * pr + off, rytop - mt * pr - off
    sw, sh = rng.randint(20, max_src), rng.randint(20, max_src)
    rw = -(-(sx0 + sw * ps - rx0) // pr) + rng.randint(1, 2)
    rh = -(-(rytop - (sytop - sh * ps)) // pr) + rng.randint(1, 2)
    return Grid(sx0, sytop, ps, ps, sw, sh, unit), Grid(rx0, rytop, pr, pr, rw, rh, unit)
