"""
Correspondence of the Lean resampling model (Model/Resample.lean) with GDAL as called through
RasterArray.reproject: average (down-sampling), nearest, bilinear, cubic and cubic_spline (up-sampling; Model/Cubic.lean),
on north-up same-CRS grids whose destination lies inside the source array (as homonim arranges by expanded, NaN-padded reads).
Masks must agree exactly, values to 2e-5 relative.
"""
from fractions import Fraction

import numpy as np

import common
import rasters


def model_resample_line(method, sg, dg, arr, valid):
    vals = [(str(int(arr[r, c])) if float(arr[r, c]).is_integer() else '%d/%d' % Fraction(float(arr[r, c])).as_integer_ratio())
            if valid[r, c] else '_' for r in range(sg.h) for c in range(sg.w)]
    return 'resample %s %d %d %d %d %d %d %d %d %d %d %d %d V %s' % (
        method, *sg.row_axis, *sg.col_axis, *dg.row_axis, *dg.col_axis, ' '.join(vals))


def parse_model_grid(rep, h, w):
    toks = rep.split()
    out = np.full((h, w), np.nan)
    for k, t in enumerate(toks):
        if t != '_':
            out[k // w, k % w] = float(Fraction(t))
    return out


def impl_reproject(sg, dg, arr, valid, method):
    from homonim.raster_array import RasterArray
    a = arr.astype('float32').copy()
    a[~valid] = np.nan
    ra = RasterArray(a, rasters.CRS3857, sg.transform, nodata=float('nan'))
    out = ra.reproject(transform=dg.transform, shape=(dg.h, dg.w), resampling=method)
    return out.array.astype('float64')


def gen(rng, method):
    """source grid + destination grid lying inside it"""
    unit = Fraction(1, 8)
    fine = rng.choice([2, 4, 8, 6])
    ratio = rng.choice([(2, 1), (2, 1), (5, 2), (3, 1), (4, 1), (3, 2), (1, 1), (20, 9)])
    if (fine * ratio[0]) % ratio[1]:
        fine *= ratio[1]
    coarse = fine * ratio[0] // ratio[1]
    x0, ytop = 8 * 30_000 + rng.randrange(0, 64), 8 * 50_000 + rng.randrange(0, 64)
    if method == 'average':
        ps, pd = fine, coarse
    else:
        ps, pd = coarse, fine
    sw, sh = rng.randint(6, 18), rng.randint(6, 18)
    sg = rasters.Grid(x0, ytop, ps, ps, sw, sh, unit)
    # destination inside the source extent, arbitrary sub-pixel offset
    span_w, span_h = sw * ps, sh * ps
    offx = rng.choice([0, 1, pd // 2, rng.randrange(0, max(1, min(pd, span_w // 4)))])
    offy = rng.choice([0, 1, pd // 2, rng.randrange(0, max(1, min(pd, span_h // 4)))])
    dw = max(1, (span_w - offx) // pd - rng.randint(0, 1))
    dh = max(1, (span_h - offy) // pd - rng.randint(0, 1))
    dg = rasters.Grid(x0 + offx, ytop - offy, pd, pd, dw, dh, unit)
    arr = np.array([[rng.randint(1, 60) for _ in range(sw)] for _ in range(sh)], float)
    valid = np.ones((sh, sw), bool)
    kind = rng.choice(['full', 'holes', 'border', 'sparse'])
    if kind == 'holes':
        for _ in range(rng.randint(1, 6)):
            valid[rng.randrange(sh), rng.randrange(sw)] = False
    elif kind == 'border':
        valid[:rng.randint(0, 2), :] = False
        valid[:, :rng.randint(0, 2)] = False
        valid[sh - rng.randint(0, 2):, :] = False
    elif kind == 'sparse':
        valid = np.array([[rng.random() < 0.6 for _ in range(sw)] for _ in range(sh)])
    return sg, dg, arr, valid, kind


def check_resampler(run: common.Run, n, methods=('average', 'nearest', 'bilinear', 'cubic_spline', 'cubic'), base=500_000):
    cases, lines, impls, sgs, valids = [], [], [], {}, {}
    for k in range(n):
        rng = run.rng(f'resamp{k}')
        method = methods[k % len(methods)]
        sg, dg, arr, valid, kind = gen(rng, method)
        if method in ('cubic', 'cubic_spline') and sg.px == dg.px and (dg.x0 - sg.x0) % sg.px == 0 and (dg.ytop - sg.ytop) % sg.py == 0:
            # a whole-pixel translation at equal resolution: GDAL copies pixels (nearest) instead of applying the kernel (a B-spline
            # would smooth); homonim never up-samples at equal resolution (`_get_resampling` picks the down-sampling method)
            run.hist['resampler: 4x4 kernel on a whole-pixel translation (GDAL copies): skipped'] += 1
            continue
        case = dict(i=base + k, op='reproject', method=method, src=sg.to_dict(), dst=dg.to_dict(), mask=kind)
        try:
            out = impl_reproject(sg, dg, arr, valid, method)
        except Exception as ex:
            run.fail(case, f'reproject raised {type(ex).__name__}: {ex}', signature=dict(kind='reproject-raises'))
            continue
        run.evaluations += 1
        run.hist[f'resampler:{method}'] += 1
        cases.append(case)
        sgs[id(case)] = sg
        valids[id(case)] = valid
        lines.append(model_resample_line(method, sg, dg, arr, valid))
        impls.append((out, dg))
    replies = common.model_batch(lines)
    if replies is None:
        run.model_available = False
        return
    for case, line, rep, (out, dg) in zip(cases, lines, replies, impls):
        run.lines_compared += 1
        m = parse_model_grid(rep, dg.h, dg.w)
        mm, im = np.isfinite(m), np.isfinite(out)
        if not np.array_equal(mm, im):
            bad = np.argwhere(mm != im)[0].tolist()
            run.disagree(case, line[:160], f'valid={bool(mm[tuple(bad)])} at {bad}', f'valid={bool(im[tuple(bad)])}',
                         what=f'resampler validity ({case["method"]})')
            continue
        if case['method'] == 'cubic' and rasters.noisy_edges('dyadic', sgs[id(case)].px, dg.px):
            # a destination centre exactly on a source centre: which four pixels are "the" support is decided by float
            # noise where the pixel arithmetic is inexact, and with it cubic's fall-back to bilinear next to invalid pixels
            mm = mm & ~(centre_centre_tie_mask(sgs[id(case)], dg) & near_invalid(sgs[id(case)], dg, valids[id(case)], 2))
            run.hist['resampler:cubic centre-on-centre pixels on inexact grids: next to invalid pixels: value not compared'] += int((~mm & im).sum())
        if mm.any():
            rel = np.max(np.abs(m[mm] - out[mm]) / np.maximum(np.abs(m[mm]), 1.0))
            if rel > 2e-5:
                k = np.argmax(np.abs(np.where(mm, m - out, 0)))
                run.disagree(case, line[:160], repr(m.flat[k]), repr(out.flat[k]),
                             what=f'resampler value ({case["method"]}) rel {rel:.1e}')


def centre_tie_mask(og, pg):
    """(pg.h, pg.w) bool: the centre of the `pg` pixel lies exactly on an `og` pixel edge along an axis - GDAL's
    nearest / kernel up-sampling then picks a side by float noise, which the model does not describe"""
    import numpy as np
    ties = []
    for (so, sp, sn), (do, dp, dn) in ((og.row_axis, pg.row_axis), (og.col_axis, pg.col_axis)):
        ties.append(np.array([(2 * (do - so) + dp * (2 * j + 1)) % (2 * sp) == 0 for j in range(dn)], bool))
    return ties[0][:, None] | ties[1][None, :]


def centre_centre_tie_mask(og, pg):
    """(pg.h, pg.w) bool: the centre of the `pg` pixel lies exactly on the centre of an `og` pixel along an axis"""
    import numpy as np
    ties = []
    for (so, sp, sn), (do, dp, dn) in ((og.row_axis, pg.row_axis), (og.col_axis, pg.col_axis)):
        ties.append(np.array([(2 * (do - so) + dp * (2 * j + 1) - sp) % (2 * sp) == 0 for j in range(dn)], bool))
    return ties[0][:, None] | ties[1][None, :]


def near_invalid(og, pg, valid, reach):
    """(pg.h, pg.w) bool: an invalid or missing `og` pixel lies within `reach` pixels of the `og` pixel containing the centre"""
    import numpy as np
    pad = np.zeros((og.h + 2 * reach, og.w + 2 * reach), bool)
    pad[reach:-reach, reach:-reach] = valid
    allv = np.ones((og.h, og.w), bool)
    for dy in range(2 * reach + 1):
        for dx in range(2 * reach + 1):
            allv &= pad[dy:dy + og.h, dx:dx + og.w]
    idx = []
    for (so, sp, sn), (do, dp, dn) in ((og.row_axis, pg.row_axis), (og.col_axis, pg.col_axis)):
        idx.append(np.clip(np.array([(2 * (do - so) + dp * (2 * j + 1)) // (2 * sp) for j in range(dn)]), 0, sn - 1))
    return ~allv[np.ix_(idx[0], idx[1])]
