"""entry point of every check:  run.py <property id> [--tier quick|thorough] [--replay PATH] [--only i,j,...]"""
import argparse
import importlib
import json
import os
import pathlib
import sys
import traceback

sys.path.insert(0, str(pathlib.Path(__file__).resolve().parent))
import common  # noqa: E402


def main():
    ap = argparse.ArgumentParser()
    ap.add_argument('pid')
    ap.add_argument('--tier', default=os.environ.get('VERIF_TIER', 'quick'), choices=['quick', 'thorough'])
    ap.add_argument('--replay', default=None)
    ap.add_argument('--only', default=None)
    ap.add_argument('--no-proof', action='store_true', help='skip the proof leg (debugging the harness only)')
    a = ap.parse_args()
    seed = int(os.environ.get('VERIF_SEED', '0') or 0)
    only = None
    tier = a.tier
    if a.replay:
        rp = json.loads(pathlib.Path(a.replay).read_text())
        seed, tier = rp['seed'], rp['tier']
        if rp.get('case_index') is not None:
            only = {rp['case_index']}
        print(f"[replay] {rp['kind']} seed={seed} tier={tier} case={rp.get('case_index')}")
    if a.only:
        only = {int(x) for x in a.only.split(',')}
    run = common.Run(a.pid, tier, seed, only)
    mod = importlib.import_module(a.pid.lower())
    # the translators run first: tables (gen_tables) and closed forms of the arithmetic statements (py2lean) are re-derived
    # from the code under test, so that the proof leg re-checks the dependent theorems against what the code says now
    tie_problems = []
    try:
        import gen_tables, py2lean
        on_repo = common.REPO == pathlib.Path('/repo')
        if on_repo:
            gen_tables.write()
        tie_problems = py2lean.refresh(a.pid, write_allowed=on_repo)
    except Exception:
        tie_problems = ['translator crashed: ' + traceback.format_exc()[-600:]]
    if a.no_proof:
        proof = common.Proof()
        proof.build_ok = True
        proof.theorems = ['(skipped)']
        proof.axioms = {'(skipped)': []}
    else:
        proof = common.proof_leg(a.pid, leanchecker=(tier == 'thorough' and not a.replay))
    for t in tie_problems:
        run.disagree(dict(i=None), '(source-text tie, harness/py2lean.py)', 'definitions the tie theorems were checked against', t,
                     what='the arithmetic the code states is no longer the one the model was proved equal to')
    try:
        mod.run(run)
        import found
        found.replay(run, a.pid)
    except Exception:
        # The harness is written not to raise on the unchanged tree.  An exception here means the real code (or the model
        # driver) behaved in a way the correspondence does not cover: the correspondence no longer checks, which is
        # reported as such (with the traceback as the replay) unless a failing input was already found.
        tb = traceback.format_exc()
        sys.stderr.write(tb)
        run.disagree(dict(i=None), '(harness exception)', 'n/a', tb[-1500:], what='exception while exercising the real code')
    status = common.finish(run, proof, level=getattr(mod, 'LEVEL', 'proof'))
    if getattr(run, 'hung', False) or any(f.get('signature', {}).get('kind') == 'hang' for f in run.failures):
        # threads of the code under test are deadlocked: a normal interpreter exit would wait for them for ever
        sys.stdout.flush()
        sys.stderr.flush()
        os._exit(status)
    sys.exit(status)


if __name__ == '__main__':
    main()
