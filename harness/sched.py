"""
Interposition machinery for C04 / C09, installed from outside the package (no source hooks):

  * Controller + ControlledExecutor: a replacement for concurrent.futures.ThreadPoolExecutor whose worker threads run one
    at a time and hand control back at every yield point (take a job, lock acquire / release, first access to a dataset
    under a lock, fit, apply, job end); a seeded controller chooses who runs next, so a schedule is a reproducible
    sequence of choices and the observed trace can be replayed through the Lean machine (`sched` op).
  * RecLock: replacement for the four threading.Lock attributes; acquisition is a yield point that is enabled only while
    the lock is free (the controller tracks ownership), so the real lock is never contended.
  * Proxy: wraps a rasterio dataset; every I/O call is recorded with the caller's lockset and may raise an injected fault.
  * install(): context manager wiring all of this into one RasterFuse run.
"""
import concurrent.futures as cf
import contextlib
import threading
import time

IO_METHODS = {'read', 'read_masks', 'dataset_mask', 'write', 'write_mask'}


class InjectedFault(OSError):
    pass


class Deadlock(RuntimeError):
    pass


class Controller:
    def __init__(self, rng, faults=None, policy=None):
        self.cv = threading.Condition()
        self.rng = rng
        self.parked = {}        # wid -> (label, enabled())
        self.granted = None
        self.running = None
        self.alive = set()
        self.owner = {}         # lock name -> wid
        self.held = {}          # thread (wid or 'main') -> set of lock names it holds
        self.lockset = {}       # dataset name -> intersection of the lock sets held at its accesses so far (Eraser)
        self.nlocks = 0         # locks created through the factory while the scheduler is installed
        self.trace = []         # (wid, label)
        self.violations = []    # property violations observed directly (e.g. dataset access without its lock)
        self.quit = False
        self.go = False
        self.deadlock = False
        self.local = threading.local()
        self.faults = faults or set()   # {(job index, site)} site in ioS ioR ioC ioP fit apply
        self.job_of = {}        # wid -> job index
        self.io_seen = {}       # wid -> set of resources already recorded for the current job
        self.policy = policy    # optional callable(enabled list, trace) -> wid
        self.choices = []
        self.thread = threading.Thread(target=self._loop, daemon=True)
        self.thread.start()

    # ---- worker side
    def wid(self):
        return getattr(self.local, 'wid', None)

    def point(self, label, enabled=None, on_grant=None):
        wid = self.wid()
        if wid is None:
            if on_grant:
                on_grant()
            return
        with self.cv:
            self.parked[wid] = (label, enabled or (lambda: True))
            if self.running == wid:
                self.running = None
            self.cv.notify_all()
            while self.granted != wid and not self.quit:
                self.cv.wait(0.5)
            if self.quit and self.granted != wid:
                self.parked.pop(wid, None)
                raise Deadlock('controller stopped')
            self.granted = None
            self.parked.pop(wid, None)
            self.running = wid
            if on_grant:
                on_grant()
            if label is not None:
                self.trace.append((wid, label))

    def fault_here(self, site):
        wid = self.wid()
        j = self.job_of.get(wid)
        return j is not None and (j, site) in self.faults

    # ---- controller thread
    def _loop(self):
        with self.cv:
            while True:
                self.cv.wait_for(lambda: self.quit or (self.go and self.running is None and self.granted is None and
                                                       self.alive and all(w in self.parked for w in self.alive)), timeout=0.2)
                if self.quit:
                    return
                if not (self.go and self.running is None and self.granted is None and self.alive and
                        all(w in self.parked for w in self.alive)):
                    continue
                enabled = sorted(w for w, (lab, en) in self.parked.items() if en())
                if not enabled:
                    if all(lab == 'take' for lab, _ in self.parked.values()):
                        self.cv.wait(0.05)   # idle: waiting for submissions or shutdown
                        continue
                    self.deadlock = True
                    self.quit = True
                    self.cv.notify_all()
                    return
                w = self.policy(enabled, self.trace) if self.policy else self.rng.choice(enabled)
                self.choices.append(w)
                self.granted = w
                self.cv.notify_all()

    def stop(self):
        with self.cv:
            self.quit = True
            self.cv.notify_all()


class RecLock:
    def __init__(self, name, ctrl):
        self.name, self.ctrl = name, ctrl
        self._real = threading.Lock()

    def acquire(self, *a, **k):
        c = self.ctrl
        wid = c.wid()

        def grant():
            c.owner[self.name] = wid if wid is not None else 'main'
            c.held.setdefault(wid if wid is not None else 'main', set()).add(self.name)
        c.point('acq' + self.name, enabled=lambda: c.owner.get(self.name) is None, on_grant=grant)
        if not self._real.acquire(timeout=10):
            c.violations.append(f'lock {self.name} was contended although the controller saw it free')
        return True

    def release(self):
        c = self.ctrl
        self._real.release()
        wid = c.wid()

        def grant():
            c.owner[self.name] = None
            c.held.setdefault(wid if wid is not None else 'main', set()).discard(self.name)
        c.point('rel' + self.name, on_grant=grant)

    def locked(self):
        return self._real.locked()

    def __enter__(self):
        self.acquire()
        return self

    def __exit__(self, *a):
        self.release()


class Proxy:
    """delegating wrapper of a rasterio dataset that records / faults its I/O calls"""

    def __init__(self, ds, name, ctrl):
        object.__setattr__(self, '_ds', ds)
        object.__setattr__(self, '_name', name)
        object.__setattr__(self, '_ctrl', ctrl)

    def __getattr__(self, k):
        v = getattr(self._ds, k)
        if k in IO_METHODS and callable(v):
            name, c = self._name, self._ctrl

            def call(*a, **kw):
                wid = c.wid()
                who = wid if wid is not None else 'main'
                # lock-set discipline: some one lock must be held at every access to this dataset (for the code as it is: the
                # lock of the same name; a lock created lazily - through the factory below - counts under its own name)
                held = frozenset(c.held.get(who, ()))
                before = c.lockset.get(name)
                now = held if before is None else (before & held)
                c.lockset[name] = now
                if not now and (before is None or before):
                    c.violations.append(f'dataset {name}.{k} called by {who} (job {c.job_of.get(wid)}) holding {sorted(held) or "no lock"}: no single '
                                        f'lock protects every access to {name} (locks common to the earlier accesses: '
                                        f'{sorted(before) if before else "-"})')
                seen = c.io_seen.setdefault(who, set())
                if name not in seen:
                    seen.add(name)
                    if c.fault_here('io' + name):
                        if wid is not None:
                            c.point('fail' + name)
                        raise InjectedFault(f'injected fault in {name}.{k}')
                    if wid is not None:
                        c.point('io' + name)
                return v(*a, **kw)
            return call
        return v

    def __setattr__(self, k, v):
        setattr(self._ds, k, v)


class ControlledExecutor:
    """stand-in for ThreadPoolExecutor: FIFO queue, max_workers controlled worker threads"""
    ctrl = None

    def __init__(self, max_workers=None, **kw):
        self.c = ControlledExecutor.ctrl
        self.queue = []
        self.njobs = 0
        self.shutdown_flag = False
        self.workers = []
        n = max_workers or 4
        for i in range(n):
            t = threading.Thread(target=self._worker, args=(i,), daemon=True)
            self.workers.append(t)
        with self.c.cv:
            for i in range(n):
                self.c.alive.add(i)
        for t in self.workers:
            t.start()

    def submit(self, fn, *args, **kwargs):
        fut = cf.Future()
        with self.c.cv:
            self.queue.append((self.njobs, fut, fn, args, kwargs))
            self.njobs += 1
            self.c.cv.notify_all()
        return fut

    def _worker(self, wid):
        c = self.c
        c.local.wid = wid
        try:
            while True:
                item = []

                def grant():
                    if self.queue:
                        item.append(self.queue.pop(0))
                c.point('take', enabled=lambda: bool(self.queue) or self.shutdown_flag, on_grant=grant)
                if not item:
                    # shutdown: remove the spurious 'take' event
                    with c.cv:
                        if c.trace and c.trace[-1] == (wid, 'take'):
                            c.trace.pop()
                    return
                j, fut, fn, args, kwargs = item[0]
                c.job_of[wid] = j
                c.io_seen[wid] = set()
                if not fut.set_running_or_notify_cancel():
                    continue
                try:
                    res = fn(*args, **kwargs)
                except BaseException as ex:
                    c.job_of[wid] = None
                    fut.set_exception(ex)
                else:
                    c.point('fin')
                    c.job_of[wid] = None
                    fut.set_result(res)
        except Deadlock:
            pass
        finally:
            with c.cv:
                c.alive.discard(wid)
                c.parked.pop(wid, None)
                if c.running == wid:
                    c.running = None
                c.cv.notify_all()

    def start_scheduling(self):
        with self.c.cv:
            self.c.go = True
            self.c.cv.notify_all()

    def shutdown(self, wait=True, **kw):
        self.start_scheduling()
        with self.c.cv:
            self.shutdown_flag = True
            self.c.cv.notify_all()
        if wait:
            for t in self.workers:
                t.join(timeout=60)

    def __enter__(self):
        return self

    def __exit__(self, *a):
        self.shutdown(wait=True)
        return False


class FuturesShim:
    """what `homonim.fuse.futures` / `homonim.stats.futures` / `homonim.compare.concurrent.futures` resolve to"""
    Future = cf.Future
    ThreadPoolExecutor = ControlledExecutor

    @staticmethod
    def as_completed(fs, timeout=None):
        fs = list(fs)
        # all jobs are submitted: let the controller start granting turns
        with ControlledExecutor.ctrl.cv:
            ControlledExecutor.ctrl.go = True
            ControlledExecutor.ctrl.cv.notify_all()
        return cf.as_completed(fs, timeout=timeout)


class PkgShim:
    futures = FuturesShim


def canonical_trace(trace):
    """
    * drop the lock release that follows an injected I/O fault (the machine releases inside the faulting step);
    * a write lock (C or P) acquired and released with no dataset call in between is the write of a block whose output window
      does not meet the dataset (`to_rio_dataset` returns before touching the dataset - the D13 repair): the machine's `io`
      step stands for the `to_rio_dataset` call, so the (empty) step is made explicit.
    """
    out, skip, last = [], {}, {}
    for wid, lab in trace:
        if skip.get(wid) and lab == 'rel' + skip[wid]:
            skip[wid] = None
            continue
        if lab.startswith('fail') and len(lab) == 5:
            skip[wid] = lab[4]
        if lab in ('relC', 'relP') and last.get(wid) == 'acq' + lab[3]:
            out.append((wid, 'io' + lab[3]))
        out.append((wid, lab))
        last[wid] = lab
    return out


@contextlib.contextmanager
def install(rf, ctrl, hook_models=True):
    """wire locks, dataset proxies, executor and model hooks into one open RasterFuse instance"""
    import homonim.fuse as hf
    from homonim.kernel_model import RefSpaceModel, SrcSpaceModel
    ControlledExecutor.ctrl = ctrl
    saved = dict(futures=hf.futures, Ref=hf.RefSpaceModel, Src=hf.SrcSpaceModel, out_files=type(rf)._out_files)
    # the locks the constructors created are replaced by controlled ones of the same role; a lock that does not exist yet (created
    # on first use) is left to the code, which then gets its locks from the factory below - every such lock is a controlled lock
    # under a fresh name, and creating one inside a worker is a scheduling point
    for attr, nm in (('_src_lock', 'S'), ('_ref_lock', 'R'), ('_corr_lock', 'C'), ('_param_lock', 'P')):
        # (only real locks: whatever else the code has put there - a no-op context manager, say - stays, and protects nothing)
        if attr in rf.__dict__ and hasattr(rf.__dict__[attr], 'acquire') and hasattr(rf.__dict__[attr], 'release'):
            setattr(rf, attr, RecLock(nm, ctrl))

    class ThreadingShim:
        def __getattr__(self, k):
            return getattr(threading, k)

        @staticmethod
        def Lock():
            ctrl.nlocks += 1
            lk = RecLock(f'L{ctrl.nlocks}', ctrl)
            if ctrl.wid() is not None:
                ctrl.point('mklock')
            return lk
    saved['threading'] = getattr(hf, 'threading', None)
    if saved['threading'] is not None:
        hf.threading = ThreadingShim()
    real_src, real_ref = rf._src_im, rf._ref_im
    rf._src_im, rf._ref_im = Proxy(real_src, 'S', ctrl), Proxy(real_ref, 'R', ctrl)
    outs = {}

    def hook(site):
        if ctrl.fault_here(site):
            if ctrl.wid() is not None:
                ctrl.point('fail')
            raise InjectedFault(f'injected fault in {site}')
        ctrl.point('cmp')

    class HRef(RefSpaceModel):
        def fit(self, s, r):
            hook('fit')
            return RefSpaceModel.fit(self, s, r)

        def apply(self, s, p):
            hook('apply')
            return RefSpaceModel.apply(self, s, p)

    class HSrc(SrcSpaceModel):
        def fit(self, s, r):
            hook('fit')
            return SrcSpaceModel.fit(self, s, r)

        def apply(self, s, p):
            hook('apply')
            return SrcSpaceModel.apply(self, s, p)

    orig_out_files = saved['out_files']

    @contextlib.contextmanager
    def out_files(self, *a, **k):
        with orig_out_files(self, *a, **k) as (out_im, param_im):
            outs['C'], outs['P'] = out_im, param_im
            yield Proxy(out_im, 'C', ctrl), (Proxy(param_im, 'P', ctrl) if param_im else None)

    orig_pb = type(rf)._process_block
    counter = {'n': 0}

    def process_block(self, block_pair, model, corr_im, param_im=None):
        if ctrl.wid() is None:   # single-thread branch: blocks run in the calling thread, in submission order
            ctrl.job_of[None] = counter['n']
            counter['n'] += 1
            ctrl.io_seen['main'] = set()
            ctrl.main_jobs = counter['n']
        return orig_pb(self, block_pair, model, corr_im, param_im)
    saved['pb'] = orig_pb
    type(rf)._process_block = process_block
    hf.futures = FuturesShim
    if hook_models:
        hf.RefSpaceModel, hf.SrcSpaceModel = HRef, HSrc
    type(rf)._out_files = out_files
    try:
        yield outs
    finally:
        hf.futures = saved['futures']
        if saved.get('threading') is not None:
            hf.threading = saved['threading']
        hf.RefSpaceModel, hf.SrcSpaceModel = saved['Ref'], saved['Src']
        type(rf)._out_files = saved['out_files']
        type(rf)._process_block = saved['pb']
        rf._src_im, rf._ref_im = real_src, real_ref
        ctrl.stop()


def stragglers(before, wait=10.0):
    """executor worker threads started since `before` (a set of threads) that are still alive now; they are joined (up to `wait`
    seconds each) before returning, so that the caller can go on to close the datasets they may be using"""
    late = [t for t in threading.enumerate() if t not in before and t.is_alive() and t.name.startswith('ThreadPoolExecutor')]
    import time
    deadline = time.time() + wait
    for t in late:
        t.join(max(0.0, deadline - time.time()))
    return late


def run_with_watchdog(fn, timeout=30):
    """run fn() in a thread; returns (finished, result or exception)"""
    box = {}

    def target():
        try:
            box['r'] = fn()
        except BaseException as ex:
            box['e'] = ex
    t = threading.Thread(target=target, daemon=True)
    t.start()
    t.join(timeout)
    if t.is_alive():
        return False, None
    return True, box.get('e', box.get('r'))
