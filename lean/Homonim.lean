import Homonim.Model.Geom
import Homonim.Model.Blocks
