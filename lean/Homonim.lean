import Homonim.Model.Geom
import Homonim.Model.Blocks
import Homonim.Model.WindowIO
import Homonim.Model.Orient
import Homonim.Model.Kernel
import Homonim.Model.Resample
import Homonim.Model.Fuse
import Homonim.Model.Mask
