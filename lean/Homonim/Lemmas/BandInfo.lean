/-
  Helper lemmas about `bandInfo` (Model/Bands.lean), the model of `MatchedPairReader._get_band_info`.
-/
import Homonim.Model.Bands
import Mathlib.Data.List.Basic

namespace Homonim
namespace BandInfo

/-! ### named pieces of `bandInfo` -/

/-- the candidate (non-alpha, non-mask) 1-based band numbers, in file order -/
def cand (bands : List BandMeta) : List Nat :=
  ((List.range bands.length).filter fun i => match bands[i]? with
    | some b => !b.alpha && !b.maskDescr | none => false).map (· + 1)

/-- the candidates that carry a wavelength tag -/
def refl (bands : List BandMeta) : List Nat :=
  (cand bands).filter fun bi => match bands[bi - 1]? with
    | some b => b.wl.isSome | none => false

/-- the default selection -/
def dflt (bands : List BandMeta) : List Nat :=
  if !(refl bands).isEmpty then refl bands else cand bands

/-- wavelengths after the colour-interpretation defaults -/
def step1 (bands : List BandMeta) (na : List Nat) : List (Option Rat) :=
  (List.range bands.length).map fun i =>
    match (bands.map (·.wl)).getD i none, bands[i]? with
    | some w, _ => some w
    | none, some b => if na.contains (i + 1) then stdRgb b.ci else none
    | none, none => none

/-- the final per-band wavelengths -/
def cw1 (bands : List BandMeta) (na : List Nat) : List (Option Rat) :=
  if na.length = 3 then
    if na.all fun bi => ((step1 bands na).getD (bi - 1) none).isNone then
      (List.range bands.length).map fun i =>
        match na.idxOf? (i + 1) with
        | some 0 => some (650 / 1000 : Rat)
        | some 1 => some (560 / 1000)
        | some 2 => some (480 / 1000)
        | _ => (step1 bands na).getD i none
    else step1 bands na
  else bands.map (·.wl)

theorem finish_eq (bands : List BandMeta) (na chosen : List Nat) :
    bandInfo.finish bands na chosen =
      if chosen.isEmpty then .error .noBands
      else .ok (chosen, chosen.map fun bi => (cw1 bands na).getD (bi - 1) none) := rfl

theorem bandInfo_eq (bands : List BandMeta) (sel : Option (List Nat)) :
    bandInfo bands sel =
      match sel with
      | some s =>
        if !(s.all fun b => decide (1 ≤ b) && decide (b ≤ bands.length)) then .error .invalidBand
        else if !(s.all fun b => (cand bands).contains b) then .error .alphaBand
        else bandInfo.finish bands (cand bands) (if s.isEmpty then dflt bands else s)
      | none => bandInfo.finish bands (cand bands) (dflt bands) := rfl

/-! ### candidates -/

theorem mem_cand {bands : List BandMeta} {b : Nat} :
    b ∈ cand bands ↔ 1 ≤ b ∧ ∃ m, bands[b - 1]? = some m ∧ m.alpha = false ∧ m.maskDescr = false := by
  unfold cand
  simp only [List.mem_map, List.mem_filter, List.mem_range]
  constructor
  · rintro ⟨i, ⟨hi, hc⟩, rfl⟩
    refine ⟨by omega, ?_⟩
    simp only [Nat.add_sub_cancel]
    cases hb : bands[i]? with
    | none => simp [hb] at hc
    | some m => simp [hb] at hc; exact ⟨m, rfl, hc.1, hc.2⟩
  · rintro ⟨h1, m, hm, ha, hd⟩
    refine ⟨b - 1, ⟨?_, ?_⟩, by omega⟩
    · exact (List.getElem?_eq_some_iff.1 hm).1
    · simp [hm, ha, hd]

theorem cand_pairwise (bands : List BandMeta) : (cand bands).Pairwise (· < ·) := by
  unfold cand
  refine List.Pairwise.map _ (fun a b h => Nat.add_lt_add_right h 1) ?_
  exact List.Pairwise.filter _ List.pairwise_lt_range

theorem cand_nodup (bands : List BandMeta) : (cand bands).Nodup :=
  (cand_pairwise bands).imp (fun h => Nat.ne_of_lt h)

theorem mem_refl {bands : List BandMeta} {b : Nat} :
    b ∈ refl bands ↔ b ∈ cand bands ∧ ∃ m, bands[b - 1]? = some m ∧ m.wl.isSome = true := by
  unfold refl
  simp only [List.mem_filter]
  constructor
  · rintro ⟨hc, ht⟩
    refine ⟨hc, ?_⟩
    cases hb : bands[b - 1]? with
    | none => simp [hb] at ht
    | some m => simp only [hb] at ht; exact ⟨m, rfl, ht⟩
  · rintro ⟨hc, m, hm, ht⟩
    exact ⟨hc, by simp [hm, ht]⟩

theorem refl_pairwise (bands : List BandMeta) : (refl bands).Pairwise (· < ·) :=
  List.Pairwise.filter _ (cand_pairwise bands)

theorem dflt_pairwise (bands : List BandMeta) : (dflt bands).Pairwise (· < ·) := by
  unfold dflt; split
  · exact refl_pairwise bands
  · exact cand_pairwise bands

theorem dflt_sub (bands : List BandMeta) : ∀ b ∈ dflt bands, b ∈ cand bands := by
  unfold dflt; split
  · intro b hb; exact (mem_refl.1 hb).1
  · intro b hb; exact hb

theorem dflt_of_tagged {bands : List BandMeta} (h : ∃ b, b ∈ refl bands) : dflt bands = refl bands := by
  obtain ⟨b, hb⟩ := h
  unfold dflt
  have : (refl bands).isEmpty = false := by
    cases hr : refl bands with
    | nil => rw [hr] at hb; cases hb
    | cons a l => rfl
  simp [this]

theorem dflt_of_untagged {bands : List BandMeta} (h : ¬ ∃ b, b ∈ refl bands) : dflt bands = cand bands := by
  unfold dflt
  have : (refl bands).isEmpty = true := by
    cases hr : refl bands with
    | nil => rfl
    | cons a l => exact absurd ⟨a, by simp [hr]⟩ h
  simp [this]

/-! ### what an accepted call returns -/

theorem bandInfo_ok {bands : List BandMeta} {sel : Option (List Nat)} {bs : List Nat} {ws : List (Option Rat)}
    (h : bandInfo bands sel = .ok (bs, ws)) :
    bs ≠ [] ∧ (∀ b ∈ bs, b ∈ cand bands) ∧
    ws = bs.map (fun bi => (cw1 bands (cand bands)).getD (bi - 1) none) ∧
    (∀ s, sel = some s → s ≠ [] → bs = s) ∧ (sel = none → bs = dflt bands) := by
  have fin : ∀ chosen, bandInfo.finish bands (cand bands) chosen = .ok (bs, ws) →
      chosen ≠ [] ∧ bs = chosen ∧ ws = bs.map (fun bi => (cw1 bands (cand bands)).getD (bi - 1) none) := by
    intro chosen h
    rw [finish_eq] at h
    split at h
    · cases h
    · rename_i hne
      injection h with h; injection h with h1 h2
      subst h1
      exact ⟨by intro h0; simp [h0] at hne, rfl, h2.symm⟩
  rw [bandInfo_eq] at h
  cases sel with
  | none =>
    obtain ⟨h0, rfl, h2⟩ := fin _ h
    exact ⟨h0, dflt_sub bands, h2, (by intro s hs; cases hs), fun _ => rfl⟩
  | some s =>
    simp only at h
    split at h
    · cases h
    · split at h
      · cases h
      · rename_i hin hall
        obtain ⟨h0, rfl, h2⟩ := fin _ h
        refine ⟨h0, ?_, h2, ?_, (by intro hs; cases hs)⟩
        · split
          · exact dflt_sub bands
          · intro b hb
            simp only [Bool.not_eq_true, Bool.not_eq_false', List.all_eq_true] at hall
            have := hall b hb
            simpa using this
        · intro s' hs' hne'
          injection hs' with hs'
          subst hs'
          cases s with
          | nil => exact absurd rfl hne'
          | cons a l => rfl

theorem bandInfo_error_of_not_cand {bands : List BandMeta} {s : List Nat} {b : Nat} (hb : b ∈ s)
    (hbad : b ∉ cand bands) : ∃ e, bandInfo bands (some s) = .error e := by
  rw [bandInfo_eq]
  simp only
  split
  · exact ⟨_, rfl⟩
  · split
    · exact ⟨_, rfl⟩
    · rename_i _ hall
      simp only [Bool.not_eq_true, Bool.not_eq_false', List.all_eq_true] at hall
      have := hall b hb
      exact absurd (by simpa using this) hbad

/-! ### the wavelengths -/

theorem cw0_getD {bands : List BandMeta} {i : Nat} {m : BandMeta} (hm : bands[i]? = some m) :
    (bands.map (·.wl)).getD i none = m.wl := by
  rw [List.getD_eq_getElem?_getD, List.getElem?_map, hm]; rfl

theorem step1_getD {bands : List BandMeta} (na : List Nat) {i : Nat} {m : BandMeta} (hm : bands[i]? = some m) :
    (step1 bands na).getD i none =
      match m.wl with
      | some w => some w
      | none => if na.contains (i + 1) then stdRgb m.ci else none := by
  have hi : i < bands.length := (List.getElem?_eq_some_iff.1 hm).1
  unfold step1
  rw [List.getD_eq_getElem?_getD, List.getElem?_map, List.getElem?_range hi]
  simp only [Option.map_some, Option.getD_some, cw0_getD hm, hm]
  cases m.wl <;> rfl

theorem stdRgb_cases {c : ColorInterp} {w : Rat} (h : stdRgb c = some w) :
    w = 650 / 1000 ∨ w = 560 / 1000 ∨ w = 480 / 1000 := by
  cases c <;> simp [stdRgb] at h <;> simp [← h]

/-- a tag is never overwritten (for a band of `na`) -/
theorem cw1_tag {bands : List BandMeta} {na : List Nat} {i : Nat} {m : BandMeta} {w : Rat}
    (hm : bands[i]? = some m) (hw : m.wl = some w) (hna : i + 1 ∈ na) : (cw1 bands na).getD i none = some w := by
  have hs : (step1 bands na).getD i none = some w := by rw [step1_getD na hm, hw]
  unfold cw1
  split
  · split
    · rename_i hall
      rw [List.all_eq_true] at hall
      have := hall _ hna
      rw [Nat.add_sub_cancel, hs] at this
      cases this
    · exact hs
  · rw [cw0_getD hm, hw]

/-- an untagged band gets a wavelength only through the three-band RGB defaults -/
theorem cw1_untagged {bands : List BandMeta} {na : List Nat} {i : Nat} {m : BandMeta} {w : Rat}
    (hm : bands[i]? = some m) (hw : m.wl = none) (h : (cw1 bands na).getD i none = some w) :
    na.length = 3 ∧ (w = 650 / 1000 ∨ w = 560 / 1000 ∨ w = 480 / 1000) := by
  have hi : i < bands.length := (List.getElem?_eq_some_iff.1 hm).1
  have hs : ∀ w, (step1 bands na).getD i none = some w → (w = 650 / 1000 ∨ w = 560 / 1000 ∨ w = 480 / 1000) := by
    intro w h
    rw [step1_getD na hm, hw] at h
    simp only at h
    split at h
    · exact stdRgb_cases h
    · cases h
  unfold cw1 at h
  split at h
  · rename_i h3
    refine ⟨h3, ?_⟩
    split at h
    · rw [List.getD_eq_getElem?_getD, List.getElem?_map, List.getElem?_range hi] at h
      simp only [Option.map_some, Option.getD_some] at h
      split at h
      · injection h with h; exact Or.inl h.symm
      · injection h with h; exact Or.inr (Or.inl h.symm)
      · injection h with h; exact Or.inr (Or.inr h.symm)
      · exact hs w h
    · exact hs w h
  · rw [cw0_getD hm, hw] at h; cases h

/-- no file-order assumption when some band of `na` is tagged -/
theorem cw1_other {bands : List BandMeta} {na : List Nat} {i : Nat} {m : BandMeta}
    (hm : bands[i]? = some m) (hw : m.wl = none) (hci : m.ci = .other)
    (htag : ∃ b ∈ na, ∃ m', bands[b - 1]? = some m' ∧ m'.wl.isSome = true) : (cw1 bands na).getD i none = none := by
  have hs : (step1 bands na).getD i none = none := by
    rw [step1_getD na hm, hw, hci]; simp [stdRgb]
  unfold cw1
  split
  · split
    · rename_i hall
      rw [List.all_eq_true] at hall
      obtain ⟨b, hb, m', hm', hw'⟩ := htag
      have := hall b hb
      rw [step1_getD na hm'] at this
      cases hwl : m'.wl with
      | none => simp [hwl] at hw'
      | some w' => simp [hwl] at this
    · exact hs
  · rw [cw0_getD hm, hw]

/-- the same, when some band of `na` has a tag *or* a red/green/blue colour interpretation -/
theorem cw1_other' {bands : List BandMeta} {na : List Nat} {i : Nat} {m : BandMeta}
    (hm : bands[i]? = some m) (hw : m.wl = none) (hci : m.ci = .other) (hpos : ∀ b ∈ na, 1 ≤ b)
    (htag : ∃ b ∈ na, ∃ m', bands[b - 1]? = some m' ∧ (m'.wl.isSome = true ∨ m'.ci ≠ .other)) :
    (cw1 bands na).getD i none = none := by
  have hs : (step1 bands na).getD i none = none := by
    rw [step1_getD na hm, hw, hci]; simp [stdRgb]
  unfold cw1
  split
  · split
    · rename_i hall
      rw [List.all_eq_true] at hall
      obtain ⟨b, hb, m', hm', hw'⟩ := htag
      have := hall b hb
      rw [step1_getD na hm'] at this
      have hb1 : b - 1 + 1 = b := Nat.sub_add_cancel (hpos b hb)
      cases hwl : m'.wl with
      | some w' => simp [hwl] at this
      | none =>
        rw [hwl] at this
        simp only [hb1, List.contains_iff_mem.2 hb, if_true] at this
        rcases hw' with hw' | hw'
        · simp [hwl] at hw'
        · cases hc : m'.ci <;> simp_all [stdRgb]
    · exact hs
  · rw [cw0_getD hm, hw]

end BandInfo
end Homonim
